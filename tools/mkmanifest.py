"""Regenerate MANIFEST.json from pbt/manifest_table.py and validate it against the schema."""
import json, os, sys
HERE = os.path.dirname(os.path.dirname(os.path.abspath(__file__)))
sys.path.insert(0, HERE)
from pbt.manifest_table import CHECKS, NOT_APPLICABLE, NOTES

props = [json.loads(l)["id"] for l in open(os.path.join(HERE, "properties.jsonl"))]
checks = []
for pid in props:
    if pid not in CHECKS:
        continue
    c = dict(CHECKS[pid])
    if os.path.exists(os.path.join(HERE, "docs", "audit", pid + ".md")):
        # the generator audit widened the input domains after these texts were written
        c["text"] = c["text"] + " Input domains widened dimension by dimension against the quantifier (argument types, defaults, numbering, object kinds, operations on results): table with class counts in docs/audit/%s.md." % pid
    checks.append({
        "property_id": pid,
        "quick_cmd": "./check %s quick" % pid,
        "thorough_cmd": "./check %s thorough" % pid,
        "evidence_file": "evidence/%s.json" % pid,
        "replay_cmd_template": "./check %s --replay {path}" % pid,
        "engine": "pbt",
        "level_claimed": {"category": "exploration", "text": c["text"], "design_ref": c["design_ref"]},
        "level_note": c["note"],
        "technique": c["technique"],
    })
na = [{"property_id": p, "reason": NOT_APPLICABLE.get(p, "check not built yet in this round (planned in DESIGN.md section 4)")} for p in props if p not in CHECKS]
man = {
    "version": 1,
    "setup_cmd": "sh tools/setup.sh",
    "hooks": {
        "guard": "CPJKU_PARTITURA_VERIF",
        "enable": "no source hooks are needed: checks import /repo's working tree directly (PYTHONPATH=/repo) and observe public API results; the variable is exported by ./check but nothing in /repo reads it",
        "baseline_off_cmd": "cd /repo && /venv/bin/python -m pytest -ra -q -p no:cacheprovider --timeout=900 --continue-on-collection-errors",
        "source_commits": [],
        "add_only": True,
    },
    "engines": [{
        "name": "pbt", "path": "pbt/",
        "serves_properties": sorted(CHECKS),
        "kind_free_text": "Hypothesis property-based / model-based generation and exhaustive enumeration against explicit reference oracles; 16 process shards; discrepancy bucketing, shrinking, replay files",
    }],
    "checks": checks,
    "not_applicable": na,
    "notes": NOTES,
}
json.dump(man, open(os.path.join(HERE, "MANIFEST.json"), "w"), indent=1)
try:
    import jsonschema
    jsonschema.validate(man, json.load(open("/root/.vp/MANIFEST.schema.json")))
    print("MANIFEST.json valid; %d checks, %d not_applicable" % (len(checks), len(na)))
except ImportError:
    print("written (jsonschema not available)")
