"""Run the pinned baseline suite on /repo and compare with BASELINE.json's stable_pass list.
usage: /venv/bin/python tools/baseline.py   (exit 0 iff every stable test still passes)"""
import json, os, subprocess, sys, tempfile
import xml.etree.ElementTree as ET

base = json.load(open("/root/.vp/BASELINE.json"))
with tempfile.TemporaryDirectory() as d:
    out = os.path.join(d, "j.xml")
    env = dict(os.environ)
    env.pop("CPJKU_PARTITURA_VERIF", None)
    p = subprocess.run(
        ["/venv/bin/python", "-m", "pytest", "-q", "-p", "no:cacheprovider", "--timeout=900",
         "--continue-on-collection-errors", "-x" if False else "-q", "-n", "8", "--junitxml=" + out],
        cwd="/repo", env=env, stdout=subprocess.PIPE, stderr=subprocess.STDOUT)
    if not os.path.exists(out):
        p = subprocess.run(
            ["/venv/bin/python", "-m", "pytest", "-q", "-p", "no:cacheprovider", "--timeout=900",
             "--continue-on-collection-errors", "--junitxml=" + out],
            cwd="/repo", env=env, stdout=subprocess.PIPE, stderr=subprocess.STDOUT)
    passed = set()
    for tc in ET.parse(out).getroot().iter("testcase"):
        if not list(tc):
            passed.add("%s::%s" % (tc.get("classname"), tc.get("name")))
missing = [t for t in base["stable_pass"] if t not in passed]
print("stable tests passing: %d / %d" % (len(base["stable_pass"]) - len(missing), len(base["stable_pass"])))
for m in missing:
    print("NOW FAILING:", m)
sys.exit(1 if missing else 0)
