"""Deliberate breakages used for sensitivity experiments (DESIGN.md section 7).
Each entry: prop, name, file (relative to the repository), old, new [, count, subs]."""

MUTATIONS = [
    # ---------------------------------------------------------------- C01
    dict(prop="C01", name="add_point-skip-prev-relink", file="partitura/score.py",
         old="                self._points[i].prev = self._points[i - 1]\n            if i < len(self._points) - 1:\n                self._points[i].next = self._points[i + 1]",
         new="                pass\n            if i < len(self._points) - 1:\n                self._points[i].next = self._points[i + 1]"),
    dict(prop="C01", name="iter_all-end-side-right", file="partitura/score.py",
         old="            end_idx = np.searchsorted(self._points, end)\n\n        if cls is None:",
         new="            end_idx = np.searchsorted(self._points, end, side=\"right\")\n\n        if cls is None:"),
    dict(prop="C01", name="cleanup-never-removes", file="partitura/score.py",
         old="        ) == 0:\n            self._remove_point(tp)", new="        ) < 0:\n            self._remove_point(tp)"),
    dict(prop="C01", name="setq-range-includes-next", file="partitura/score.py",
         old="        end_idx = np.searchsorted(self._points, TimePoint(t_next))\n",
         new="        end_idx = np.searchsorted(self._points, TimePoint(t_next), side=\"right\")\n"),
    dict(prop="C01", name="new-point-quarter-from-first-entry", file="partitura/score.py",
         old="            tp = TimePoint(t, int(self._quarter_map(t)))", new="            tp = TimePoint(t, int(self._quarter_durations[0]))"),
    dict(prop="C01", name="iter_prev-skips-eq", file="partitura/score.py",
         old="        if eq:\n            tp = self\n        else:\n            tp = self.prev\n",
         new="        if eq and self.prev is None:\n            tp = self\n        else:\n            tp = self.prev\n"),
    dict(prop="C01", name="remove-both-leaves-end-when-same-point", file="partitura/score.py",
         old="        if which in (\"end\", \"both\") and o.end:",
         new="        if which in (\"end\", \"both\") and o.end and not (which == \"both\" and o.end.t == 0):"),
    # ---------------------------------------------------------------- C12
    dict(prop="C12", name="midi-base-class-f-6", file="partitura/utils/globals.py",
         old='MIDI_BASE_CLASS = {"c": 0, "d": 2, "e": 4, "f": 5,', new='MIDI_BASE_CLASS = {"c": 0, "d": 2, "e": 4, "f": 6,'),
    dict(prop="C12", name="accept-fifths-8", file="partitura/utils/music.py",
         old="    if not -7 <= fifths <= 7:", new="    if not -8 <= fifths <= 7:"),
    dict(prop="C12", name="ticks-floor", file="partitura/utils/music.py",
         old="    midi_ticks = np.round(1e6 * ppq * time_in_seconds / mpq)", new="    midi_ticks = np.floor(1e6 * ppq * time_in_seconds / mpq)"),
    dict(prop="C12", name="interval-A4-semitones", file="partitura/utils/globals.py",
         old="            for generic in [0, 5, 7]\n            for specific in [-2, -1, 0, 1, 2]",
         new="            for generic in [0, 5, 7]\n            for specific in [-2, -1, 0, 1, 3]"),
    dict(prop="C12", name="minor-key-name-parse-off", file="partitura/utils/music.py",
         old="            corr = 1 if idx > 2 else 0\n", new="            corr = 1 if idx > 3 else 0\n"),
    dict(prop="C12", name="dot-multiplier-3-dots", file="partitura/utils/globals.py",
         old="DOT_MULTIPLIERS = (1, 1 + 1 / 2, 1 + 3 / 4, 1 + 7 / 8)", new="DOT_MULTIPLIERS = (1, 1 + 1 / 2, 1 + 3 / 4, 1 + 7 / 16)"),
]
