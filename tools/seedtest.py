"""Confirm and evaluate a seeded change written by an independent sub-agent.

usage: /venv/bin/python tools/seedtest.py <Cxx> <dir with patch.diff + demo.py [+ notes.md]> [--name <label>] [--thorough] [--nosuite]

Steps (all in a scratch worktree of /repo's HEAD under /tmp, removed afterwards):
 1. demo.py against the clean tree must exit 0;
 2. apply patch.diff; demo.py must exit non-zero;
 3. the baseline suite must still pass every stable test (BASELINE.json);
 4. run ./check Cxx quick (and thorough on request) against the patched tree -> caught / missed;
 5. record everything in /verif/seeded/<label>/{patch.diff, demo.py, notes.md, meta.json}.
"""
import json
import os
import shutil
import subprocess
import sys
import time
import xml.etree.ElementTree as ET

HERE = os.path.dirname(os.path.dirname(os.path.abspath(__file__)))


def sh(*a, **k):
    return subprocess.run(a, stdout=subprocess.PIPE, stderr=subprocess.STDOUT, text=True, **k)


def main():
    prop, src = sys.argv[1], sys.argv[2]
    label = prop
    if "--name" in sys.argv:
        label = sys.argv[sys.argv.index("--name") + 1]
    wt = "/tmp/seedtest_wt_%d" % os.getpid()
    scr = "/tmp/seedtest_scr_%d" % os.getpid()
    meta = {"property": prop, "label": label, "repo_head": sh("git", "-C", "/repo", "rev-parse", "--short", "HEAD").stdout.strip(),
            "ran": []}
    sh("git", "-C", "/repo", "worktree", "add", "--detach", wt, "HEAD")
    try:
        demo = os.path.join(src, "demo.py")
        r = sh("/venv/bin/python", "-W", "ignore", demo, wt, cwd=src)
        meta["demo_clean_exit"] = r.returncode
        meta["ran"].append("demo.py <clean worktree> -> exit %d" % r.returncode)
        r = sh("git", "-C", wt, "apply", "--whitespace=nowarn", os.path.join(src, "patch.diff"))
        if r.returncode:
            r = sh("patch", "-p1", "-d", wt, "-i", os.path.join(src, "patch.diff"))
        meta["patch_applies"] = r.returncode == 0
        if not meta["patch_applies"]:
            print("PATCH DOES NOT APPLY", r.stdout[-500:])
        r = sh("/venv/bin/python", "-W", "ignore", demo, wt, cwd=src)
        meta["demo_patched_exit"] = r.returncode
        meta["demo_patched_tail"] = r.stdout[-600:]
        meta["ran"].append("demo.py <patched worktree> -> exit %d" % r.returncode)
        if "--nosuite" not in sys.argv:
            base = json.load(open("/root/.vp/BASELINE.json"))
            out = os.path.join(scr + "_j.xml")
            env = dict(os.environ, PYTHONPATH=wt)
            env.pop("CPJKU_PARTITURA_VERIF", None)
            sh("/venv/bin/python", "-m", "pytest", "-q", "-p", "no:cacheprovider", "--timeout=900", "--continue-on-collection-errors",
               "-n", "8", "--junitxml=" + out, cwd=wt, env=env)
            passed = set()
            if os.path.exists(out):
                for tc in ET.parse(out).getroot().iter("testcase"):
                    if not list(tc):
                        passed.add("%s::%s" % (tc.get("classname"), tc.get("name")))
                os.unlink(out)
            missing = [t for t in base["stable_pass"] if t not in passed]
            meta["suite_stable_failing"] = missing
            meta["ran"].append("baseline suite on patched worktree -> %d of %d stable tests pass" % (len(base["stable_pass"]) - len(missing), len(base["stable_pass"])))
        tiers = ["quick"] + (["thorough"] if "--thorough" in sys.argv else [])
        for tier in tiers:
            shutil.rmtree(scr, ignore_errors=True)
            t0 = time.time()
            r = subprocess.run([os.path.join(HERE, "check"), prop, tier], env=dict(os.environ, VERIF_REPO=wt, VERIF_SCRATCH=scr),
                               stdout=subprocess.PIPE, stderr=subprocess.STDOUT, text=True)
            viol = [l for l in r.stdout.splitlines() if l.startswith("VIOLATION")]
            meta["check_%s" % tier] = {"exit": r.returncode, "seconds": round(time.time() - t0, 1),
                                         "caught": r.returncode == 1 and bool(viol),
                                         "buckets": [v.split("[")[-1].rstrip("]") for v in viol]}
            meta["ran"].append("VERIF_REPO=<patched> ./check %s %s -> exit %d, %d VIOLATION lines" % (prop, tier, r.returncode, len(viol)))
    finally:
        sh("git", "-C", "/repo", "worktree", "remove", "--force", wt)
        shutil.rmtree(wt, ignore_errors=True)
        shutil.rmtree(scr, ignore_errors=True)
    prev_meta = os.path.join(HERE, "seeded", label, "meta.json")
    if "--nosuite" in sys.argv and os.path.exists(prev_meta):
        # keep the result of the suite run of the first evaluation (the patch is the same)
        old = json.load(open(prev_meta))
        for k in ("suite_stable_failing", "first_evaluation"):
            if k in old:
                meta[k] = old[k]
        for line in old.get("ran", []):
            if line.startswith("baseline suite"):
                meta["ran"].insert(2, line + " [evaluation at %s]" % old.get("repo_head", "?"))
                break
    valid = meta.get("demo_clean_exit") == 0 and meta.get("demo_patched_exit", 0) != 0 and meta.get("patch_applies") and not meta.get("suite_stable_failing")
    meta["confirmed"] = bool(valid)
    dst = os.path.join(HERE, "seeded", label)
    os.makedirs(dst, exist_ok=True)
    for fn in ("patch.diff", "demo.py", "notes.md"):
        if os.path.exists(os.path.join(src, fn)) and os.path.abspath(src) != os.path.abspath(dst):
            shutil.copy(os.path.join(src, fn), os.path.join(dst, fn))
    if os.path.exists(os.path.join(src, "notes.md")):
        meta["needs_to_manifest"] = "see notes.md"
    json.dump(meta, open(os.path.join(dst, "meta.json"), "w"), indent=1)
    print(json.dumps({k: meta[k] for k in meta if k not in ("demo_patched_tail",)}, indent=1))


if __name__ == "__main__":
    main()
