"""Deliberate breakages for C12 that only the shapes added by the generator audit (docs/audit/C12.md) expose.
Same format as tools/mutations.py; run with `VERIF_SHARDS=4 /venv/bin/python tools/muttest.py C12`."""

MUS = "partitura/utils/music.py"
GLO = "partitura/utils/globals.py"
SCO = "partitura/score.py"

MUTATIONS = [
    # Note.alter_sign (ALTER_SIGNS table) was never read
    dict(prop="C12", name="audit-alter-sign-double-flat", file=GLO,
         old='ALTER_SIGNS = {None: "", 0: "", 1: "#", 2: "x", 3: "###", -1: "b", -2: "bb", -3: "bbb"}',
         new='ALTER_SIGNS = {None: "", 0: "", 1: "#", 2: "x", 3: "###", -1: "b", -2: "b", -3: "bbb"}'),
    # Note was only built with upper case steps
    dict(prop="C12", name="audit-note-keeps-lower-case-step", file=SCO,
         old="        self.step = step.upper()\n        self.octave = octave\n        self.alter = alter",
         new="        self.step = step\n        self.octave = octave\n        self.alter = alter"),
    # ensure_pitch_spelling_format was only reached with the arguments of its two internal callers
    dict(prop="C12", name="audit-sign-ns-natural", file=MUS, old='    "ns": 1,\n', new='    "ns": 0,\n'),
    dict(prop="C12", name="audit-octave-dash-not-none", file=MUS, old='    if octave == "-":\n', new='    if octave == "--":\n'),
    dict(prop="C12", name="audit-rest-step-rejected", file=MUS,
         old='        if step.lower() != "r":\n            raise ValueError("Invalid `step`")',
         new='        raise ValueError("Invalid `step`")'),
    # strings outside the note name grammar were never given
    dict(prop="C12", name="audit-note-name-lower-case-accepted", file=GLO,
         old='NOTE_NAME_PATT = re.compile(r"([A-G]{1})([xb\\#]*)(\\d+)")',
         new='NOTE_NAME_PATT = re.compile(r"([A-Ga-g]{1})([xb\\#]*)(\\d+)")'),
    # mode was never omitted
    dict(prop="C12", name="audit-key-name-default-mode-minor", file=MUS,
         old="def fifths_mode_to_key_name(fifths, mode=None):", new="def fifths_mode_to_key_name(fifths, mode=-1):"),
    # fifths were always Python ints (note arrays hold i4)
    dict(prop="C12", name="audit-fifths-range-check-python-int-only", file=MUS,
         old="    if not -7 <= fifths <= 7:", new="    if isinstance(fifths, int) and not -7 <= fifths <= 7:"),
    # key names beyond the thirty were never parsed
    dict(prop="C12", name="audit-key-name-double-flat-counted-once", file=MUS,
         old='            fifths = -idx - 7 * (key_name.count("b") - corr)\n        else:\n            idx = s_list.index(key_name[0])\n            corr = 1 if idx > 5 else 0',
         new='            fifths = -idx - 7 * (min(key_name.count("b"), 1) - corr)\n        else:\n            idx = s_list.index(key_name[0])\n            corr = 1 if idx > 5 else 0'),
    # tuplets always had types
    dict(prop="C12", name="audit-tuplet-without-types", file=SCO,
         old="        if self.actual_type == self.normal_type:\n            return Fraction(self.normal_notes, self.actual_notes)",
         new="        if self.actual_type == self.normal_type and self.actual_type is not None:\n            return Fraction(self.normal_notes, self.actual_notes)"),
    # unit strings never had blanks
    dict(prop="C12", name="audit-tempo-unit-not-stripped", file=MUS,
         old='    unit = unit.strip().rstrip(".")', new='    unit = unit.rstrip(".")'),
    # direction was always given
    dict(prop="C12", name="audit-interval-default-direction-down", file=SCO,
         old='    def __init__(self, number, quality, direction="up"):', new='    def __init__(self, number, quality, direction="down"):'),
    # mpq / ppq were always given, positionally
    dict(prop="C12", name="audit-seconds-to-ticks-default-ppq", file=MUS,
         old="    mpq=500000,\n    ppq=480,\n) -> Union[int, np.ndarray]:", new="    mpq=500000,\n    ppq=960,\n) -> Union[int, np.ndarray]:"),
    dict(prop="C12", name="audit-ticks-to-seconds-default-mpq", file=MUS,
         old="    mpq=500000,\n    ppq=480,\n) -> Union[float, np.ndarray]:", new="    mpq=600000,\n    ppq=480,\n) -> Union[float, np.ndarray]:"),
    dict(prop="C12", name="audit-deprecated-keyword-t-broken", file=MUS,
         old='@deprecated_alias(t="time_in_seconds")\ndef seconds_to_midi_ticks(', new='@deprecated_alias(t="time_in_second")\ndef seconds_to_midi_ticks('),
    # mpq was always an int
    dict(prop="C12", name="audit-float-mpq-truncated", file=MUS,
         old="        1e6 * ppq * np.asarray(time_in_seconds, dtype=float) / mpq\n",
         new="        1e6 * ppq * np.asarray(time_in_seconds, dtype=float) / int(mpq)\n"),
    # arrays were never empty
    dict(prop="C12", name="audit-empty-time-array", file=MUS,
         old="    if isinstance(time_in_seconds, np.ndarray):\n        return midi_ticks.astype(int)",
         new="    if isinstance(time_in_seconds, np.ndarray) and time_in_seconds.size:\n        return midi_ticks.astype(int)"),
    # a4 was always given
    dict(prop="C12", name="audit-default-a4", file=GLO, old="A4 = 440.0", new="A4 = 442.0"),
    # pitches were always whole numbers
    dict(prop="C12", name="audit-fractional-pitch-floored", file=MUS,
         old="    freq = (a4 / 32) * (2 ** ((midi_pitch - 9) / 12))", new="    freq = (a4 / 32) * (2 ** ((np.floor(midi_pitch) - 9) / 12))"),
    # the current form of the rounding mutation of tools/mutations.py (its pattern predates a repair)
    dict(prop="C12", name="audit-ticks-floor", file=MUS,
         old="    midi_ticks = np.round(\n        1e6 * ppq * np.asarray(time_in_seconds, dtype=float) / mpq\n    )",
         new="    midi_ticks = np.floor(\n        1e6 * ppq * np.asarray(time_in_seconds, dtype=float) / mpq\n    )"),
]
