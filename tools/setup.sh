#!/bin/sh
# Offline setup: make sure hypothesis (and jsonschema) are importable by /venv/bin/python.
/venv/bin/python -c "import hypothesis" 2>/dev/null || \
  /venv/bin/pip install --no-index --find-links /opt/veriftools/wheels hypothesis >/dev/null 2>&1
/venv/bin/python -c "import hypothesis, numpy, scipy, mido, lxml; print('setup ok: hypothesis', hypothesis.__version__)"
