"""usage: python tools/mkreplay.py <Cxx> <sub-check> <file-stem> '<spec json>'  -> replays/Cxx/<file-stem>.json"""
import json, os, sys
prop, sub, stem, spec = sys.argv[1:5]
d = os.path.join(os.path.dirname(os.path.dirname(os.path.abspath(__file__))), "replays", prop)
os.makedirs(d, exist_ok=True)
rec = {"property": prop, "check": sub, "spec": json.loads(spec), "note": sys.argv[5] if len(sys.argv) > 5 else ""}
json.dump(rec, open(os.path.join(d, stem + ".json"), "w"), indent=1, sort_keys=True)
print(os.path.join(d, stem + ".json"))
