"""Developer aid: generate N cases of a sub-check in-process, time generation and oracle, tally discrepancy kinds.
usage: PYTHONPATH=/repo:/verif /venv/bin/python -W ignore tools/profcheck.py Cxx <sub-check> [N] [tier]"""
import sys
import time
import warnings
from collections import Counter

warnings.simplefilter("ignore")
import importlib

from hypothesis import HealthCheck, given, seed, settings

from pbt import core

prop, subname = sys.argv[1], sys.argv[2]
n = int(sys.argv[3]) if len(sys.argv) > 3 else 30
tier = sys.argv[4] if len(sys.argv) > 4 else "quick"
mod = importlib.import_module("pbt.props." + prop.lower())
sub = [s for s in mod.SUBCHECKS if s.name == subname][0]
specs = []


@seed(1)
@settings(max_examples=n, database=None, deadline=None, suppress_health_check=list(HealthCheck))
@given(sub.strategy(tier))
def t(s):
    specs.append(s)


t0 = time.time()
t()
print("generation: %.2fs for %d cases" % (time.time() - t0, len(specs)))
t0 = time.time()
kinds, classes = Counter(), Counter()
first = {}
for s in specs:
    out = core.evaluate(sub, s)
    for d in out.discs:
        kinds[d.kind] += 1
        first.setdefault(d.kind, (s, d))
    for c in set(out.classes):
        classes[c] += 1
print("oracle: %.2fs" % (time.time() - t0))
print("discrepancy kinds:", dict(kinds))
print("classes:", dict(classes))
if "--show" in sys.argv:
    for k, (s, d) in first.items():
        print("==", k, core.dumps(d)[:600])
