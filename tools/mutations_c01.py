"""Deliberate breakages for C01 that only the shapes added by the generator audit (docs/audit/C01.md)
can expose. Same format as tools/mutations.py (the first seven C01 mutations live there)."""

MUTATIONS = [
    # fully removed object keeps its stale start reference: only seen when removed objects stay under observation / are re-added
    dict(prop="C01", name="audit-remove-both-keeps-stale-start", file="partitura/score.py",
         old="            self._cleanup_point(o.start)\n            o.start = None\n",
         new="            self._cleanup_point(o.start)\n            if which != \"both\" or not o.end:\n                o.start = None\n"),
    # a type check that rejects numpy integer times (note_array_to_score passes array scalars)
    dict(prop="C01", name="audit-get-or-add-point-rejects-numpy-int", file="partitura/score.py",
         old="        tp = self.get_point(t)\n        if tp is None:\n            tp = TimePoint(t, int(self._quarter_map(t)))",
         new="        tp = self.get_point(t)\n        if tp is None:\n            if not isinstance(t, int):\n                raise InvalidTimePointException(\"TimePoints should have non-negative integer values\")\n            tp = TimePoint(t, int(self._quarter_map(t)))"),
    # add(o) with neither start nor end must do nothing
    dict(prop="C01", name="audit-add-without-times-registers-at-zero", file="partitura/score.py",
         old="        if start is not None:\n            if start < 0:\n                raise InvalidTimePointException(\n                    \"TimePoints should have non-negative integer values\"\n                )\n            self.get_or_add_point(start).add_starting_object(o)",
         new="        if start is None and end is None:\n            start = 0\n        if start is not None:\n            if start < 0:\n                raise InvalidTimePointException(\n                    \"TimePoints should have non-negative integer values\"\n                )\n            self.get_or_add_point(start).add_starting_object(o)"),
    # interval end given as one of the part's own (linked) time points treated as inclusive
    dict(prop="C01", name="audit-iter_all-own-timepoint-end-inclusive", file="partitura/score.py",
         old="            end_idx = np.searchsorted(self._points, end)\n\n        if cls is None:",
         new="            end_idx = np.searchsorted(self._points, end, side=\"right\" if (end.prev is not None or end.next is not None) else \"left\")\n\n        if cls is None:"),
    # cls=None must search all classes
    dict(prop="C01", name="audit-iter_all-cls-none-forgets-subclasses", file="partitura/score.py",
         old="            cls = object\n            include_subclasses = True\n", new="            cls = object\n"),
    # state that only accumulates in long histories: empty points are no longer cleaned up on a crowded timeline
    dict(prop="C01", name="audit-cleanup-skipped-on-crowded-timeline", file="partitura/score.py",
         old="        ) == 0:\n            self._remove_point(tp)", new="        ) == 0 and len(self._points) < 22:\n            self._remove_point(tp)"),
    # several objects of one class in one (time point, class) bucket: removal must take out the named object, not the newest
    dict(prop="C01", name="audit-orderedset-remove-pops-newest", file="partitura/utils/generic.py",
         old="    def remove(self, x):\n        self.pop(x, None)", new="    def remove(self, x):\n        if x in self:\n            self.popitem()"),
]
