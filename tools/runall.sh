#!/bin/sh
# run one tier of every claimed property (or of the properties named after the tier); print one line per property
# usage: tools/runall.sh [quick|thorough] [Cxx ...]
cd "$(dirname "$0")/.." || exit 2
tier=${1:-quick}
[ $# -gt 0 ] && shift
props="$*"
[ -z "$props" ] && props=$(/venv/bin/python -c "import json;print(' '.join(c['property_id'] for c in json.load(open('MANIFEST.json'))['checks']))")
for p in $props; do
  s=$(date +%s)
  out=$(./check $p $tier 2>&1); rc=$?
  e=$(date +%s)
  echo "$p exit=$rc $((e-s))s $(echo "$out" | grep -c '^VIOLATION') violations $(echo "$out" | grep -c '^KNOWN-FINDING') known $(echo "$out" | grep -c 'HARNESS-ERROR') harness"
  echo "$out" | grep '^VIOLATION\|HARNESS-ERROR' | head -5
done
