#!/bin/sh
# run the quick tier of every claimed property; print one line per property
cd "$(dirname "$0")/.." || exit 2
for p in $(/venv/bin/python -c "import json;print(' '.join(c['property_id'] for c in json.load(open('MANIFEST.json'))['checks']))"); do
  s=$(date +%s)
  out=$(./check $p ${1:-quick} 2>&1); rc=$?
  e=$(date +%s)
  echo "$p exit=$rc $((e-s))s $(echo "$out" | grep -c '^VIOLATION') violations $(echo "$out" | grep -c '^KNOWN-FINDING') known $(echo "$out" | grep -c 'HARNESS-ERROR') harness"
  echo "$out" | grep '^VIOLATION\|HARNESS-ERROR' | head -5
done
