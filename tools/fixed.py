"""Turn the open findings of a property (findings.d/Cxx.txt) into `fixed:` lines after the repair was committed in /repo.
usage: python tools/fixed.py Cxx key=<commit> [key=<commit> ...]   (renames replays finding-<key>.json -> fixed-<key>.json)"""
import os, re, sys
HERE = os.path.dirname(os.path.dirname(os.path.abspath(__file__)))
prop = sys.argv[1]
commits = dict(a.split("=", 1) for a in sys.argv[2:])
frag = os.path.join(HERE, "findings.d", prop + ".txt")
lines = open(frag).read().splitlines()
keep, out = [], []
for line in lines:
    m = re.match(r"finding: property=(\S+) key=(\S+) replay=(\S+) -- (.*)", line)
    if m and m.group(2) in commits:
        key, text = m.group(2), m.group(4)
        old = os.path.join(HERE, "replays", prop, "finding-%s.json" % key)
        new = os.path.join(HERE, "replays", prop, "fixed-%s.json" % key)
        if os.path.exists(old):
            os.rename(old, new)
        out.append("fixed: property=%s %s %s; replay replays/%s/fixed-%s.json" % (prop, commits[key], text, prop, key))
    elif line.strip() and not line.startswith("#"):
        keep.append(line)
with open(os.path.join(HERE, "KNOWN_FINDINGS.txt"), "a") as f:
    for l in out:
        f.write(l + "\n")
if keep:
    open(frag, "w").write("\n".join(keep) + "\n")
else:
    os.remove(frag)
print("fixed: %d, still open: %d" % (len(out), len(keep)))
