"""print violation replays compactly: python tools/showviol.py Cxx"""
import json, sys, glob, os
HERE = os.path.dirname(os.path.dirname(os.path.abspath(__file__)))
def compact(x, depth=0):
    if isinstance(x, dict):
        if "notes" in x and isinstance(x["notes"], list) and len(x["notes"]) > 6 and "--full" not in sys.argv:
            x = dict(x); x["notes"] = "<%d notes>" % len(x["notes"])
        return {k: compact(v, depth + 1) for k, v in x.items()}
    return x
for f in sorted(glob.glob(os.path.join(HERE, "replays", sys.argv[1], "violation-*.json"))):
    r = json.load(open(f))
    print("==", os.path.basename(f), r["bucket"], "check:", r["check"])
    print("  spec:", json.dumps(compact(r["spec"]))[:3000])
    print("  disc:", json.dumps(r["discrepancies"])[:800])
