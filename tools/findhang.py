"""Developer aid: run N generated cases of a sub-check with a per-case watchdog; on a hang print the Python stack and keep the spec in /tmp/hang_spec.json
usage: PYTHONPATH=/repo:/verif /venv/bin/python -W ignore tools/findhang.py Cxx <sub-check> [N] [seconds]"""
import faulthandler, sys, warnings, importlib
warnings.simplefilter("ignore")
from pbt import core
from hypothesis import given, settings, seed, HealthCheck
prop, subname = sys.argv[1], sys.argv[2]
n = int(sys.argv[3]) if len(sys.argv) > 3 else 300
secs = int(sys.argv[4]) if len(sys.argv) > 4 else 15
mod = importlib.import_module("pbt.props." + prop.lower())
sub = [s for s in mod.SUBCHECKS if s.name == subname][0]
specs = []
@seed(1)
@settings(max_examples=n, database=None, deadline=None, suppress_health_check=list(HealthCheck))
@given(sub.strategy("quick"))
def t(s): specs.append(s)
t()
for i, s in enumerate(specs):
    open('/tmp/hang_spec.json', 'w').write(core.dumps(s))
    faulthandler.dump_traceback_later(secs, exit=True)
    core.evaluate(sub, s)
    faulthandler.cancel_dump_traceback_later()
print("no hang in %d cases" % len(specs))
