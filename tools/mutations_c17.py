"""Deliberate breakages for C17 (spelling, voice and key estimation, MIDI score import)."""

PS = "partitura/musicanalysis/pitch_spelling.py"
VS = "partitura/musicanalysis/voice_separation.py"
KI = "partitura/musicanalysis/key_identification.py"
IM = "partitura/io/importmidi.py"

MUTATIONS = [
    # ------------------------------------------------------------ pitch spelling
    dict(prop="C17", name="spelling-octave-boundary-at-D", file=PS,
         old="        asa_octave[morph > 1] += 1", new="        asa_octave[morph > 2] += 1"),
    dict(prop="C17", name="spelling-undisplaced-chroma-of-F", file=PS,
         old="UND_CHROMA = np.array([0, 2, 3, 5, 7, 8, 10], dtype=int)", new="UND_CHROMA = np.array([0, 2, 3, 5, 7, 9, 10], dtype=int)"),
    dict(prop="C17", name="spelling-alter-sign-flipped-for-E", file=PS,
         old="    return step, alter, asa_octave", new="    return step, np.where(morph == 4, -alter, alter), asa_octave"),
    dict(prop="C17", name="spelling-wrong-inverse-permutation", file=PS,
         old="    re_idx = sort_idx.argsort()  # o_idx[sort_idx]", new="    re_idx = sort_idx  # o_idx[sort_idx]"),
    dict(prop="C17", name="spelling-no-pitch-presort", file=PS,
         old='    pitch_sort_idx = note_array["pitch"].argsort()', new='    pitch_sort_idx = np.arange(len(note_array))'),
    dict(prop="C17", name="spelling-upper-morph-octave-candidate", file=PS,
         old="    morph_octs = np.column_stack((morph_oct_1, morph_oct_1 + 1, morph_oct_1 - 1))",
         new="    morph_octs = np.column_stack((morph_oct_1, morph_oct_1 + 2, morph_oct_1 - 1))"),
    # ------------------------------------------------------------ voices
    dict(prop="C17", name="voices-numbered-from-0", file=VS,
         old="    rrvoices = max(rvoices) - rvoices + 1", new="    rrvoices = max(rvoices) - rvoices"),
    dict(prop="C17", name="voices-rename-leaves-gaps", file=VS,
         old="(vmap.setdefault(v, len(vmap) + 1) for v in voices)", new="(vmap.setdefault(v, 2 * len(vmap) + 1) for v in voices)"),
    dict(prop="C17", name="voices-chords-keyed-by-pitch", file=VS,
         old="            note_by_key[(onset, dur)].append(i)", new="            note_by_key[(onset, pitch)].append(i)"),
    dict(prop="C17", name="voices-chord-members-not-assigned", file=VS,
         old="        voices[idx_equivs[idx]] = voice", new="        voices[idx] = voice"),
    # ------------------------------------------------------------ key
    dict(prop="C17", name="key-table-index-off-by-one", file=KI,
         old="        return format_key(*KEYS[corrs.argmax()])", new="        return format_key(*KEYS[corrs.argmax() - 1])"),
    dict(prop="C17", name="key-pitch-class-mod-11", file=KI,
         old='    pitch_classes = np.mod(note_array["pitch"], 12)', new='    pitch_classes = np.mod(note_array["pitch"], 11)'),
    dict(prop="C17", name="key-major-profiles-rotate-backwards", file=KI,
         old="        (circulant(key_prof_maj).transpose(), circulant(key_prof_min).transpose())",
         new="        (circulant(key_prof_maj), circulant(key_prof_min).transpose())"),
    dict(prop="C17", name="key-minor-suffix-on-major", file=KI,
         old='"m" if mode == "minor" else ""', new='"m" if mode == "major" else ""'),
    dict(prop="C17", name="key-ignores-durations", file=KI,
         old="            note_array[duration_unit][np.where(pitch_classes == pc)[0]].sum()",
         new="            float(len(np.where(pitch_classes == pc)[0]))"),
    # ------------------------------------------------------------ MIDI import
    dict(prop="C17", name="import-spellings-misaligned", file=IM,
         old="        part_voice_list, note_list, spelling_global, note_ids\n    ):",
         new="        part_voice_list, note_list, spelling_global[::-1], note_ids\n    ):"),
    dict(prop="C17", name="import-grace-note-loses-alter", file=IM,
         old='                grace_type="appoggiatura",\n                step=step,\n                octave=octave,\n                alter=alter,',
         new='                grace_type="appoggiatura",\n                step=step,\n                octave=octave,\n                alter=0,'),
    dict(prop="C17", name="import-note-hash-collides-across-channels", file=IM,
         old="    return channel * 128 + pitch", new="    return channel * 12 + pitch"),
]

# ---- generator audit (docs/audit/C17.md): breakages only the added shapes expose
MU = "partitura/utils/music.py"
MUTATIONS += [
    # files held nothing but notes and signatures
    dict(prop="C17", name="audit-import-ignored-messages-lose-their-time", file=IM,
         old="            t_raw = t_raw + msg.time\n\n            if msg.type not in relevant:\n                continue\n",
         new="            if msg.type not in relevant:\n                continue\n\n            t_raw = t_raw + msg.time\n"),
    # every note was ended by a note_off message
    dict(prop="C17", name="audit-import-note-on-velocity-0-not-an-off", file=IM,
         old="                elif note_off or (note_on and msg.velocity == 0):", new="                elif note_off:", count=2),  # first occurrence is load_performance_midi
    # the file was always given as a str path
    dict(prop="C17", name="audit-import-midofile-reopened-by-name", file=IM,
         old="        mid = filename\n        doc_name = filename.filename", new="        mid = mido.MidiFile(filename.filename)\n        doc_name = filename.filename", count=2),
    # quantization_unit / assign_note_ids were never given
    dict(prop="C17", name="audit-import-quantizes-delta-time", file=IM,
         old="                t = quantize(t_raw, quantization_unit)", new="                t = quantize(msg.time, quantization_unit)"),
    dict(prop="C17", name="audit-import-without-ids-loses-a-note", file=IM,
         old="        note_ids = [None for i in range(len(note_array))]", new="        note_ids = [None for i in range(len(note_array) - 1)]"),
    # arrays never held score and performance columns together
    dict(prop="C17", name="audit-performance-columns-preferred", file=MU,
         old='    if len(score_units.intersection(fields)) > 0:\n        if "onset_beat" in fields:',
         new='    if len(score_units.intersection(fields)) > 0 and len(performance_units.intersection(fields)) == 0:\n        if "onset_beat" in fields:'),
    # only structured arrays were handed over
    dict(prop="C17", name="audit-spelling-takes-arrays-only", file=PS,
         old="    step, alter, octave = ps(ensure_notearray(note_info), **kwargs)", new="    step, alter, octave = ps(note_info, **kwargs)"),
    dict(prop="C17", name="audit-key-takes-arrays-only", file=KI,
         old="    note_array = ensure_notearray(note_info)\n\n    return kid(", new="    note_array = note_info\n\n    return kid("),
    # the caller's array was never looked at after the call
    dict(prop="C17", name="audit-key-folds-pitches-in-place", file=KI,
         old='    pitch_classes = np.mod(note_array["pitch"], 12)\n',
         new='    note_array["pitch"] %= 12\n    pitch_classes = note_array["pitch"]\n'),
]
