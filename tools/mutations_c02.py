"""Deliberate breakages for C02 that only the shapes added by the generator audit (docs/audit/C02.md)
can expose. Same format as tools/mutations.py (the first seven C02 mutations live there)."""

MUTATIONS = [
    # parts without a measure at the first time point (no measures at all / first measure starts later)
    dict(prop="C02", name="audit-first-measure-lookup-without-default", file="partitura/score.py",
         old="        m1 = next(self.first_point.iter_starting(Measure), None)\n\n        if m1 and m1.start is not None and m1.end is not None:\n            f = interp1d(x, y)",
         new="        m1 = next(self.first_point.iter_starting(Measure))\n\n        if m1 and m1.start is not None and m1.end is not None:\n            f = interp1d(x, y)"),
    dict(prop="C02", name="audit-pickup-taken-from-first-measure-anywhere", file="partitura/score.py",
         old="        m1 = next(self.first_point.iter_starting(Measure), None)\n\n        if m1 and m1.start is not None and m1.end is not None:\n            f = interp1d(x, y)",
         new="        m1 = next(self.iter_all(Measure), None)\n\n        if m1 and m1.start is not None and m1.end is not None:\n            f = interp1d(x, y)"),
    # beat mode histories: user-supplied beats must not survive use_notated_beat() / set_musical_beat_per_ts({})
    dict(prop="C02", name="audit-unspecified-signatures-keep-user-beats", file="partitura/score.py",
         old="            else:  # set to default if not specified\n                if ts.beats in MUSICAL_BEATS:",
         new="            elif ts.musical_beats == ts.beats:  # set to default if not specified\n                if ts.beats in MUSICAL_BEATS:"),
    # setting the numbers per signature must not switch musical beats on
    dict(prop="C02", name="audit-setting-user-beats-enables-musical-mode", file="partitura/score.py",
         old="        # correctly set the musical beat for all time signatures\n",
         new="        self._use_musical_beat = self._use_musical_beat or bool(mbeats_per_ts)\n"),
    # list / tuple arguments (what the note array code passes)
    dict(prop="C02", name="audit-maps-reshape-to-argument-shape", file="partitura/score.py",
         old="        if inv:\n            return interp1d(y, x)\n        else:\n            return interp1d(x, y)",
         new="        f = interp1d(y, x) if inv else interp1d(x, y)\n        return lambda t: f(t) if np.isscalar(t) else f(t).reshape(t.shape)"),
    # a second signature object at the first point
    dict(prop="C02", name="audit-pickup-needs-exactly-one-signature", file="partitura/score.py",
         old="            ts = next(m1.start.iter_starting(TimeSignature), None)\n\n            if ts:\n                normal_dur = ts.beats",
         new="            ts = list(m1.start.iter_starting(TimeSignature))\n            ts = ts[0] if len(ts) == 1 else None\n            if ts:\n                normal_dur = ts.beats"),
    # division entries at / after the last time point
    dict(prop="C02", name="audit-quarter-duration-after-last-point-ignored", file="partitura/score.py",
         old="        i = np.searchsorted(times, t)\n        changed = False\n",
         new="        if self.last_point is not None and t > self.last_point.t:\n            return\n        i = np.searchsorted(times, t)\n        changed = False\n"),
    # the smallest timeline
    dict(prop="C02", name="audit-single-point-part-maps-return-one", file="partitura/score.py",
         old="            return lambda x: np.zeros(np.shape(x))", new="            return lambda x: np.ones(np.shape(x))"),
]
