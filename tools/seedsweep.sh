#!/bin/sh
# re-evaluate every recorded seeded change against the current checks and the current /repo HEAD
# usage: tools/seedsweep.sh [parallel jobs, default 3]   (results: seeded/<label>/meta.json, summary on stdout)
cd "$(dirname "$0")/.." || exit 2
J=${1:-3}
ls seeded | xargs -P "$J" -I{} sh -c 'p=$(echo {} | cut -c1-3); VERIF_SHARDS=${VERIF_SHARDS:-6} /venv/bin/python tools/seedtest.py $p "$PWD/seeded/{}" --name {} --nosuite > /tmp/seedsweep_{}.log 2>&1'
/venv/bin/python - <<'PY'
import json, glob, os
rows = []
for d in sorted(glob.glob("seeded/*")):
    m = json.load(open(os.path.join(d, "meta.json")))
    q = m.get("check_quick", {})
    rows.append((os.path.basename(d), m.get("repo_head"), m.get("patch_applies"), m.get("demo_clean_exit"), m.get("demo_patched_exit"), q.get("caught"), ",".join(q.get("buckets", [])[:3])))
for r in rows:
    print("%-8s head=%s applies=%s demo=%s/%s caught=%s %s" % r)
print("caught: %d of %d" % (sum(1 for r in rows if r[5]), len(rows)))
PY
