"""Deliberate breakages of the unfolding code for the C09 sensitivity experiment (tools/muttest.py C09)."""

MUTATIONS = [
    dict(prop="C09", name="new_part_from_path skips the last segment", file="partitura/score.py",
         old="""    scorevariant = ScoreVariant(part)
    for segment_id in path.path:
        scorevariant.add_segment(
            path.segments[segment_id].start, path.segments[segment_id].end
        )

    new_part = scorevariant.create_variant_part()""",
         new="""    scorevariant = ScoreVariant(part)
    for segment_id in path.path[:-1]:
        scorevariant.add_segment(
            path.segments[segment_id].start, path.segments[segment_id].end
        )

    new_part = scorevariant.create_variant_part()"""),
    dict(prop="C09", name="Repeat objects are copied into the unfolding", file="partitura/score.py",
         old="""                        (
                            Repeat,
                            Ending,""",
         new="""                        (
                            Ending,"""),
    dict(prop="C09", name="DalSegno objects are copied into the unfolding", file="partitura/score.py",
         old="""                            DaCapo,
                            DalSegno,
                            Segment,""",
         new="""                            DaCapo,
                            Segment,"""),
    dict(prop="C09", name="update_ids suffix is always -1", file="partitura/utils/music.py",
         old="""            note.id = f"{note.id}-{i+1}\"""",
         new="""            note.id = f"{note.id}-1\""""),
    dict(prop="C09", name="object end registered without the segment offset", file="partitura/score.py",
         old="""                        tp_end = part.get_or_add_point(min(o.end.t, end.t) + delta)""",
         new="""                        tp_end = part.get_or_add_point(min(o.end.t, end.t) + (delta if delta < 0 else 0))"""),
    dict(prop="C09", name="replace_refs keeps the reference to the original object", file="partitura/utils/generic.py",
         old="""                    if o in o_map:
                        o_new = o_map[o]
                    else:""",
         new="""                    if o in o_map:
                        o_new = o
                    else:"""),
    dict(prop="C09", name="minimal policy takes the first destination", file="partitura/score.py",
         old="""            return [destinations[-1]]""",
         new="""            return [destinations[0]]"""),
    dict(prop="C09", name="destination cycle off by one on the third arrival", file="partitura/score.py",
         old="""            ][last_destination_count - 1]""",
         new="""            ][last_destination_count]"""),
    dict(prop="C09", name="only the first number of a comma-separated ending counts", file="partitura/score.py",
         old="""                            numbers = [str(int(n)) for n in numbers]
                            current_volta_total_number += len(numbers)""",
         new="""                            numbers = [str(int(n)) for n in numbers][:1]
                            current_volta_total_number += len(numbers)"""),
    dict(prop="C09", name="repeat end jumps to the segment after the repeat start", file="partitura/score.py",
         old="""                    repeat_start = boundaries[se][boundary_type].start.t
                    segment_info[ss]["to"].append(segment_info[repeat_start]["ID"])""",
         new="""                    repeat_start = boundaries[se][boundary_type].start.t
                    segment_info[ss]["to"].append(chr(min(ord(segment_info[repeat_start]["ID"]) + 1, ord(segment_info[ss]["ID"]))))"""),
    dict(prop="C09", name="segment offsets not accumulated (every segment copied to its old place)", file="partitura/score.py",
         old="""        self.t_unfold += end.t - start.t""",
         new="""        self.t_unfold = end.t"""),
    dict(prop="C09", name="division entries of a segment are not copied", file="partitura/score.py",
         old="""            for t, quarter in qd:
                part.set_quarter_duration(t + delta, quarter)""",
         new="""            for t, quarter in qd[:1]:
                part.set_quarter_duration(t + delta, quarter)"""),
    dict(prop="C09", name="iter_unfolded_parts drops the last variant", file="partitura/score.py",
         old="""    for p in paths:
        yield new_part_from_path(p, part, update_ids=update_ids)""",
         new="""    for p in paths[:-1] or paths:
        yield new_part_from_path(p, part, update_ids=update_ids)"""),
    dict(prop="C09", name="notes starting at the segment start are copied twice on a revisit", file="partitura/score.py",
         old="""                    # make a copy of the object
                    o_copy = copy(o)""",
         new="""                    # make a copy of the object
                    o_copy = copy(o)
                    if isinstance(o, Rest) and offset > 0 and tp is start:
                        continue"""),
    dict(prop="C09", name="tie_next of a copy is not remapped", file="partitura/score.py",
         old="""                "tie_prev",
                "tie_next",
                "slur_stops",""",
         new="""                "tie_prev",
                "slur_stops","""),
    dict(prop="C09", name="da capo jumps to the second segment", file="partitura/score.py",
         old="""                    "Navigation1_" + segment_info[part.first_point.t]["ID"]""",
         new="""                    "Navigation1_" + segment_info[boundary_times[min(1, len(boundary_times) - 2)]]["ID"]"""),
    dict(prop="C09", name="Score argument: update_ids forced on", file="partitura/score.py",
         old="""            unfolded_part = unfold_part_maximal(
                score, update_ids=update_ids, ignore_leaps=ignore_leaps
            )""",
         new="""            unfolded_part = unfold_part_maximal(
                score, update_ids=True, ignore_leaps=ignore_leaps
            )"""),
    dict(prop="C09", name="Score argument of unfold_part_minimal is not copied", file="partitura/score.py",
         old="""        unfolded_score = deepcopy(score)""",
         new="""        unfolded_score = score"""),
]

# ---- generator audit (docs/audit/C09.md): one breakage per widened dimension, exposed by the new shape only
MUTATIONS += [
    dict(prop="C09", name="audit: Score argument, only the first part is unfolded", file="partitura/score.py",
         old="""        for score in new_score.parts:""", new="""        for score in new_score.parts[:1]:"""),
    dict(prop="C09", name="audit: unfold_part_alignment takes the variant that covers the alignment least", file="partitura/score.py",
         old="""    best_idx = np.where(coverage == coverage.max())[0]""", new="""    best_idx = np.where(coverage == coverage.min())[0]"""),
    dict(prop="C09", name="audit: all_repeats wins over no_repeats when both are given", file="partitura/score.py",
         old="""        if self.no_repeats:\n            # currently this is in higher priority than the full sequence""",
         new="""        if self.no_repeats and not self.all_repeats:\n            # currently this is in higher priority than the full sequence"""),
    dict(prop="C09", name="audit: segment ids run through the 26 letters only", file="partitura/score.py",
         old="""            "ID": chr(init_character + i),""", new="""            "ID": chr(init_character + i % 26),"""),
    dict(prop="C09", name="audit: unpitched notes are not copied into the unfolding", file="partitura/score.py",
         old="""                            System,\n                            Page,\n                        ),""",
         new="""                            System,\n                            Page,\n                            UnpitchedNote,\n                        ),"""),
    dict(prop="C09", name="audit: only slurs and tuplets are cut at the segment end", file="partitura/score.py",
         old="""                        tp_end = part.get_or_add_point(min(o.end.t, end.t) + delta)""",
         new="""                        tp_end = part.get_or_add_point((min(o.end.t, end.t) if isinstance(o, (Slur, Tuplet)) else o.end.t) + delta)"""),
]
