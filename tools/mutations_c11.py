"""Deliberate breakages behind C11 (add_measures, tie_notes, estimator, tie splitting, fill_rests, sanitize_part)."""

MUTATIONS = [
    # ---- add_measures
    dict(prop="C11", name="add_measures-ignore-signature-cut", file="partitura/score.py",
         old="            measure_end = min(ts_end, int(np.round(inv_beat_map(measure_end_beats))))\n",
         new="            measure_end = int(np.round(inv_beat_map(measure_end_beats)))\n"),
    dict(prop="C11", name="add_measures-filler-number-skips", file="partitura/score.py",
         old="                existing_measure.number = mcounter + 1\n                mcounter = mcounter + 2\n",
         new="                existing_measure.number = mcounter + 1\n                mcounter = mcounter + 1\n"),
    dict(prop="C11", name="add_measures-filler-runs-to-existing-end", file="partitura/score.py",
         old="                    measure_end = existing_measure.start.t\n",
         new="                    measure_end = existing_measure.end.t\n"),
    dict(prop="C11", name="add_measures-beats-from-first-signature", file="partitura/score.py",
         old="        ts_start_times, ts_end_times, beats_per_measure\n    ):\n        # an existing measure may reach beyond the signature change\n        pos = max(pos, ts_start)\n",
         new="        ts_start_times, ts_end_times, beats_per_measure\n    ):\n        measure_dur = beats_per_measure[0]\n        pos = max(pos, ts_start)\n"),
    # ---- tie_notes
    dict(prop="C11", name="tie_notes-first-piece-symbolic-from-whole-note", file="partitura/score.py",
         old="                next_measure.start.t - cur_note.start.t, cur_note.start.quarter\n",
         new="                note_end.t - cur_note.start.t, cur_note.start.quarter\n"),
    dict(prop="C11", name="tie_notes-no-back-link", file="partitura/score.py",
         old="            cur_note.tie_next = next_note\n            next_note.tie_prev = cur_note\n\n            cur_note = next_note\n\n            next_measure",
         new="            cur_note.tie_next = next_note\n\n            cur_note = next_note\n\n            next_measure"),
    dict(prop="C11", name="tie_notes-new-note-loses-staff", file="partitura/score.py",
         old="                    voice=note.voice,\n                    staff=note.staff,\n                    symbolic_duration=sym_dur,\n",
         new="                    voice=note.voice,\n                    staff=None,\n                    symbolic_duration=sym_dur,\n"),
    dict(prop="C11", name="tie_notes-new-note-alter-dropped", file="partitura/score.py",
         old="                    note.step,\n                    note.octave,\n                    note.alter,\n                    id=note_id,\n                    voice=note.voice,\n                    staff=note.staff,\n                    symbolic_duration=sym_dur,",
         new="                    note.step,\n                    note.octave,\n                    None,\n                    id=note_id,\n                    voice=note.voice,\n                    staff=note.staff,\n                    symbolic_duration=sym_dur,"),
    # ---- estimator and tables
    dict(prop="C11", name="sym-durs-16th-one-dot-too-many", file="partitura/utils/globals.py",
         old='    {"type": "16th", "dots": 1},\n    {"type": "16th", "dots": 2},\n    {"type": "16th", "dots": 3},\n    {"type": "eighth", "dots": 0},\n    {"type": "e", "dots": 0},',
         new='    {"type": "16th", "dots": 2},\n    {"type": "16th", "dots": 2},\n    {"type": "16th", "dots": 3},\n    {"type": "eighth", "dots": 0},\n    {"type": "e", "dots": 0},'),
    dict(prop="C11", name="estimate-tolerance-tenfold", file="partitura/utils/music.py",
         old="    if np.abs(qdur - DURS[i]) < eps:\n        return SYM_DURS[i].copy()",
         new="    if np.abs(qdur - DURS[i]) < 10 * eps:\n        return SYM_DURS[i].copy()"),
    dict(prop="C11", name="symbolic_to_numeric-ratio-inverted", file="partitura/utils/music.py",
         old='    numdur *= (symbolic_dur.get("normal_notes") or 1) / (\n        symbolic_dur.get("actual_notes") or 1\n    )',
         new='    numdur *= (symbolic_dur.get("actual_notes") or 1) / (\n        symbolic_dur.get("normal_notes") or 1\n    )'),
    dict(prop="C11", name="estimate-tuplet-type-one-level-down", file="partitura/utils/music.py",
         old='            type = SYM_STRAIGHT_DURS[i + 1]["type"]\n',
         new='            type = SYM_STRAIGHT_DURS[i]["type"]\n'),
    # ---- tie splitting
    dict(prop="C11", name="order_splits-drops-last-candidate", file="partitura/utils/music.py",
         old="        b = b * 2\n        splits = np.arange((b * 2) * (1 + (start + b) // (b * 2)), end + b, b * 2) - b\n",
         new="        b = b * 2\n        splits = np.arange((b * 2) * (1 + (start + b) // (b * 2)), end, b * 2) - b\n"),
    dict(prop="C11", name="find_tie_split-one-split-too-many", file="partitura/utils/music.py",
         old="        if len(state) >= max_splits:\n", new="        if len(state) > max_splits:\n"),
    dict(prop="C11", name="find_tie_split-any-piece-suffices", file="partitura/utils/music.py",
         old="        return all(\n            estimate_symbolic_duration(right - left, divs)\n            for left, right in iter_current_next([start] + state + [end])",
         new="        return any(\n            estimate_symbolic_duration(right - left, divs)\n            for left, right in iter_current_next([start] + state + [end])"),
    # ---- fill_rests (second, effective definition)
    dict(prop="C11", name="fill_rests-global-trailing-rest-from-note-start", file="partitura/score.py",
         old="            sym_dur = estimate_symbolic_duration(\n                end_time - min_end_note.end.t,\n                int(part.quarter_duration_map(min_end_note.end.t)),\n            )",
         new="            sym_dur = estimate_symbolic_duration(\n                end_time - min_end_note.start.t,\n                int(part.quarter_duration_map(min_end_note.end.t)),\n            )"),
    dict(prop="C11", name="fill_rests-measurewise-leading-rest-to-note-end", file="partitura/score.py",
         old="                part.add(rest, start_time, min_start_note.start.t)\n\n        # get note with max end.t and fill the rest after it if needed",
         new="                part.add(rest, start_time, min_start_note.end.t)\n\n        # get note with max end.t and fill the rest after it if needed"),
    # ---- sanitize_part
    dict(prop="C11", name="sanitize-removes-exact-ties", file="partitura/score.py",
         old="            if abs((e - s) - d) > tie_tolerance:", new="            if abs((e - s) - d) >= tie_tolerance:"),
    dict(prop="C11", name="sanitize-keeps-half-open-tuplets", file="partitura/score.py",
         old="        if tp.end_note is None or tp.start_note is None:", new="        if tp.end_note is None and tp.start_note is None:"),
    dict(prop="C11", name="sanitize-removes-every-grace-note", file="partitura/score.py",
         old="        if gn.main_note is None:\n            elements_to_remove.append(gn)", new="        if True:\n            elements_to_remove.append(gn)"),
    # ---- documented as unreachable (see ASSUMPTIONS): expected MISSED, kept as evidence that find_tuplets is dead code
    dict(prop="C11", name="UNREACHABLE-find_tuplets-normal-notes-3", file="partitura/score.py",
         old="    # only look for x:2 tuplets\n    normal_notes = 2\n", new="    # only look for x:2 tuplets\n    normal_notes = 3\n"),
    # ---- added by the generator audit (docs/audit/C11.md): only the widened shapes expose these
    # existing measures without a number (constructor default) must be numbered too
    dict(prop="C11", name="audit-add-measures-skips-unnumbered-existing-measure", file="partitura/score.py",
         old="                    pos = existing_measure.end.t\n                    existing_measure.number = mcounter\n",
         new="                    pos = existing_measure.end.t\n                    if existing_measure.number is not None:\n                        existing_measure.number = mcounter\n"),
    # user-supplied musical beats
    dict(prop="C11", name="audit-add-measures-default-musical-beats", file="partitura/score.py",
         old="            (ts.start.t, ts.musical_beats if part._use_musical_beat else ts.beats)\n            for ts in part.iter_all(TimeSignature)",
         new="            (ts.start.t, MUSICAL_BEATS.get(ts.beats, ts.beats) if part._use_musical_beat else ts.beats)\n            for ts in part.iter_all(TimeSignature)"),
    # fill_rests given a Score
    dict(prop="C11", name="audit-fill-rests-score-not-unpacked", file="partitura/score.py",
         old="    if isinstance(score_data, Score):\n        partlist = score_data.parts\n    else:\n        # a Part, a PartGroup or a list of these\n        partlist = list(iter_parts(score_data))\n    for part in partlist:\n        measures = part.measures",
         new="    partlist = [score_data]\n    for part in partlist:\n        measures = part.measures"),
    # sanitize_part(part, tie_tolerance > 0) must leave contiguous tie chains alone
    dict(prop="C11", name="audit-sanitize-tie-tolerance-inverted", file="partitura/score.py",
         old="            if abs((e - s) - d) > tie_tolerance:", new="            if abs((e - s) - d) < tie_tolerance:"),
    # estimate_symbolic_duration(..., return_com_durations=True)
    dict(prop="C11", name="audit-composite-durations-neighbouring-entry", file="partitura/utils/music.py",
         old="                return copy.copy(SYM_COMPOSITE_DURS[j])", new="                return copy.copy(SYM_COMPOSITE_DURS[j - 1])"),
    # numpy integer durations (note arrays)
    dict(prop="C11", name="audit-estimate-integer-division-for-numpy-ints", file="partitura/utils/music.py",
         old="    global DURS, SYM_DURS\n    qdur = dur / div\n", new="    global DURS, SYM_DURS\n    qdur = dur // div if isinstance(dur, np.integer) else dur / div\n"),
    # durations that need three tied values
    dict(prop="C11", name="audit-tie-split-at-most-one-split", file="partitura/utils/music.py",
         old="        if len(state) >= max_splits:\n            return []", new="        if len(state) >= min(max_splits, 1):\n            return []"),
    dict(prop="C11", name="audit-tie-split-at-most-two-splits", file="partitura/utils/music.py",
         old="        if len(state) >= max_splits:\n            return []", new="        if len(state) >= min(max_splits, 2):\n            return []"),
    # round-4 seed: a note held across a bar line on which the divisions change
    dict(prop="C11", name="r4-tie-notes-tail-piece-with-divisions-of-the-head", file="partitura/score.py",
         old="                note_end.t - next_measure.start.t, next_measure.start.quarter\n", new="                note_end.t - next_measure.start.t, cur_note.start.quarter\n"),
]
