"""Apply selected hunks of a unified diff to /repo and commit them.
usage: python tools/splitdiff.py <diff> "<commit message>" file:hunkno[,hunkno] [file:hunkno ...]
(hunk numbers are 1-based per file; file is matched by suffix)"""
import re, subprocess, sys, tempfile, os
diff, msg, sel = sys.argv[1], sys.argv[2], sys.argv[3:]
text = open(diff).read()
files = []  # (header lines, path, [hunks])
cur = None
for line in text.splitlines(keepends=True):
    if line.startswith("diff "):
        continue
    if line.startswith("--- "):
        cur = {"hdr": [line], "path": None, "hunks": []}
        files.append(cur)
    elif line.startswith("+++ "):
        cur["hdr"].append(line)
        cur["path"] = re.split(r"\s+", line[4:].strip())[0]
    elif line.startswith("@@"):
        cur["hunks"].append([line])
    elif cur is not None and cur["hunks"]:
        cur["hunks"][-1].append(line)
out = []
for s in sel:
    suffix, nums = s.rsplit(":", 1)
    f = [f for f in files if f["path"].endswith(suffix)]
    assert len(f) == 1, (suffix, [x["path"] for x in files])
    f = f[0]
    out += f["hdr"]
    for n in nums.split(","):
        out += f["hunks"][int(n) - 1]
with tempfile.NamedTemporaryFile("w", suffix=".diff", delete=False) as t:
    t.write("".join(out))
r = subprocess.run(["patch", "-p1", "-d", "/repo", "--no-backup-if-mismatch", "-i", t.name], capture_output=True, text=True)
os.unlink(t.name)
if r.returncode:
    print(r.stdout, r.stderr); sys.exit(1)
subprocess.check_call(["git", "-C", "/repo", "commit", "-qam", msg])
print(subprocess.check_output(["git", "-C", "/repo", "log", "--format=%h %s", "-1"], text=True).strip())
