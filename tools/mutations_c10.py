"""Deliberate breakages for C10 that only the shapes added by the generator audit (docs/audit/C10.md)
can expose. Same format as tools/mutations.py (the first eight C10 mutations live there)."""

MUTATIONS = [
    # clef without <clef-octave-change> (octave_change None)
    dict(prop="C10", name="audit-clef-octave-change-none-not-mapped", file="partitura/score.py",
         old="                    c.octave_change if c.octave_change is not None else 0,\n                )\n                for c in self.iter_all(Clef)",
         new="                    c.octave_change,\n                )\n                for c in self.iter_all(Clef)"),
    # the clef signs 'jianpu' / 'none'
    dict(prop="C10", name="audit-clef-sign-jianpu-code", file="partitura/utils/globals.py",
         old='    "jianpu": 5,\n    "none": 6,\n}', new='    "jianpu": 4,\n    "none": 6,\n}'),
    # other documented spellings of the key mode
    dict(prop="C10", name="audit-key-mode-string-none-rejected", file="partitura/utils/music.py",
         old='        return -1\n    elif mode in ("major", None, "none", 1):\n        return 1', new='        return -1\n    elif mode in ("major", None, 1):\n        return 1'),
    dict(prop="C10", name="audit-key-mode-minus-one-as-major", file="partitura/utils/music.py",
         old='    if mode in ("minor", -1):\n        return -1\n    elif mode in ("major", None, "none", 1):', new='    if mode in ("minor",):\n        return -1\n    elif mode in ("major", None, "none", 1, -1):'),
    # user-supplied musical beats in the third column of the time signature map
    dict(prop="C10", name="audit-ts-map-default-musical-beats", file="partitura/score.py",
         old="                (ts.start.t, ts.beats, ts.beat_type, ts.musical_beats)\n                for ts in self.iter_all(TimeSignature)",
         new="                (ts.start.t, ts.beats, ts.beat_type, MUSICAL_BEATS.get(ts.beats, ts.beats))\n                for ts in self.iter_all(TimeSignature)"),
    # list arguments
    dict(prop="C10", name="audit-metrical-position-list-argument-as-scalar", file="partitura/score.py",
         old="                if isinstance(input, Iterable):\n                    return np.column_stack(", new="                if isinstance(input, np.ndarray):\n                    return np.column_stack("),
    dict(prop="C10", name="audit-clef-map-list-argument-first-element", file="partitura/score.py",
         old="                [interpolator(time) for interpolator in interpolators], dtype=int", new="                [interpolator(time[0] if isinstance(time, list) else time) for interpolator in interpolators], dtype=int"),
    # measure maps of parts without a time signature (at position 0): the later measures are judged now
    dict(prop="C10", name="audit-measure-number-map-needs-a-time-signature", file="partitura/score.py",
         old="        beats, beat_type = self.time_signature_map(measures[0][0])[:2]\n        full_bar = beats * (4 / beat_type) * self.quarter_duration_map(measures[0][0])\n        if measures[0][1] - measures[0][0] < full_bar:\n            measures[0][0] = measures[0][1] - full_bar\n\n        if len(measures) == 0:  # no measures in the piece\n            # default only one measure spanning the entire timeline\n            warnings.warn(\"No measures found, assuming only one measure\")\n            if self.first_point is None:\n                t0, tN = 0, 0\n            else:\n                t0 = self.first_point.t\n                tN = self.last_point.t\n\n            measures = np.array([(t0, tN, 1)])",
         new="        ts0 = next(self.first_point.iter_starting(TimeSignature))\n        beats, beat_type = ts0.beats, ts0.beat_type\n        full_bar = beats * (4 / beat_type) * self.quarter_duration_map(measures[0][0])\n        if measures[0][1] - measures[0][0] < full_bar:\n            measures[0][0] = measures[0][1] - full_bar\n\n        if len(measures) == 0:  # no measures in the piece\n            # default only one measure spanning the entire timeline\n            warnings.warn(\"No measures found, assuming only one measure\")\n            if self.first_point is None:\n                t0, tN = 0, 0\n            else:\n                t0 = self.first_point.t\n                tN = self.last_point.t\n\n            measures = np.array([(t0, tN, 1)])"),
    # agreement of the note-array columns with the maps
    dict(prop="C10", name="audit-note-array-time-signature-at-offset", file="partitura/utils/music.py",
         old="            beats, beat_type, mus_beats = time_signature_map(note.start.t)\n\n            note_info += (beats, beat_type, mus_beats)\n\n        if metrical_position_map is not None:\n            rel_onset_div, tot_measure_div = metrical_position_map(note.start.t)\n\n            is_downbeat = 1 if rel_onset_div == 0 else 0",
         new="            beats, beat_type, mus_beats = time_signature_map(note.end.t)\n\n            note_info += (beats, beat_type, mus_beats)\n\n        if metrical_position_map is not None:\n            rel_onset_div, tot_measure_div = metrical_position_map(note.start.t)\n\n            is_downbeat = 1 if rel_onset_div == 0 else 0"),
]
