"""Sensitivity experiments: apply each deliberate breakage from tools/mutations.py to a scratch
worktree of /repo (under /tmp, removed afterwards), run the property's quick check against it and
report caught / missed. Nothing is written to /repo or to /verif/evidence.

usage: /venv/bin/python tools/muttest.py [Cxx ...] [--name substr] [--suite] [--fast]
"""
import json, os, shutil, subprocess, sys, time
HERE = os.path.dirname(os.path.dirname(os.path.abspath(__file__)))
sys.path.insert(0, HERE)
from tools.mutations import MUTATIONS
import glob, importlib
for _f in sorted(glob.glob(os.path.join(HERE, "tools", "mutations_c*.py"))):
    MUTATIONS = MUTATIONS + importlib.import_module("tools." + os.path.basename(_f)[:-3]).MUTATIONS

WT = "/tmp/partitura_mut_wt_%d" % os.getpid()
SCR = "/tmp/partitura_mut_scratch_%d" % os.getpid()

def sh(*a, **k):
    return subprocess.run(a, stdout=subprocess.PIPE, stderr=subprocess.STDOUT, text=True, **k)

def main():
    args = [a for a in sys.argv[1:] if not a.startswith("--")]
    name = None
    if "--name" in sys.argv:
        name = sys.argv[sys.argv.index("--name") + 1]
        args = [a for a in args if a != name]
    suite = "--suite" in sys.argv
    sh("git", "-C", "/repo", "worktree", "remove", "--force", WT)
    shutil.rmtree(WT, ignore_errors=True)
    r = sh("git", "-C", "/repo", "worktree", "add", "--detach", WT, "HEAD")
    if r.returncode:
        print(r.stdout); return 2
    results = []
    try:
        for m in MUTATIONS:
            if args and m["prop"] not in args:
                continue
            if name and name not in m["name"]:
                continue
            path = os.path.join(WT, m["file"])
            src = open(path).read()
            if src.count(m["old"]) < 1:
                print("!! %s %s: pattern not found" % (m["prop"], m["name"])); results.append((m, "pattern-missing", 0)); continue
            open(path, "w").write(src.replace(m["old"], m["new"], m.get("count", 1)))
            shutil.rmtree(SCR, ignore_errors=True)
            env = dict(os.environ, VERIF_REPO=WT, VERIF_SCRATCH=SCR)
            if "--fast" in sys.argv:
                env["VERIF_SHRINK_CAP"] = "1"  # caught / missed is all that is asked
            t0 = time.time()
            cmd = [os.path.join(HERE, "check"), m["prop"], "quick"] + m.get("subs", [])
            r = subprocess.run(cmd, env=env, stdout=subprocess.PIPE, stderr=subprocess.STDOUT, text=True)
            dt = time.time() - t0
            viol = [l for l in r.stdout.splitlines() if l.startswith("VIOLATION")]
            status = "CAUGHT" if (r.returncode == 1 and viol) else ("HARNESS-ERROR(exit %d)" % r.returncode if r.returncode else "MISSED")
            suite_res = ""
            if suite:
                rs = sh("/venv/bin/python", "-m", "pytest", "-q", "-x", "-p", "no:cacheprovider", "-n", "8", "tests", cwd=WT,
                        env=dict(os.environ, PYTHONPATH=WT))
                suite_res = " suite:" + (rs.stdout.strip().splitlines() or ["?"])[-1][:80]
            print("%-4s %-44s %-8s %5.1fs %s%s" % (m["prop"], m["name"], status, dt, "; ".join(v.split("[")[-1].rstrip("]") for v in viol)[:150], suite_res))
            sys.stdout.flush()
            results.append((m, status, dt))
            open(path, "w").write(src)
    finally:
        sh("git", "-C", "/repo", "worktree", "remove", "--force", WT)
        shutil.rmtree(WT, ignore_errors=True)
        if "--keep" not in sys.argv:
            shutil.rmtree(SCR, ignore_errors=True)
        else:
            print("scratch kept:", SCR)
    missed = [m["name"] for m, s, _ in results if s != "CAUGHT"]
    print("caught %d / %d" % (len(results) - len(missed), len(results)), "missed:", missed)

if __name__ == "__main__":
    main()
