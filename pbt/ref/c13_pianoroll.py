"""Independent reference for C13: a tiny piano-roll rasteriser and run-length decoder.

Everything is exact arithmetic on ``fractions.Fraction`` and Python ints; nothing
from partitura is imported.

Rounding rule (derived from ``_make_pianoroll`` and stated in the evidence):

* the time origin ``t0`` is the smallest onset when silence is removed, otherwise
  ``min(0, smallest onset)``;
* a note starts in frame ``round(time_div * (onset - t0))`` (nearest frame) and
  lasts ``max(1, round(time_div * duration))`` frames (nearest count, at least one);
* the generators only produce values for which neither rounding is an exact .5 tie;
  ``nearest`` still reports a tie so that the oracle can refuse to judge it.
"""

from fractions import Fraction


def nearest(x):
    """(nearest integer, is_exact_half_tie) of a Fraction."""
    x = Fraction(x)
    fl = x.numerator // x.denominator
    rest = x - fl
    if rest == Fraction(1, 2):
        return fl, True
    return (fl + 1 if rest > Fraction(1, 2) else fl), False


def origin(onsets, remove_silence):
    lo = min(onsets)
    if remove_silence:
        return lo
    return lo if lo < 0 else Fraction(0)


def extents(notes, td, t0):
    """Per note (first frame, number of frames) without any margin; and tie flag.

    notes: list of (pitch, onset Fraction, duration Fraction, velocity int)."""
    out = []
    tie = False
    for (_p, on, du, _v) in notes:
        f, t1 = nearest(td * (Fraction(on) - t0))
        n, t2 = nearest(td * Fraction(du))
        tie = tie or t1 or t2
        out.append((f, max(1, n)))
    return out, tie


def cells_of(first, count, onset_only, note_separation):
    """Half-open frame interval [a, b) a note occupies under the mode."""
    if onset_only:
        return first, first + 1
    b = first + count
    if note_separation:
        b = max(first + 1, b - 1)
    return first, b


def rasterise(notes, ext, lead, onset_only, note_separation, use_velocity, binary):
    """dict (pitch, column) -> value, and list of per-note (a, b) column intervals.

    ``lead`` = number of empty leading columns (time margin in frames)."""
    grid = {}
    spans = []
    for (p, _on, _du, v), (f, n) in zip(notes, ext):
        a, b = cells_of(f + lead, n, onset_only, note_separation)
        spans.append((a, b))
        val = v if (use_velocity and not binary) else 1
        for j in range(a, b):
            key = (p, j)
            if key not in grid or grid[key] < val:
                grid[key] = val
    return grid, spans


def fold12(grid):
    """Octave fold of a {(pitch, col): value} grid: {(pitch class, col): summed value}."""
    out = {}
    for (p, j), v in grid.items():
        out[(p % 12, j)] = out.get((p % 12, j), 0) + v
    return out


def decode(rows):
    """Run-length decoding of an integer roll given as list of rows (lists of ints).

    A note is a maximal horizontal run of one equal non-zero value.
    Returns sorted list of (first column, row index, length, value)."""
    notes = []
    for r, row in enumerate(rows):
        j = 0
        n = len(row)
        while j < n:
            v = row[j]
            if v == 0:
                j += 1
                continue
            k = j
            while k < n and row[k] == v:
                k += 1
            notes.append((j, r, k - j, v))
            j = k
    notes.sort()
    return notes
