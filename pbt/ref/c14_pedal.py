"""Independent reference model of the sustain pedal for C14.

Everything here is plain Python over exact rationals (``Fraction``); nothing is
imported from partitura.  The model answers, for one note, *which sounding ends
are acceptable* under the property statement:

* the pedal is *down* while the value of the latest pedal (controller 64) event
  is strictly above the threshold, *up* before the first event;
* a note released while the pedal is up stops at its release;
* a note released while the pedal is down sounds until the first later moment
  at which the pedal is up again or another note of the same pitch is struck.

Two details are deliberately left open by the property (DESIGN.md section 6):
whether a pedal event exactly at the release time already counts at the release
("inclusive") or not ("strict"), and whether a same-pitch onset exactly at the
release counts as "struck again".  The model evaluates every combination of the
two readings and returns the set of results; it also says whether the answer is
determined at all (no later pedal-up and no re-strike: only ``>= release``).
"""

from fractions import Fraction

PEDAL = 64


def pedal_events(controls):
    """[(time, value)] of the sustain-pedal events, in time order (stable)."""
    ev = [(c["time"], c["value"]) for c in controls if c["number"] == PEDAL]
    return sorted(ev, key=lambda e: e[0])


def has_duplicate_times(events):
    ts = [t for t, _ in events]
    return len(set(ts)) != len(ts)


def _down_at(events, thr, r, inclusive):
    """Pedal state at the release r under one reading of 'at the release'."""
    state = False
    for t, v in events:
        if t < r or (inclusive and t == r):
            state = v > thr
        else:
            break
    return state


def _next_up(events, thr, r, inclusive):
    """First event time after the release (>= r for the strict reading, > r for the
    inclusive one) whose value is at or below the threshold, else None."""
    for t, v in events:
        if (t > r or (not inclusive and t == r)) and v <= thr:
            return t
    return None


def _restrike(notes, i, r, at_release_counts):
    """Earliest onset of *another* note of the same pitch at/after the release."""
    best = None
    p = notes[i]["pitch"]
    for j, n in enumerate(notes):
        if j == i or n["pitch"] != p:
            continue
        on = n["on"]
        if on > r or (at_release_counts and on == r):
            if best is None or on < best:
                best = on
    return best


def clipped_by_overlap(notes, i):
    """True if another note of the same pitch starts in [onset_i, release_i):
    the situation of overlapping equal pitches (a later or simultaneous strike
    while note i is still held)."""
    n = notes[i]
    for j, m in enumerate(notes):
        if j != i and m["pitch"] == n["pitch"] and n["on"] <= m["on"] < n["off"]:
            return True
    return False


def any_overlap(notes):
    return any(clipped_by_overlap(notes, i) for i in range(len(notes)))


def expected(notes, controls, thr):
    """Per note: dict(release, accept=set of Fractions or None, extended, at_release, reason).

    notes: list of dict(pitch, on, off) with Fraction times; controls: list of
    dict(number, time, value).  ``accept is None`` means only the weak claim
    ``sound_off >= release`` is made (see module docstring); ``extended`` tells
    whether *every* reading prolongs the note beyond its release.
    """
    ev = pedal_events(controls)
    dup = has_duplicate_times(ev)
    out = []
    for i, n in enumerate(notes):
        r = n["off"]
        if not ev:
            out.append(dict(release=r, accept={r}, extended=False, at_release=False, reason="no-pedal-events"))
            continue
        if thr >= 127 and all(v <= 127 for _, v in ev):
            out.append(dict(release=r, accept={r}, extended=False, at_release=False, reason="threshold-127"))
            continue
        if dup:
            out.append(dict(release=r, accept=None, extended=False, at_release=False, reason="duplicate-pedal-times"))
            continue
        at_rel = any(t == r for t, _ in ev) or any(
            j != i and m["pitch"] == n["pitch"] and m["on"] == r for j, m in enumerate(notes))
        acc = set()
        undetermined = False
        for inclusive in (False, True):
            if not _down_at(ev, thr, r, inclusive):
                acc.add(r)
                continue
            up = _next_up(ev, thr, r, inclusive)
            for counts in (True, False):
                rs = _restrike(notes, i, r, counts)
                cands = [x for x in (up, rs) if x is not None]
                if cands:
                    acc.add(min(cands))
                else:
                    undetermined = True
        if undetermined:
            # the pedal is never seen up again and the pitch is never struck again:
            # the statement fixes no value; with several readings keep the weak claim only
            out.append(dict(release=r, accept=None, extended=False, at_release=at_rel, reason="pedal-never-released"))
            continue
        out.append(dict(release=r, accept=acc, extended=all(a > r for a in acc), at_release=at_rel,
                        reason="pedal-up-at-release" if acc == {r} and not at_rel else "pedal-down-at-release"))
    return out


def tick_candidates(t, ppq, mpq):
    """Acceptable integer ticks for time t (Fraction seconds): round(1e6*ppq*t/mpq);
    both neighbours when the exact value is within 1e-6 of a .5 tie."""
    x = Fraction(t) * 1000000 * ppq / mpq
    fl = x.numerator // x.denominator
    frac = x - fl
    half = Fraction(1, 2)
    eps = Fraction(1, 10 ** 6)
    if abs(frac - half) <= eps:
        return {fl, fl + 1}
    return {fl if frac < half else fl + 1}
