"""Independent reading of a standard MIDI file for property C06.

Built only on iterating the messages mido parsed (``MidiFile.tracks``) and on
integer / Fraction arithmetic.  Nothing of partitura is imported here.

Semantics implemented (the ones the property states):

* every message sits at the absolute tick = sum of the delta times before it
  (per track; for a merged reading all tracks are interleaved by absolute tick,
  ties broken by track index and then position, ``end_of_track`` dropped);
* the tempo map is the list of *all* ``set_tempo`` events of *all* tracks sorted
  by tick; before the first one the default tempo holds; a tempo at tick c is in
  force for ticks >= c; seconds(tick) = sum over segments of
  ticks_in_segment * mpq / (10^6 * ppq)  (exact Fractions);
* a note-on with velocity > 0 is paired with the next note-off or zero-velocity
  note-on of the same channel and pitch in the same (possibly merged) track;
* everything outside the property's domain is *reported*, not interpreted:
  a note-on while the same (channel, pitch) is sounding, an off without on, an on
  that is never closed.
"""

from fractions import Fraction

MILLION = 10 ** 6


def absolute_tracks(mid):
    """[[(abs_tick, position, msg), ...] per track] from delta times."""
    out = []
    for track in mid.tracks:
        t = 0
        evs = []
        for pos, msg in enumerate(track):
            t += int(msg.time)
            evs.append((t, pos, msg))
        out.append(evs)
    return out


def tempo_map(abs_tracks, default_mpq):
    """Tick-sorted list of (tick, mpq) of every set_tempo in every track.

    ``same_tick`` lists ticks that carry more than one set_tempo (see
    :func:`tempo_same_tick_in_different_tracks` for the ambiguous ones).
    """
    evs = []
    for ti, evs_t in enumerate(abs_tracks):
        for tick, pos, msg in evs_t:
            if msg.is_meta and msg.type == "set_tempo":
                evs.append((tick, ti, pos, int(msg.tempo)))
    # (tick, track, position): on one tick of one track the later message is in force
    evs.sort(key=lambda e: (e[0], e[1], e[2]))
    ticks = [e[0] for e in evs]
    same_tick = sorted(set(t for t in ticks if ticks.count(t) > 1))
    return [(e[0], e[3]) for e in evs], same_tick


def tempo_same_tick_in_different_tracks(abs_tracks):
    """Ticks that carry set_tempo events in more than one track (their order is a matter of
    convention; outside the domain).  Several set_tempo on one tick of ONE track are ordered."""
    where = {}
    for ti, evs_t in enumerate(abs_tracks):
        for tick, pos, msg in evs_t:
            if msg.is_meta and msg.type == "set_tempo":
                where.setdefault(tick, set()).add(ti)
    return sorted(t for t, s in where.items() if len(s) > 1)


def make_seconds(tmap, default_mpq, ppq):
    """Return f(tick) -> Fraction seconds, integrating ``tmap`` (tick-sorted)."""
    # cumulative seconds at each change
    segs = []  # (start_tick, seconds_at_start, mpq)
    cur_tick, cur_sec, cur_mpq = 0, Fraction(0), int(default_mpq)
    segs.append((0, Fraction(0), cur_mpq))
    for tick, mpq in tmap:
        cur_sec = cur_sec + Fraction((tick - cur_tick) * cur_mpq, MILLION * ppq)
        cur_tick, cur_mpq = tick, mpq
        segs.append((cur_tick, cur_sec, cur_mpq))

    def seconds(tick):
        best = segs[0]
        for s in segs:
            if s[0] <= tick:
                best = s
            else:
                break
        return best[1] + Fraction((tick - best[0]) * best[2], MILLION * ppq)

    return seconds


def _merged(abs_tracks):
    allm = []
    for ti, evs in enumerate(abs_tracks):
        for tick, pos, msg in evs:
            if msg.is_meta and msg.type == "end_of_track":
                continue
            allm.append((tick, ti, pos, msg))
    allm.sort(key=lambda e: (e[0], e[1], e[2]))
    return [[(tick, k, msg) for k, (tick, ti, pos, msg) in enumerate(allm)]]


def interpret(mid, merge=False, default_mpq=500000):
    """Read ``mid`` (a mido.MidiFile) into plain data.

    Returns dict(ppq, tempo_map, tempo_same_tick, seconds, tracks=[...]) where each
    track is dict(index, notes, controls, programs, key_signatures, time_signatures,
    meta_other, ignored, problems).  All times are absolute integer ticks.
    """
    ppq = int(mid.ticks_per_beat)
    abs_tracks = absolute_tracks(mid)
    tmap, same = tempo_map(abs_tracks, default_mpq)
    seconds = make_seconds(tmap, default_mpq, ppq)
    streams = _merged(abs_tracks) if merge else abs_tracks
    tracks = []
    for index, evs in enumerate(streams):
        tr = dict(
            index=index,
            notes=[],
            controls=[],
            programs=[],
            key_signatures=[],
            time_signatures=[],
            meta_other=[],
            ignored=0,
            problems=[],
        )
        sounding = {}
        for tick, pos, msg in evs:
            if msg.is_meta:
                if msg.type == "set_tempo":
                    continue
                if msg.type == "end_of_track":
                    continue
                if msg.type == "key_signature":
                    tr["key_signatures"].append((tick, str(msg.key)))
                elif msg.type == "time_signature":
                    tr["time_signatures"].append((tick, int(msg.numerator), int(msg.denominator)))
                else:
                    attrs = dict((k, v) for k, v in vars(msg).items() if k != "time")
                    tr["meta_other"].append((tick, attrs))
                continue
            if msg.type == "control_change":
                tr["controls"].append((tick, int(msg.control), int(msg.value), int(msg.channel)))
            elif msg.type == "program_change":
                tr["programs"].append((tick, int(msg.program), int(msg.channel)))
            elif msg.type == "note_on" and msg.velocity > 0:
                key = (int(msg.channel), int(msg.note))
                if key in sounding:
                    tr["problems"].append(("note-on-while-sounding", tick, key))
                sounding[key] = (tick, int(msg.velocity))
            elif msg.type in ("note_on", "note_off"):
                key = (int(msg.channel), int(msg.note))
                if key not in sounding:
                    tr["problems"].append(("off-without-on", tick, key))
                    continue
                on_tick, vel = sounding.pop(key)
                tr["notes"].append(dict(on=on_tick, off=tick, pitch=key[1], channel=key[0], velocity=vel))
            else:
                tr["ignored"] += 1
        for key, (tick, vel) in sorted(sounding.items()):
            tr["problems"].append(("on-never-closed", tick, key))
        tracks.append(tr)
    return dict(
        ppq=ppq,
        tempo_map=tmap,
        tempo_same_tick=same,
        tempo_same_tick_cross_track=tempo_same_tick_in_different_tracks(abs_tracks),
        seconds=seconds,
        tracks=tracks,
    )


FIFTHS_LINE = "FCGDAEB"


def key_name(fifths, minor):
    """Name of the key with ``fifths`` sharps (negative: flats), e.g. (-3, True) -> 'Cm'."""
    idx = fifths + (4 if minor else 1)
    acc = idx // 7
    return FIFTHS_LINE[idx % 7] + ("#" * acc if acc >= 0 else "b" * (-acc)) + ("m" if minor else "")


KEY_TABLE = dict((key_name(f, m), (f, "minor" if m else "major")) for f in range(-7, 8) for m in (False, True))
