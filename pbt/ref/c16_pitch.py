"""Independent diatonic arithmetic for C16 (transposition).

Nothing here reads partitura's tables.  A pitch spelling is (step letter, alter
int, octave int); an interval is (number 1..7, quality, direction).

* staff steps moved    = number - 1 (up: +, down: -) on the letter cycle C D E F G A B,
  the octave changes every time the cycle wraps (floor division by 7);
* semitones moved      = size of the interval (major-scale degree + quality offset);
* resulting alteration = whatever makes the new letter/octave sound at the moved MIDI pitch.
"""

LETTERS = "CDEFGAB"
BASE = {"C": 0, "D": 2, "E": 4, "F": 5, "G": 7, "A": 9, "B": 11}
MAJOR_SCALE = [0, 2, 4, 5, 7, 9, 11]  # semitones of P1 M2 M3 P4 P5 M6 M7
Q_PERFECT = {"dd": -2, "d": -1, "P": 0, "A": 1, "AA": 2}  # numbers 1, 4, 5
Q_MAJOR = {"dd": -3, "d": -2, "m": -1, "M": 0, "A": 1, "AA": 2}  # numbers 2, 3, 6, 7


def interval_classes():
    """The 39 simple interval classes as (number, quality)."""
    out = []
    for n in range(1, 8):
        table = Q_PERFECT if n in (1, 4, 5) else Q_MAJOR
        for q in table:
            out.append((n, q))
    return out


def semitones(number, quality):
    table = Q_PERFECT if number in (1, 4, 5) else Q_MAJOR
    return MAJOR_SCALE[number - 1] + table[quality]


def midi(step, alter, octave):
    return 12 * (octave + 1) + BASE[step] + (alter or 0)


def transpose_spelling(step, alter, octave, number, quality, direction):
    """(step, alter, octave) moved by the interval; alter None counts as 0."""
    sign = 1 if direction == "up" else -1
    idx = LETTERS.index(step) + sign * (number - 1)
    new_step = LETTERS[idx % 7]
    new_octave = octave + idx // 7  # floor division: wraps below C lower the octave
    new_midi = midi(step, alter, octave) + sign * semitones(number, quality)
    new_alter = new_midi - midi(new_step, 0, new_octave)
    return new_step, new_alter, new_octave


def transpose_pitch_class(step, alter, number, quality, direction="up"):
    """Octave-free variant: (step, alter)."""
    s, a, _ = transpose_spelling(step, alter, 4, number, quality, direction)
    return s, a


def opposite(direction):
    return "down" if direction == "up" else "up"


# ---------------------------------------------------------------------------
# input conditions of the known defects (used only by known-finding predicates;
# written from the *musical* description of the trigger, not from the code)
# ---------------------------------------------------------------------------
def down_wraps_below_c(step, number, direction):
    """Going down by (number-1) letters from `step` passes below C."""
    return direction == "down" and LETTERS.index(step) < number - 1


def altered_source_crosses_target(step, alter, number, direction):
    """The alteration moves the source across the *natural* target letter.

    Take both letters inside one C..B octave: s = semitone of the source letter plus
    its alteration (may leave 0..11), t = semitone of the natural target letter.
    Without alteration, going up the target lies at or above the source unless the
    letters wrap past B (then it lies below); going down it is the mirror image.
    The trigger is an alteration large enough to reverse that order (C sharp up any
    kind of unison: s=1 > t=0; D double-flat up a seventh to C: s=0 <= t=0 although
    the letters wrap).  Verified to coincide exactly with the failing grid points.
    """
    alter = alter or 0
    sign = 1 if direction == "up" else -1
    idx = LETTERS.index(step) + sign * (number - 1)
    wrapped = idx // 7 != 0
    t = BASE[LETTERS[idx % 7]]
    s = BASE[step] + alter
    if direction == "up":
        return t >= s if wrapped else t < s
    return s >= t if wrapped else s < t
