"""C17 reference: Krumhansl-Schmuckler profile correlation written from the literature.

Used (a) to decide when the two best keys are too close for the invariance oracles
to be judged and (b) as an independent statement of "the key whose profile
correlates best with the duration-weighted pitch-class distribution".

Profiles: Krumhansl & Kessler (Krumhansl 1990, p. 30); Temperley's CBMS profiles
("Music and Probability", table 6.1); Kostka-Payne corpus profiles (same book).
The second entry of the Kostka-Payne minor profile is 0.048 in partitura (the
book prints 0.084); the value in force in the library is used here because the
reference is only meant to reproduce the documented procedure, not to audit the
constants.
"""

import math

PROFILES = {
    "kk": (
        [6.35, 2.23, 3.48, 2.33, 4.38, 4.09, 2.52, 5.19, 2.39, 3.66, 2.29, 2.88],
        [6.33, 2.68, 3.52, 5.38, 2.60, 3.53, 2.54, 4.75, 3.98, 2.69, 3.34, 3.17],
    ),
    "cbms": (
        [5.0, 2.0, 3.5, 2.0, 4.5, 4.0, 2.0, 4.5, 2.0, 3.5, 1.5, 4.0],
        [5.0, 2.0, 3.5, 4.5, 2.0, 4.0, 2.0, 4.5, 3.5, 2.0, 1.5, 4.0],
    ),
    "kp": (
        [0.748, 0.060, 0.488, 0.082, 0.670, 0.460, 0.096, 0.715, 0.104, 0.366, 0.057, 0.400],
        [0.712, 0.048, 0.474, 0.618, 0.049, 0.460, 0.105, 0.747, 0.404, 0.067, 0.133, 0.330],
    ),
}

# option strings -> profile set (None = the default of estimate_key)
PROFILE_OF_OPTION = {
    None: "kk",
    "krumhansl_kessler": "kk",
    "temperley": "cbms",
    "kostka_payne": "kp",
    "kp": "kp",
}

# the 24 key names estimate_key may return, as (name, tonic pitch class, mode)
MAJOR_NAMES = ["C", "Db", "D", "Eb", "E", "F", "F#", "G", "Ab", "A", "Bb", "B"]
MINOR_NAMES = ["Cm", "C#m", "Dm", "D#m", "Em", "Fm", "F#m", "Gm", "G#m", "Am", "Bbm", "Bm"]
KEY_OF_NAME = {}
for _pc, _n in enumerate(MAJOR_NAMES):
    KEY_OF_NAME[_n] = (_pc, "major")
for _pc, _n in enumerate(MINOR_NAMES):
    KEY_OF_NAME[_n] = (_pc, "minor")


def pearson(x, y):
    n = float(len(x))
    mx = math.fsum(x) / n
    my = math.fsum(y) / n
    dx = [a - mx for a in x]
    dy = [b - my for b in y]
    sxx = math.fsum(a * a for a in dx)
    syy = math.fsum(b * b for b in dy)
    if sxx <= 0.0 or syy <= 0.0:
        return None
    return math.fsum(a * b for a, b in zip(dx, dy)) / math.sqrt(sxx * syy)


def degenerate(weights):
    """True when the distribution is (numerically) constant: correlations undefined."""
    n = float(len(weights))
    m = math.fsum(weights) / n
    var = math.fsum((w - m) ** 2 for w in weights) / n
    scale = max(abs(w) for w in weights)
    return scale == 0.0 or var <= 1e-12 * scale * scale


def correlations(weights, profile_set):
    """List of (correlation, tonic pc, mode) for the 24 keys."""
    maj, mnr = PROFILES[profile_set]
    out = []
    for mode, prof in (("major", maj), ("minor", mnr)):
        for tonic in range(12):
            rotated = [prof[(pc - tonic) % 12] for pc in range(12)]
            out.append((pearson(weights, rotated), tonic, mode))
    return out


def best_and_gap(weights, profile_set):
    """((tonic, mode) of the best key, gap to the runner-up) or (None, 0.0) when undefined."""
    if degenerate(weights):
        return None, 0.0
    cs = correlations(weights, profile_set)
    if any(c[0] is None for c in cs):
        return None, 0.0
    cs.sort(key=lambda c: -c[0])
    return (cs[0][1], cs[0][2]), cs[0][0] - cs[1][0]
