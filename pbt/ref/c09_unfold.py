"""C09 reference: an independent interpreter of bar-level repeat structures.

A *structure* is a list of sections (plain JSON):

    {"k": "plain", "n": bars}
    {"k": "rep",   "body": [sections]}                      simple / nested repeat
    {"k": "volta", "body": [sections],
                   "endings": [{"nums": [1], "n": bars, "sep": ","}, ...]}

Bars are numbered 0..n-1, bar lines 0..n (bar line k is the start of bar k).
Nothing in this module looks at partitura: the expected maximal / minimal bar
sequences are the textbook reading of the notation,

* a repeated section is played twice,
* a section with endings is played once per ending number, pass k closing with
  the ending that carries number k,
* the minimal version plays every section once and closes with the last ending,

and ``check_path`` is the permissive validity predicate of DESIGN.md section 6
for arbitrary paths (used whenever navigation marks are present and for the
individual variants of ``iter_unfolded_parts``).
"""

import itertools


# --------------------------------------------------------------------------
# layout: where the brackets are
# --------------------------------------------------------------------------
def _annotate(sections, base, depth, lay):
    out = []
    t = base
    for s in sections:
        k = s["k"]
        if k == "plain":
            node = {"k": "plain", "a": t, "b": t + int(s["n"])}
            t = node["b"]
        elif k == "rep":
            body, t2 = _annotate(s["body"], t, depth + 1, lay)
            node = {"k": "rep", "a": t, "b": t2, "body": body, "depth": depth}
            lay["repeats"].append([t, t2])
            lay["rep_nodes"].append(node)
            t = t2
        elif k == "volta":
            body, t2 = _annotate(s["body"], t, depth + 1, lay)
            ends = []
            total = sum(len(e["nums"]) for e in s["endings"])
            e_at = t2
            for e in s["endings"]:
                nums = [int(x) for x in e["nums"]]
                ee = {"a": e_at, "b": e_at + int(e["n"]), "nums": nums, "sep": e.get("sep", ",")}
                ends.append(ee)
                lay["endings"].append([ee["sep"].join(str(x) for x in nums), ee["a"], ee["b"]])
                if any(x < total for x in nums):
                    # a backward repeat sign closes every ending that is followed by another pass
                    lay["repeats"].append([t, ee["b"]])
                e_at = ee["b"]
            node = {"k": "volta", "a": t, "b": e_at, "body": body, "body_end": t2, "endings": ends, "total": total, "depth": depth}
            lay["voltas"].append(node)
            t = e_at
        else:
            raise ValueError(k)
        out.append(node)
    return out, t


def layout(structure):
    """Bar ranges of every bracket. Returns a dict with
    n, tree, repeats [[s, e]], endings [[numberstring, s, e]], voltas, rep_nodes."""
    lay = {"repeats": [], "endings": [], "voltas": [], "rep_nodes": []}
    tree, n = _annotate(structure, 0, 0, lay)
    lay["tree"] = tree
    lay["n"] = n
    return lay


def _play(nodes, maximal):
    out = []
    for nd in nodes:
        if nd["k"] == "plain":
            out.extend(range(nd["a"], nd["b"]))
        elif nd["k"] == "rep":
            for _ in range(2 if maximal else 1):
                out.extend(_play(nd["body"], maximal))
        else:
            if maximal:
                for k in range(1, nd["total"] + 1):
                    out.extend(_play(nd["body"], maximal))
                    e = [e for e in nd["endings"] if k in e["nums"]][0]
                    out.extend(range(e["a"], e["b"]))
            else:
                out.extend(_play(nd["body"], maximal))
                e = nd["endings"][-1]
                out.extend(range(e["a"], e["b"]))
    return out


def expected_maximal(structure):
    return _play(layout(structure)["tree"], True)


def expected_minimal(structure):
    return _play(layout(structure)["tree"], False)


def is_simple_independent(structure):
    """Only plain sections and non-nested repeats without endings."""
    for s in structure:
        if s["k"] == "plain":
            continue
        if s["k"] == "rep" and all(b["k"] == "plain" for b in s["body"]):
            continue
        return False
    return True


def expected_variants_simple(structure):
    """All 2^r bar sequences of a structure of independent simple repeats."""
    assert is_simple_independent(structure)
    tree = layout(structure)["tree"]
    reps = [nd for nd in tree if nd["k"] == "rep"]
    out = []
    for choice in itertools.product((1, 2), repeat=len(reps)):
        seq = []
        it = iter(choice)
        for nd in tree:
            if nd["k"] == "plain":
                seq.extend(range(nd["a"], nd["b"]))
            else:
                seq.extend(list(range(nd["a"], nd["b"])) * next(it))
        out.append(tuple(seq))
    return out


# --------------------------------------------------------------------------
# segments: maximal runs of bars between two bar lines that carry a mark
# --------------------------------------------------------------------------
def boundaries(lay, marks):
    bs = set([0, lay["n"]])
    for s, e in lay["repeats"]:
        bs.add(s)
        bs.add(e)
    for _, s, e in lay["endings"]:
        bs.add(s)
        bs.add(e)
    for _, k in marks:
        bs.add(int(k))
    return sorted(bs)


def segment_of_bar(lay, marks):
    """list: bar index -> (segment start bar, segment end bar)."""
    bs = boundaries(lay, marks)
    out = [None] * lay["n"]
    for a, b in zip(bs, bs[1:]):
        for x in range(a, b):
            out[x] = (a, b)
    return out


# --------------------------------------------------------------------------
# permissive validity of a path given as a bar sequence
# --------------------------------------------------------------------------
def check_path(seq, lay, marks):
    """Return a list of (kind, detail) problems; empty = the path is permitted.

    Permitted transitions from bar b to bar b2: the next bar; the end of a repeat
    to its start; from in front of a group of endings to the start of any ending
    of the group; the end of an ending to the start of the repeated section;
    a da capo mark to bar 0; a dal segno mark to a segno; a to-coda mark to a coda
    (only after a da capo / dal segno jump was taken).  The path starts at bar 0 and
    stops at the last bar or at a fine mark (only after a jump was taken).
    """
    n = lay["n"]
    at = {}
    for cls, k in marks:
        at.setdefault(cls, set()).add(int(k))
    problems = []
    if not seq:
        return [("path-empty", {})]
    if seq[0] != 0:
        problems.append(("path-does-not-start-at-first-bar", {"first": seq[0]}))
    if any((b < 0 or b >= n) for b in seq):
        return problems + [("path-visits-unknown-bar", {})]
    seg = segment_of_bar(lay, marks)
    jumped = False
    for i in range(len(seq) - 1):
        b, b2 = seq[i], seq[i + 1]
        k = b + 1
        is_dc = k in at.get("DaCapo", ()) and b2 == 0
        is_ds = k in at.get("DalSegno", ()) and b2 in at.get("Segno", ())
        if is_dc or is_ds:
            # permissive: a transition that can be read as the jump counts as the jump, even when a
            # repeat sign or the plain succession explains it as well
            jumped = True
        if b2 == b + 1:
            continue
        if seg[b][1] != k or seg[b2][0] != b2:
            problems.append(("path-leaves-or-enters-a-segment-in-the-middle", {"from_bar": b, "to_bar": b2, "index": i}))
            continue
        if any(e == k and s == b2 for s, e in lay["repeats"]):
            continue
        ok = False
        for v in lay["voltas"]:
            if k == v["body_end"] and any(e["a"] == b2 for e in v["endings"]):
                ok = True
            if any(e["b"] == k for e in v["endings"]) and b2 == v["a"]:
                ok = True
        if ok:
            continue
        if is_dc or is_ds:
            continue
        if k in at.get("ToCoda", ()) and b2 in at.get("Coda", ()):
            if not jumped:
                problems.append(("to-coda-jump-taken-before-any-da-capo-or-dal-segno", {"from_bar": b, "to_bar": b2, "index": i}))
            continue
        problems.append(("transition-not-permitted-by-any-mark", {"from_bar": b, "to_bar": b2, "index": i}))
    last = seq[-1]
    if last != n - 1:
        if (last + 1) in at.get("Fine", ()):
            if not jumped:
                problems.append(("path-stops-at-fine-before-any-da-capo-or-dal-segno", {"last_bar": last}))
        else:
            problems.append(("path-ends-before-the-last-bar", {"last_bar": last}))
    return problems
