"""C09 - unfolding repeats concatenates segments along a valid path and nothing else.

Inputs are bar-level structures drawn from a grammar (plain | simple repeat | repeat with
endings | nested repeat, navigation marks in textbook and arbitrary arrangements) with simple
per-bar notes (ties / slurs / tuplet brackets / grace chains, also across segment boundaries,
division and time signature changes at bar lines).  Every unfolding call gets a freshly built
part.  The bar sequence of every returned part is read off the copied Measure objects and
judged against an independent interpreter of the structure (pbt/ref/c09_unfold.py); everything
else (length, notes per visit, leftover brackets, reference closure, time point chain,
divisions in force, original untouched) is computed from the spec.
"""

import itertools
import re
import signal

from hypothesis import strategies as st

import partitura.score as S
from partitura.utils.music import update_note_ids_after_unfolding
from pbt.core import Outcome, SubCheck, SutRaised, call
from pbt.gen import c09_repeats as GR
from pbt.gen import scorespec as G
from pbt.gen.build import build_part
from pbt.ref import c09_unfold as R

PROPERTY = "C09"
ENGINES = ["hypothesis"]
ASSUMPTIONS = [
    "brackets and marks stand on bar lines; da capo / dal segno arrangements have their marks on bar lines outside the repeat and ending brackets (section boundaries, plain sections, start, end); marks that cannot jump on their own (fine, segno, coda, to coda without da capo / dal segno) also stand inside brackets and must leave the unfolding unchanged; notes do not cross bar lines; repeats nest properly and inner repeats neither start nor end on the bar line of the enclosing one; a to-coda mark comes with a coda that does not start before it, a dal segno with a segno that stands before it, each mark kind at most once",
    "every unfolding call gets a freshly built part (dependence on earlier calls on the same object belongs to C20)",
    "exact maximal/minimal bar sequences are demanded whenever no da capo / dal segno is present (repeats and endings, possibly with marks that stay inert); with a da capo / dal segno and for the single variants of iter_unfolded_parts only the permissive path predicate (DESIGN 6) is demanded: passing a fine or to-coda mark after the jump, or never taking the jump, is not judged",
    "the 'all variants' policies are only drawn for structures whose estimated number of paths is <= 1500 (gen/c09_repeats.estimate_paths); at most the first 8 variants of a call are judged part by part; a 30 s watchdog guards against a non-terminating enumeration",
    "a reference (tie, slur, tuplet) that crosses a segment boundary may be None in the copy; inside one segment visit it must connect the copies",
    "time/key signature and clef in force at a revisited segment are not judged (the statement lists notes, length, brackets, references); the divisions in force are (they decide the duration of a note)",
    "ids of rests and of unpitched notes are not judged under update_ids (the statement speaks of notes; the library's docstrings name 'notes, rests, and unpitched notes' as three kinds and Part.notes holds the first only)",
    "order of the variants is not demanded",
]

LEFTOVER = ("Repeat", "Ending", "DaCapo", "DalSegno", "ToCoda")
REF_LISTS = ("slur_starts", "slur_stops", "tuplet_starts", "tuplet_stops")
MAX_VARIANTS_CHECKED = 8


# ----------------------------------------------------------------------------------------------
# identity snapshot of the original (everything except Segment bookkeeping)
# ----------------------------------------------------------------------------------------------
def _canon(v):
    if isinstance(v, S.TimePoint):
        return ("tp", id(v))
    if isinstance(v, (S.TimedObject,)):
        return ("obj", id(v))
    if isinstance(v, (list, tuple)):
        return tuple(_canon(x) for x in v)
    if isinstance(v, dict):
        return tuple(sorted((repr(k), _canon(x)) for k, x in v.items()))
    return repr(v)


def snapshot(part):
    pts = list(part._points)
    snap = {
        "points": [(id(p), int(p.t), repr(p.quarter), id(p.prev) if p.prev is not None else None, id(p.next) if p.next is not None else None) for p in pts],
        "quarters": (repr(list(part._quarter_times)), repr(list(part._quarter_durations))),
        "meta": (part.id, part.part_name, part.part_abbreviation),
    }
    listing = []
    objs = {}
    nseg = 0
    for p in pts:
        for mode, dd in (("s", p.starting_objects), ("e", p.ending_objects)):
            for cls in list(dd.keys()):
                for ob in dd[cls]:
                    if isinstance(ob, S.Segment):
                        nseg += 1
                        continue
                    listing.append((int(p.t), mode, cls.__name__, id(ob)))
                    objs[id(ob)] = ob
    snap["listing"] = sorted(listing)
    snap["objs"] = {oid: {k: _canon(v) for k, v in vars(ob).items()} for oid, ob in objs.items()}
    snap["nseg"] = nseg
    return snap, objs


def compare_snapshots(o, before, after, where):
    if after["nseg"] > before["nseg"]:
        o.add("original-gained-segment-objects", n=after["nseg"] - before["nseg"], where=where)
    if before["points"] != after["points"] or before["quarters"] != after["quarters"] or before["meta"] != after["meta"]:
        o.add("original-modified:time-points-or-tables", where=where)
    if before["listing"] != after["listing"]:
        gone = sorted(set(before["listing"]) - set(after["listing"]))[:3]
        new = sorted(set(after["listing"]) - set(before["listing"]))[:3]
        o.add("original-modified:object-listing", where=where, removed=[x[:3] for x in gone], added=[x[:3] for x in new])
    changed = {}
    for oid, st_ in before["objs"].items():
        st2 = after["objs"].get(oid)
        if st2 is None:
            continue
        for k in set(st_) | set(st2):
            if st_.get(k) != st2.get(k):
                changed.setdefault(k, 0)
                changed[k] += 1
    if changed:
        if set(changed) <= set(REF_LISTS):
            o.add("original-modified:note-slur-tuplet-lists", attrs=sorted(changed), n=sum(changed.values()), where=where)
        else:
            o.add("original-modified:object-attributes:" + ",".join(sorted(set(changed) - set(REF_LISTS))[:3]), attrs=sorted(changed), where=where)


# ----------------------------------------------------------------------------------------------
# the abstract side of a case
# ----------------------------------------------------------------------------------------------
class Case(object):
    def __init__(self, spec):
        self.spec = spec
        ps = spec["part"]
        self.ps = ps
        self.lay = R.layout(spec["structure"])
        self.marks = [[c, int(k)] for c, k in spec["marks"]]
        self.n = self.lay["n"]
        self.bt = GR.barline_times(ps)
        self.blen = [self.bt[i + 1] - self.bt[i] for i in range(self.n)]
        self.ref = G.PartRef(ps)
        self.seg = R.segment_of_bar(self.lay, self.marks)
        self.byid = {n["id"]: n for n in ps["notes"]}
        self.bar_of = {}
        self.notes_by_bar = [[] for _ in range(self.n)]
        for nt in ps["notes"]:
            b = self._bar_at(nt["t"])
            self.bar_of[nt["id"]] = b
            self.notes_by_bar[b].append(nt)
        # without a da capo / dal segno no jump can be taken: fine, segno, coda and to coda are inert and the
        # unfolding must be the one of the repeats and endings alone
        self.only_repeats = not any(c in ("DaCapo", "DalSegno") for c, _ in self.marks)

    def _bar_at(self, t):
        for i in range(self.n):
            if self.bt[i] <= t < self.bt[i + 1]:
                return i
        raise ValueError("note outside the bars")

    def same_segment(self, ida, idb):
        return self.seg[self.bar_of[ida]] == self.seg[self.bar_of[idb]]


def _kind_of(ob):
    if isinstance(ob, S.GraceNote):
        return "grace"
    if isinstance(ob, S.Rest):
        return "rest"
    if isinstance(ob, S.UnpitchedNote):
        return "unpitched"
    if isinstance(ob, S.Note):
        return "note"
    return type(ob).__name__


_SUFFIX = re.compile(r"-\d+$")


# ----------------------------------------------------------------------------------------------
# judging one unfolded part
# ----------------------------------------------------------------------------------------------
def check_unfolded(o, case, new, update_ids, tag, expect=None, path_bars=None):
    """All structural claims for one returned part. ``expect``: exact bar sequence or None
    (then only the validity predicate). Returns the bar sequence (or None)."""
    n = case.n
    if not isinstance(new, S.Part):
        o.add("unfold-returned-non-part", got=type(new).__name__, tag=tag)
        return None
    # ---- bar sequence from the copied measures ---------------------------------------------
    ms = sorted(new.iter_all(S.Measure), key=lambda m: (m.start.t, m.number))
    seq, offs = [], []
    t = 0
    tiled = True
    for m in ms:
        b = (m.number or 0) - 1
        if not (0 <= b < n) or m.start.t != t or m.end is None or m.end.t - m.start.t != case.blen[b]:
            tiled = False
            break
        seq.append(b)
        offs.append(t)
        t = m.end.t
    if not tiled or not seq:
        o.add("unfolded-measures-do-not-tile-the-part", tag=tag, measures=[(m.start.t, m.end.t if m.end else None, m.number) for m in ms][:12])
        return None
    total = t
    # ---- path --------------------------------------------------------------------------------
    if path_bars is not None and list(path_bars) != seq:
        o.add("part-differs-from-its-path", tag=tag, path=list(path_bars), measures=seq)
    if expect is not None:
        if seq != list(expect):
            o.add("wrong-bar-sequence:" + tag.split("#")[0], tag=tag, got=seq, expected=list(expect))
    for kind, det in R.check_path(seq, case.lay, case.marks):
        o.add("invalid-path:" + kind, tag=tag, seq=seq, **det)
    # ---- length --------------------------------------------------------------------------------
    first, last = new.first_point, new.last_point
    if first is None or last is None or first.t != 0 or last.t - first.t != total:
        o.add("length-is-not-sum-of-visited-segments", tag=tag, first=None if first is None else first.t, last=None if last is None else last.t, expected=total)
    # ---- notes -----------------------------------------------------------------------------------
    expected = []  # (rawid, newt, dur, kind, step, alter, octave, voice, staff, visit, origt)
    visit_no = {}
    for i, b in enumerate(seq):
        visit_no[b] = visit_no.get(b, 0) + 1
        for nt in case.notes_by_bar[b]:
            expected.append((nt["id"], nt["t"] - case.bt[b] + offs[i], nt["dur"], nt["kind"], nt.get("step"), nt.get("alter"), nt.get("octave"),
                             nt.get("voice"), nt.get("staff"), visit_no[b], nt["t"], i))
    actual_objs = list(new.iter_all(S.GenericNote, include_subclasses=True))
    act = {}
    dup = False
    for ob in actual_objs:
        oid = ob.id
        raw = oid
        k = _kind_of(ob)
        if update_ids and isinstance(oid, str) and _SUFFIX.search(oid):
            raw = _SUFFIX.sub("", oid)
        key = (raw, ob.start.t)
        if key in act:
            dup = True
        act[key] = ob
    exp_keys = set((e[0], e[1]) for e in expected)
    missing = sorted(exp_keys - set(act))
    extra = sorted(set(act) - exp_keys)
    if missing or extra or dup or len(actual_objs) != len(expected):
        o.add("notes-are-not-one-copy-per-visit", tag=tag, missing=missing[:5], extra=extra[:5], n_expected=len(expected), n_actual=len(actual_objs), seq=seq)
    copy_of = {}  # (rawid, seq index) -> object
    for e in expected:
        ob = act.get((e[0], e[1]))
        if ob is None:
            continue
        copy_of[(e[0], e[11])] = ob
        k = _kind_of(ob)
        dur = (ob.end.t - ob.start.t) if ob.end is not None else None
        got = (dur, k, getattr(ob, "step", None), getattr(ob, "alter", None), getattr(ob, "octave", None), ob.voice, ob.staff)
        want = (e[2], e[3], e[4], e[5], e[6], e[7], e[8])
        if e[3] == "rest":
            got = got[:2] + (None, None, None) + got[5:]
        if got != want:
            o.add("copied-note-attributes-changed", tag=tag, id=e[0], got=got, expected=want)
            break
        if e[3] not in ("rest", "unpitched"):
            want_id = "%s-%d" % (e[0], e[9]) if update_ids else e[0]
            if ob.id != want_id:
                o.add("note-id-wrong-after-unfolding" if update_ids else "note-id-changed-without-update-ids", tag=tag, got=ob.id, expected=want_id, seq=seq)
                break
    # divisions in force (they decide what a duration means)
    qmap = new.quarter_duration_map
    # what a copy would show if only the division entries lying inside the visited bars were carried over
    # (the value set last stays in force): used to tell the known carry-over defect from anything else
    carried = {}
    cur = None
    for i, b in enumerate(seq):
        inside = sorted((t, d) for t, d in case.ps["divs"] if case.bt[b] <= t < case.bt[b + 1])
        for nt in sorted(case.notes_by_bar[b], key=lambda x: x["t"]):
            for t, d in inside:
                if t <= nt["t"]:
                    cur = d
            carried[(nt["id"], i)] = cur
        if inside:
            cur = inside[-1][1]
    for e in expected:
        want = case.ref.divs_at(e[10])
        got = float(qmap(e[1]))
        if got != want:
            jumped = any(seq[x + 1] != seq[x] + 1 for x in range(e[11]))
            o.add("divisions-in-force-differ-for-copied-note", tag=tag, id=e[0], visit=e[9], got=got, expected=want, seq=seq,
                  explained_by_carry_over=bool(jumped and carried.get((e[0], e[11])) == got))
            break
    # ---- leftovers -----------------------------------------------------------------------------------
    for cname in LEFTOVER:
        cls = getattr(S, cname)
        left = list(new.iter_all(cls)) + list(new.iter_all(cls, mode="ending"))
        if left:
            o.add("bracket-or-jump-mark-remains:" + cname, tag=tag, n=len(left))
    # ---- time point chain and registration -------------------------------------------------------------
    pts = list(new._points)
    pid = set(id(p) for p in pts)
    ts = [p.t for p in pts]
    if any(b <= a for a, b in zip(ts, ts[1:])):
        o.add("unfolded-points-not-increasing", tag=tag)
    for i, p in enumerate(pts):
        ep = pts[i - 1] if i > 0 else None
        en = pts[i + 1] if i + 1 < len(pts) else None
        if p.prev is not ep or p.next is not en:
            o.add("unfolded-point-prev-next-wrong", tag=tag, at=p.t, prev=None if p.prev is None else p.prev.t, next=None if p.next is None else p.next.t,
                  prev_inside=p.prev is None or id(p.prev) in pid, next_inside=p.next is None or id(p.next) in pid)
            break
    reg = {}
    for p in pts:
        for mode, dd in (("s", p.starting_objects), ("e", p.ending_objects)):
            for cls in list(dd.keys()):
                for ob in dd[cls]:
                    reg.setdefault(id(ob), [None, None, ob])
                    reg[id(ob)][0 if mode == "s" else 1] = p
    for oid, (ps_, pe_, ob) in sorted(reg.items(), key=lambda kv: (type(kv[1][2]).__name__, kv[1][0].t if kv[1][0] is not None else -1)):
        bad = (ps_ is not None and ob.start is not ps_) or (pe_ is not None and ob.end is not pe_) or (ob.start is not None and id(ob.start) not in pid) or (ob.end is not None and id(ob.end) not in pid)
        if bad:
            o.add("listed-object-start-end-attribute-wrong:" + type(ob).__name__, tag=tag,
                  listed_start=None if ps_ is None else ps_.t, listed_end=None if pe_ is None else pe_.t,
                  attr_start=None if ob.start is None else ob.start.t, attr_end=None if ob.end is None else ob.end.t)
            break
    # ---- closure: no reference leaves the copy ------------------------------------------------------------
    def inside(x):
        return x is None or id(x) in reg

    for ob in actual_objs:
        for attr in ("tie_prev", "tie_next", "grace_prev", "grace_next"):
            v = getattr(ob, attr, None)
            if not inside(v):
                o.add("reference-leaves-the-copy:" + attr, tag=tag, id=ob.id)
                break
        for attr in REF_LISTS:
            for v in getattr(ob, attr, None) or []:
                if not inside(v):
                    o.add("reference-leaves-the-copy:" + attr, tag=tag, id=ob.id)
                    break
    for oid, (ps_, pe_, ob) in reg.items():
        if isinstance(ob, (S.Slur, S.Tuplet)):
            for attr in ("start_note", "end_note"):
                if not inside(getattr(ob, attr)):
                    o.add("reference-leaves-the-copy:%s.%s" % (type(ob).__name__, attr), tag=tag)
    # ---- references are mutual and point forward in time (a link must never connect a note to the copy made
    # for another visit: a tie joins a note to the note that starts where it ends; what cannot be kept is cut)
    for ob in actual_objs:
        if not isinstance(ob, S.GenericNote):
            continue
        nx = getattr(ob, "tie_next", None)
        if nx is not None and inside(nx):
            if nx.tie_prev is not ob:
                o.add("tie-link-not-mutual", tag=tag, id=ob.id, other=nx.id)
                break
            if ob.end is not None and nx.start is not None and ob.end.t != nx.start.t:
                o.add("tie-joins-notes-that-are-not-adjacent", tag=tag, id=ob.id, end=ob.end.t, next_start=nx.start.t)
                break
        pv = getattr(ob, "tie_prev", None)
        if pv is not None and inside(pv):
            if pv.tie_next is not ob:
                o.add("tie-link-not-mutual", tag=tag, id=ob.id, other=pv.id)
                break
        gn = getattr(ob, "grace_next", None)
        if gn is not None and inside(gn) and ob.start is not None and gn.start is not None and gn.start.t != ob.start.t:
            o.add("grace-link-joins-notes-at-different-times", tag=tag, id=ob.id)
            break
    for oid, (ps_, pe_, ob) in reg.items():
        if isinstance(ob, (S.Slur, S.Tuplet)):
            a_, b_ = ob.start_note, ob.end_note
            if a_ is not None and b_ is not None and inside(a_) and inside(b_) and a_.start is not None and b_.start is not None and a_.start.t > b_.start.t:
                o.add("bracket-ends-before-it-starts:" + type(ob).__name__, tag=tag, start=a_.start.t, end=b_.start.t)
                break
    # ---- references inside one segment visit connect the copies -------------------------------------------
    # seq index of the first bar of the segment visit that contains seq index i
    def partner_index(i, ida, idb):
        """seq index of the bar holding idb in the same segment visit as bar seq[i] holding ida, or None."""
        if not case.same_segment(ida, idb):
            return None
        j = i + (case.bar_of[idb] - case.bar_of[ida])
        if 0 <= j < len(seq) and seq[j] == case.bar_of[idb] and all(seq[x + 1] == seq[x] + 1 for x in range(min(i, j), max(i, j))):
            return j
        return None

    pairs = [("tie", nt["id"], nt["tie_next"]) for nt in case.ps["notes"] if nt.get("tie_next")]
    pairs += [("grace", nt["id"], nt["grace_next"]) for nt in case.ps["notes"] if nt.get("grace_next")]
    done = set()
    for i, b in enumerate(seq):
        for (what, ida, idb) in pairs:
            if case.bar_of[ida] != b:
                continue
            j = partner_index(i, ida, idb)
            a, bb = copy_of.get((ida, i)), (copy_of.get((idb, j)) if j is not None else None)
            if a is None or j is None or bb is None:
                continue
            if what == "tie":
                if a.tie_next is not bb or bb.tie_prev is not a:
                    if ("tie",) not in done:
                        o.add("tie-inside-a-segment-not-reproduced", tag=tag, a=ida, b=idb, seq=seq)
                        done.add(("tie",))
            else:
                if a.grace_next is not bb or (isinstance(bb, S.GraceNote) and bb.grace_prev is not a):
                    if ("grace",) not in done:
                        o.add("grace-link-inside-a-segment-not-reproduced", tag=tag, a=ida, b=idb)
                        done.add(("grace",))
    # slurs and tuplet brackets
    brackets = [("slur", S.Slur, "slur_starts", "slur_stops", a, b) for (a, b) in case.ps.get("slurs", [])]
    brackets += [("tuplet", S.Tuplet, "tuplet_starts", "tuplet_stops", x[0], x[1]) for x in case.ps.get("tuplets", [])]
    reachable = {}
    for oid, (ps_, pe_, ob) in reg.items():
        if isinstance(ob, (S.Slur, S.Tuplet)):
            reachable[oid] = ob
    for ob in actual_objs:
        for attr in REF_LISTS:
            for v in getattr(ob, attr, None) or []:
                if v is not None:
                    reachable.setdefault(id(v), v)
    exp_lists = {}  # (id(note copy), attr) -> [bracket copies expected], allowed Nones
    for i, b in enumerate(seq):
        for (nm, cls, a_start, a_stop, ida, idb) in brackets:
            if case.bar_of[ida] == b:
                a = copy_of.get((ida, i))
                if a is None:
                    continue
                j = partner_index(i, ida, idb)
                bb = copy_of.get((idb, j)) if j is not None else None
                cands = [x for x in reachable.values() if type(x) is cls and x.start_note is a]
                # several brackets of one class may start at one note: pick by end note when inside
                if j is not None and bb is not None:
                    c2 = [x for x in cands if x.end_note is bb]
                else:
                    c2 = [x for x in cands if x.end_note is None or (id(x.end_note) in reg and not case.same_segment(ida, idb))] or cands
                if not cands:
                    if (nm, "missing") not in done:
                        o.add(nm + "-copy-missing", tag=tag, start=ida, end=idb, seq=seq)
                        done.add((nm, "missing"))
                    continue
                if not c2:
                    if (nm, "end") not in done:
                        o.add(nm + "-copy-end-note-wrong", tag=tag, start=ida, end=idb, seq=seq)
                        done.add((nm, "end"))
                    continue
                x = c2[0]
                r = reg.get(id(x))
                if r is None or r[0] is not a.start:
                    if (nm, "unlisted") not in done:
                        o.add(nm + "-copy-not-listed-at-its-start", tag=tag, start=ida, end=idb,
                              listed_as_ending=bool(r and r[1] is not None), attr_start=None if x.start is None else x.start.t)
                        done.add((nm, "unlisted"))
                if j is not None and bb is not None and (r is None or r[1] is not bb.end):
                    if (nm, "unlisted-end") not in done:
                        o.add(nm + "-copy-not-listed-at-its-end", tag=tag, start=ida, end=idb)
                        done.add((nm, "unlisted-end"))
                exp_lists.setdefault((id(a), a_start), [a, [], 0])[1].append(id(x))
                if j is not None and bb is not None:
                    exp_lists.setdefault((id(bb), a_stop), [bb, [], 0])[1].append(id(x))
                else:
                    exp_lists.setdefault((id(a), a_start), [a, [], 0])
    # every note copy: its four lists hold exactly the expected bracket copies (plus, for brackets that
    # cross a segment boundary, None or a bracket of the copy)
    crossing_notes = set()
    for (nm, cls, a_start, a_stop, ida, idb) in brackets:
        if not case.same_segment(ida, idb):
            crossing_notes.add((ida, a_start))
            crossing_notes.add((idb, a_stop))
    for (rawid, i), ob in sorted(copy_of.items(), key=lambda kv: (kv[0][1], kv[0][0])):
        for attr in REF_LISTS:
            lst = getattr(ob, attr, None)
            if lst is None:
                continue
            want = sorted((exp_lists.get((id(ob), attr)) or [None, [], 0])[1])
            got = sorted(id(v) for v in lst if v is not None)
            nones = sum(1 for v in lst if v is None)
            if (rawid, attr) in crossing_notes:
                # crossing brackets: their copies may or may not be attached
                ok = all(w in got for w in want) and len(set(got)) == len(got)
            else:
                ok = got == want and nones == 0
            if not ok and ("lists",) not in done:
                o.add("note-slur-tuplet-list-corrupt", tag=tag, id=rawid, attr=attr, n_expected=len(want), n_got=len(got), nones=nones,
                      duplicates=len(got) - len(set(got)))
                done.add(("lists",))
    return seq


# ----------------------------------------------------------------------------------------------
# calling the code under test
# ----------------------------------------------------------------------------------------------
WATCHDOG_S = 30


class NotFinished(BaseException):
    """Raised by the watchdog: protects the run against a non-terminating path enumeration
    (cases are sized so that a call takes milliseconds; see gen/c09_repeats.estimate_paths)."""


class watchdog(object):
    def __enter__(self):
        def handler(signum, frame):
            raise NotFinished()

        self.old = signal.signal(signal.SIGALRM, handler)
        signal.setitimer(signal.ITIMER_REAL, WATCHDOG_S, 0.5)

    def __exit__(self, *a):
        signal.setitimer(signal.ITIMER_REAL, 0)
        signal.signal(signal.SIGALRM, self.old)
        return False


def path_to_bars(case, path):
    bars = []
    tindex = {t: i for i, t in enumerate(case.bt)}
    for sid in path.path:
        sg = path.segments[sid]
        a, b = tindex.get(sg.start.t), tindex.get(sg.end.t)
        if a is None or b is None:
            return None
        bars.extend(range(a, b))
    return bars


def run_policy(o, case, spec, part):
    """Return list of (tag, new part, expect, path_bars)."""
    pol = spec["policy"]
    uid = bool(spec["update_ids"])
    il = bool(spec["ignore_leaps"])
    exact = case.only_repeats
    emax = R.expected_maximal(spec["structure"]) if exact else None
    emin = R.expected_minimal(spec["structure"]) if exact else None
    out = []
    if pol in ("maximal", "minimal"):
        e_, u_ = (emax, uid) if pol == "maximal" else (emin, False)
        if spec.get("as_score"):
            # (generator audit) a Score of one part, or of two parts holding the same material
            plist = [part]
            if spec.get("score_parts") == 2:
                plist.append(GR.build_case_part(spec, pid="P2")[0])
            sc = S.Score(partlist=list(plist), id="sc")
            res = call(S.unfold_part_maximal, sc, uid, il) if pol == "maximal" else call(S.unfold_part_minimal, sc)
            if res is sc or len(sc.parts) != len(plist) or any(a is not b for a, b in zip(sc.parts, plist)):
                o.add("original-score-modified", policy=pol)
            if not isinstance(res, S.Score) or len(res.parts) != len(plist):
                o.add("unfolded-score-has-other-number-of-parts", policy=pol, got=len(res.parts) if isinstance(res, S.Score) else type(res).__name__)
                out.append((pol, res, e_, None, u_))
            else:
                for i, np_ in enumerate(res.parts):
                    if any(np_ is x for x in plist):
                        o.add("unfolded-score-holds-an-original-part", policy=pol, index=i)
                    out.append((pol if i == 0 else pol + "#part2", np_, e_, None, u_))
        else:
            new = call(S.unfold_part_maximal, part, uid, il) if pol == "maximal" else call(S.unfold_part_minimal, part)
            out.append((pol, new, e_, None, u_))
    elif pol == "alignment":
        # (generator audit) unfold_part_alignment: the variant that covers the score ids of an alignment best; the
        # alignment names every note of the maximal unfolding (second visits included) plus an insertion
        want = emax if emax is not None else None
        seq_for_ids = want if want is not None else R.expected_minimal(spec["structure"])
        visit, al = {}, []
        for b in seq_for_ids:
            visit[b] = visit.get(b, 0) + 1
            for nt in case.notes_by_bar[b]:
                if nt["kind"] in ("note", "grace") and not nt.get("tie_prev"):
                    al.append({"label": "match" if len(al) % 3 else "deletion", "score_id": "%s-%d" % (nt["id"], visit[b])})
        # the maximal unfolding is the only variant that holds all these ids if every bar contributes an id (a bar
        # whose only notes continue a tie adds nothing: then a shorter variant covers the alignment equally well)
        every_bar_named = all(any(nt["kind"] in ("note", "grace") and not nt.get("tie_prev") for nt in case.notes_by_bar[b]) for b in set(seq_for_ids))
        named = [x["score_id"] for x in al]
        al.append({"label": "insertion", "performance_id": "extra"})
        if not named:
            # a part without a single pitched note: there is nothing an alignment could name (the coverage is undefined)
            o.excluded.append("alignment-without-score-notes")
            new = call(S.unfold_part_maximal, part, True, il)
        else:
            new = call(S.unfold_part_alignment, part, al)
        if isinstance(new, S.Part) and want is not None and not case.marks:
            have = set(n_.id for n_ in new.iter_all(S.Note, include_subclasses=True))
            lost = [x for x in named if x not in have]
            if lost:
                o.add("alignment-unfolding-lacks-aligned-notes", missing=lost[:5], n=len(lost))
        out.append(("alignment", new, want if (named and every_bar_named) else None, None, True))
    elif pol == "all_iter":
        parts = call(lambda: list(itertools.islice(S.iter_unfolded_parts(part, update_ids=uid), MAX_VARIANTS_CHECKED)))
        for i, p in enumerate(parts):
            out.append(("variant#%d" % i, p, None, None, uid))
    elif pol == "all_variants":
        svs = call(S.make_score_variants, part)
        for i, sv in enumerate(svs[:MAX_VARIANTS_CHECKED]):
            p = call(sv.create_variant_part)
            if uid:
                call(update_note_ids_after_unfolding, p)
            st_ = call(lambda: sv.segment_times)
            if [x[2] for x in st_] != [sum(e - s for (s, e, _) in st_[:k]) for k in range(len(st_))]:
                o.add("score-variant-offsets-not-cumulative", times=[list(x) for x in st_])
            out.append(("variant#%d" % i, p, None, None, uid))
    elif pol in ("paths_max", "paths_min", "paths_min_both", "paths_all"):
        if pol == "paths_max":
            paths = call(S.get_paths, part, False, True, il)
            exp = emax
        elif pol == "paths_min":
            paths = call(S.get_paths, part, True, False, il)
            exp = emin
        elif pol == "paths_min_both":
            # (generator audit) both flags: no_repeats is documented to win over all_repeats
            paths = call(S.get_paths, part, True, True, il)
            exp = emin
        else:
            paths = call(S.get_paths, part, False, False, il)
            exp = None
        if not paths:
            o.add("get-paths-returned-nothing", policy=pol)
        if pol != "paths_all" and len(paths) > 1:
            o.add("single-path-policy-returned-several-paths", policy=pol, n=len(paths))
        for i, pth in enumerate(paths[:MAX_VARIANTS_CHECKED]):
            pb = path_to_bars(case, pth)
            if pb is None:
                o.add("path-segment-not-on-bar-lines", policy=pol)
                continue
            p = call(S.new_part_from_path, pth, part, uid)
            out.append(("%s#%d" % (pol.replace("_", "-"), i) if pol == "paths_all" else pol.replace("paths_", "path-"), p, exp, pb, uid))
    else:
        raise ValueError(pol)
    return out


def classify(o, case, spec):
    st_ = spec["structure"]
    lay = case.lay

    def walk(nodes, depth):
        for nd in nodes:
            yield nd, depth
            if nd["k"] != "plain":
                yield from walk(nd["body"], depth + 1)

    nodes = list(walk(lay["tree"], 0))
    nrep = sum(1 for nd, _ in nodes if nd["k"] == "rep")
    nvol = sum(1 for nd, _ in nodes if nd["k"] == "volta")
    o.cls("volta", nvol > 0)
    o.cls("volta-starting-at-bar-1", any(nd["k"] == "volta" and nd["a"] == 0 for nd, _ in nodes))
    o.cls("repeat-starting-at-bar-1", any(nd["k"] == "rep" and nd["a"] == 0 for nd, _ in nodes))
    o.cls("three-or-more-endings", any(nd["k"] == "volta" and len(nd["endings"]) >= 3 for nd, _ in nodes))
    o.cls("comma-separated-ending-numbers", any(nd["k"] == "volta" and any(len(e["nums"]) > 1 for e in nd["endings"]) for nd, _ in nodes))
    o.cls("nested", any(d > 0 and nd["k"] != "plain" for nd, d in nodes))
    o.cls("adjacent-repeats", any(a["k"] != "plain" and b["k"] != "plain" for a, b in zip(lay["tree"], lay["tree"][1:])))
    o.cls("navigation-marks", bool(case.marks))
    o.cls("marks:" + spec.get("marks_mode", "none"), bool(case.marks))
    ps = case.ps
    ties = [(nt["id"], nt["tie_next"]) for nt in ps["notes"] if nt.get("tie_next")]
    o.cls("tie-across-segment-boundary", any(not case.same_segment(a, b) for a, b in ties))
    o.cls("tie-inside-segment", any(case.same_segment(a, b) for a, b in ties))
    o.cls("slur-across-segment-boundary", any(not case.same_segment(a, b) for a, b in ps.get("slurs", [])))
    o.cls("slur-inside-segment", any(case.same_segment(a, b) for a, b in ps.get("slurs", [])))
    o.cls("tuplet-across-segment-boundary", any(not case.same_segment(x[0], x[1]) for x in ps.get("tuplets", [])))
    o.cls("tuplet-inside-segment", any(case.same_segment(x[0], x[1]) for x in ps.get("tuplets", [])))
    o.cls("grace-chain", any(nt["kind"] == "grace" for nt in ps["notes"]))
    inside = set()
    for s, e in lay["repeats"]:
        inside.update(range(s + 1, e))
    o.cls("division-change-inside-repeat", any(t in [case.bt[k] for k in inside] for t, _ in ps["divs"][1:]))
    o.cls("division-change", len(ps["divs"]) > 1)
    o.cls("signature-change-inside-repeat", any(t in [case.bt[k] for k in inside] for t, _, _ in ps["timesigs"][1:]))
    o.cls("policy:" + spec["policy"])
    o.cls("update-ids", bool(spec["update_ids"]))
    o.cls("score-argument", bool(spec.get("as_score")) and spec["policy"] in ("maximal", "minimal"))
    # ---- generator audit (docs/audit/C09.md)
    o.cls("score-of-two-parts", bool(spec.get("as_score")) and spec["policy"] in ("maximal", "minimal") and spec.get("score_parts") == 2)
    o.cls("ending-number-int", bool(spec.get("ending_ints")) and any(str(num).isdigit() for num, _, _ in lay["endings"]))
    o.cls("pickup-bar", ps.get("pickup") is not None)
    o.cls("nesting-depth-3", any(d >= 2 and nd["k"] != "plain" for nd, d in nodes))
    o.cls("more-than-26-segments", len(R.boundaries(lay, case.marks)) > 27)
    o.cls("staff-none-or-unpitched", any(nt.get("staff") is None or nt["kind"] == "unpitched" for nt in ps["notes"]))
    o.cls("signatures-clefs-tempo-on-bar-lines", bool(ps.get("keysigs") or ps.get("clefs") or ps.get("tempos")))
    bounds = set(case.bt[k] for k in R.boundaries(lay, case.marks))
    o.cls("direction-or-page-over-segment-boundary", any(any(t0 < b < t1 for b in bounds) for _, t0, t1 in ps.get("spans", [])))
    return nrep, nvol


def oracle(spec):
    o = Outcome()
    case = Case(spec)
    nrep, nvol = classify(o, case, spec)
    o.nontrivial = nvol >= 1 or (nrep + nvol) >= 2 or bool(case.marks)
    part, objs = GR.build_case_part(spec)
    before, keep = snapshot(part)
    try:
        with watchdog():
            results = run_policy(o, case, spec, part)
    except NotFinished:
        o.add("unfolding-did-not-finish-within-%ds" % WATCHDOG_S, policy=spec["policy"])
        return o
    except SutRaised as e:
        o.add(e.kind, text=e.text, policy=spec["policy"])
        o.cls("sut-raised")
        return o
    finally:
        after, keep2 = snapshot(part)
        where = spec["policy"] + ("(Score)" if spec.get("as_score") and spec["policy"] in ("maximal", "minimal") else "")
        compare_snapshots(o, before, after, where)
    o.cls("several-variants", len(results) > 1)
    if not results:
        o.add("no-unfolding-returned", policy=spec["policy"])
    for (tag, new, expect, pb, uid) in results[:MAX_VARIANTS_CHECKED]:
        check_unfolded(o, case, new, uid, tag, expect=expect, path_bars=pb)
    return o


# ----------------------------------------------------------------------------------------------
# 2^r variants for r independent simple repeats
# ----------------------------------------------------------------------------------------------
def oracle_variants(spec):
    o = Outcome()
    case = Case(spec)
    st_ = spec["structure"]
    r = sum(1 for s in st_ if s["k"] == "rep")
    o.nontrivial = r >= 2
    o.cls("r=%d" % r)
    o.cls("policy:" + spec["policy"])
    part, _ = GR.build_case_part(spec)
    uid = bool(spec["update_ids"])
    if spec["policy"] == "all_iter":
        parts = call(lambda: list(S.iter_unfolded_parts(part, update_ids=uid)))
    else:
        svs = call(S.make_score_variants, part)
        parts = [call(sv.create_variant_part) for sv in svs]
        if uid:
            for p in parts:
                call(update_note_ids_after_unfolding, p)
    seqs = []
    for i, p in enumerate(parts):
        sq = check_unfolded(o, case, p, uid, "variant#%d" % i)
        if sq is None:
            return o
        seqs.append(tuple(sq))
    exp = R.expected_variants_simple(st_)
    if len(parts) != 2 ** r:
        o.add("number-of-variants-is-not-2^r", r=r, got=len(parts), seqs=[list(s) for s in seqs][:8])
    if len(set(seqs)) != len(seqs):
        o.add("variants-not-pairwise-different", r=r, seqs=[list(s) for s in seqs][:8])
    if set(seqs) != set(exp):
        miss = [list(s) for s in sorted(set(exp) - set(seqs))][:4]
        o.add("variant-set-differs-from-all-subsets-of-repeats", r=r, missing=miss, all_repeats_present=tuple(R.expected_maximal(st_)) in set(seqs),
              no_repeats_present=tuple(R.expected_minimal(st_)) in set(seqs))
    return o


# ----------------------------------------------------------------------------------------------
# a part without repeat structure unfolds to an equal part
# ----------------------------------------------------------------------------------------------
EQ_PROFILE = G.profile(max_bars=4, max_voices=2, max_staves=2, midbar_changes=False, irregular=False)


@st.composite
def _eq_case(draw, tier):
    prof = dict(EQ_PROFILE)
    if tier == "thorough":
        prof["max_bars"] = 6
    ps = draw(G.part_spec(prof))
    # slurs between notes of one voice
    slurs = []
    for v in sorted(set(n["voice"] for n in ps["notes"])):
        pitched = [n for n in ps["notes"] if n["voice"] == v and n["kind"] == "note"]
        if len(pitched) >= 2:
            for _ in range(draw(st.integers(0, 2))):
                i = draw(st.integers(0, len(pitched) - 2))
                j = min(len(pitched) - 1, i + draw(st.integers(1, 3)))
                if pitched[j]["t"] > pitched[i]["t"] and [pitched[i]["id"], pitched[j]["id"]] not in slurs:
                    slurs.append([pitched[i]["id"], pitched[j]["id"]])
    ps["slurs"] = slurs
    ps["abbr"] = draw(st.sampled_from([None, None, "Pno."]))
    return {
        "part": ps,
        "policy": draw(st.sampled_from(["maximal", "minimal", "all_iter", "all_variants"])),
        "update_ids": draw(st.booleans()),
        "ignore_leaps": draw(st.booleans()),
        "as_score": draw(st.integers(0, 4)) == 0,
    }


def _dedupe(rows, key):
    out = []
    last = {}
    for r in rows:
        k, v = key(r)
        if last.get(k) == v:
            continue
        last[k] = v
        out.append(r)
    return out


def semantic(part, strip_suffix):
    """What 'an equal part' compares: see DESIGN 3.2 (semantic fingerprint)."""

    def nid(ob):
        if ob is None:
            return None
        i = ob.id
        if strip_suffix and isinstance(ob, S.Note) and isinstance(i, str) and i.endswith("-1"):
            return i[:-2]
        return i

    fp = {}
    fp["meta"] = (part.id, part.part_name)
    fp["abbreviation"] = part.part_abbreviation
    qd = [(int(t), int(q)) for t, q in part.quarter_durations()]
    fp["divisions"] = _dedupe(qd, lambda r: (0, r[1]))
    fp["measures"] = sorted((m.start.t, m.end.t if m.end else None, m.number, m.name) for m in part.iter_all(S.Measure))
    fp["timesigs"] = _dedupe(sorted((x.start.t, x.beats, x.beat_type) for x in part.iter_all(S.TimeSignature)), lambda r: (0, r[1:]))
    fp["keysigs"] = _dedupe(sorted(((x.start.t, x.fifths, x.mode) for x in part.iter_all(S.KeySignature)), key=lambda r: (r[0], r[1], str(r[2]))), lambda r: (0, r[1:]))
    fp["clefs"] = _dedupe(sorted(((x.start.t, x.staff, x.sign, x.line, x.octave_change) for x in part.iter_all(S.Clef)), key=lambda r: (r[0], r[1], str(r[2:]))), lambda r: (r[1], r[2:]))
    notes = []
    for ob in part.iter_all(S.GenericNote, include_subclasses=True):
        notes.append((ob.start.t, ob.end.t if ob.end else None, _kind_of(ob), str(nid(ob)), getattr(ob, "step", None), getattr(ob, "alter", None) or 0,
                      getattr(ob, "octave", None), ob.voice, ob.staff, repr(sorted((ob.symbolic_duration or {}).items())),
                      getattr(ob, "grace_type", None), nid(ob.tie_prev), nid(ob.tie_next), nid(getattr(ob, "grace_next", None)), nid(getattr(ob, "grace_prev", None))))
    fp["notes"] = sorted(notes, key=repr)
    for nm, cls in (("slurs", S.Slur), ("tuplets", S.Tuplet)):
        rows = []
        for x in part.iter_all(cls):
            rows.append((x.start.t if x.start else None, x.end.t if x.end else None, nid(x.start_note), nid(x.end_note),
                         getattr(x, "actual_notes", None), getattr(x, "normal_notes", None), getattr(x, "actual_type", None)))
        fp[nm] = sorted(rows, key=repr)
        rows = []
        for x in part.iter_all(cls, mode="ending"):
            rows.append((x.end.t if x.end else None, nid(x.start_note), nid(x.end_note)))
        fp[nm + "-ending"] = sorted(rows, key=repr)
    return fp


def oracle_equal(spec):
    o = Outcome()
    ps = spec["part"]
    o.nontrivial = len(ps["notes"]) >= 4 and (bool(ps.get("tuplets")) or bool(ps.get("slurs")) or any(n.get("tie_next") for n in ps["notes"]))
    o.cls("with-slur", bool(ps.get("slurs")))
    o.cls("with-tuplet", bool(ps.get("tuplets")))
    o.cls("with-tie", any(n.get("tie_next") for n in ps["notes"]))
    o.cls("with-grace", any(n["kind"] == "grace" for n in ps["notes"]))
    o.cls("division-change", len(ps["divs"]) > 1)
    o.cls("policy:" + spec["policy"])

    def mk():
        p, _ = build_part(ps)
        if ps.get("abbr"):
            p.part_abbreviation = ps["abbr"]
        return p

    reference = semantic(mk(), False)
    part = mk()
    before, keep = snapshot(part)
    pol = spec["policy"]
    uid = bool(spec["update_ids"])
    try:
        if pol in ("maximal", "minimal"):
            arg = S.Score(partlist=[part], id="sc") if spec.get("as_score") else part
            res = call(S.unfold_part_maximal, arg, uid, bool(spec["ignore_leaps"])) if pol == "maximal" else call(S.unfold_part_minimal, arg)
            if pol == "minimal":
                uid = False
            news = [res.parts[0] if isinstance(res, S.Score) else res]
        elif pol == "all_iter":
            news = call(lambda: list(S.iter_unfolded_parts(part, update_ids=uid)))
        else:
            svs = call(S.make_score_variants, part)
            news = [call(sv.create_variant_part) for sv in svs]
            if uid:
                for p in news:
                    call(update_note_ids_after_unfolding, p)
    finally:
        after, keep2 = snapshot(part)
        compare_snapshots(o, before, after, pol + ("(Score)" if spec.get("as_score") and pol in ("maximal", "minimal") else ""))
    if len(news) != 1:
        o.add("part-without-repeats-has-not-exactly-one-unfolding", n=len(news))
    for new in news[:2]:
        got = semantic(new, uid)
        for k in sorted(reference):
            if got[k] != reference[k]:
                a, b = reference[k], got[k]
                if isinstance(a, list):
                    only_a = [x for x in a if x not in b][:3]
                    only_b = [x for x in b if x not in a][:3]
                else:
                    only_a, only_b = a, b
                o.add("unfolding-without-repeats-not-equal:" + k, original=only_a, unfolded=only_b)
        if uid:
            bad = [ob.id for ob in new.iter_all(S.Note, include_subclasses=True) if not (isinstance(ob.id, str) and ob.id.endswith("-1"))]
            if bad:
                o.add("note-id-wrong-after-unfolding", ids=bad[:4])
    return o


# ----------------------------------------------------------------------------------------------
# strategies
# ----------------------------------------------------------------------------------------------
def strat_repeats(tier):
    return GR.case(kinds=("plain", "rep", "volta", "nested", "long-chain"), marks_modes=("none",),
                   policies=("maximal", "maximal", "minimal", "all_iter", "all_variants", "paths_max", "paths_min", "paths_all", "alignment", "alignment", "paths_min_both"),
                   max_sections=4 if tier == "quick" else 5)


def strat_navigation(tier):
    return GR.case(kinds=("plain", "plain", "rep", "volta", "nested"),
                   marks_modes=("dc_al_fine", "ds_al_fine", "dc_al_coda", "ds_al_coda", "ds_al_coda", "arbitrary", "arbitrary", "arbitrary", "inert_inside", "inert_inside"),
                   policies=("maximal", "maximal", "minimal", "all_iter", "all_variants", "paths_max", "paths_min", "paths_all", "alignment", "alignment", "paths_min_both"),
                   max_sections=4)


def strat_variants(tier):
    return GR.case(kinds=("plain", "rep", "rep"), marks_modes=("none",), policies=("all_iter", "all_variants"), rich=False,
                   min_sections=1, max_sections=6 if tier == "quick" else 7)


# ----------------------------------------------------------------------------------------------
# known findings: narrow predicates (discrepancy kind AND triggering input condition)
# ----------------------------------------------------------------------------------------------
MULTI = ("all_iter", "all_variants", "paths_all")
LEAP_START = ("ToCoda", "DalSegno", "DaCapo")
LEAP_END = ("Segno", "Coda")


def _has(spec, what):
    return bool(spec["part"].get(what))


def _crossing_brackets(spec):
    case = Case(spec)
    return [x for x in list(spec["part"].get("slurs", [])) + [t[:2] for t in spec["part"].get("tuplets", [])] if not case.same_segment(x[0], x[1])]


def _leap_model(spec):
    """Which segments the implementation labels as leap origin / leap destination: a segment has ONE
    type field; a segment that starts at a segno/coda and ends at a to-coda/dal-segno/da-capo mark keeps
    only 'leap_start', the first segment keeps only 'leap_end'."""
    case = Case(spec)
    bs = R.boundaries(case.lay, case.marks)
    at = {}
    for c, k in case.marks:
        at.setdefault(k, set()).add(c)
    typ = {}
    for a, b in zip(bs, bs[1:]):
        t = "default"
        if a == 0 or (at.get(a, set()) & set(LEAP_END)):
            t = "leap_end"
        if at.get(b, set()) & set(LEAP_START):
            t = "leap_start"
        if a == 0:
            t = "leap_end"
        typ[a] = (t, b)
    return case, bs, at, typ


def _unrecognised_real_leap(spec):
    """A da capo / dal segno whose jump is not recognised as a leap (origin or destination lost its label)."""
    case, bs, at, typ = _leap_model(spec)
    segno = [k for k in at if "Segno" in at[k]]
    for a, (t, b) in typ.items():
        marks = at.get(b, set())
        dests = ([0] if "DaCapo" in marks else []) + (segno[:1] if "DalSegno" in marks else [])
        for d in dests:
            if d not in typ:
                continue
            if t != "leap_start" or typ[d][0] != "leap_end":
                return True
    return False


def _false_leap_edge(spec):
    """A repeat / ending / plain-succession edge from a segment labelled leap origin to one labelled leap
    destination: taken for a da capo / dal segno although none was taken."""
    case, bs, at, typ = _leap_model(spec)
    edges = []
    for s, e in case.lay["repeats"]:
        edges.append((e, s))
    for v in case.lay["voltas"]:
        for en in v["endings"]:
            edges.append((v["body_end"], en["a"]))
            edges.append((en["b"], v["a"]))
        edges.append((v["endings"][0]["b"], v["b"]))
    for k in bs[1:-1]:
        edges.append((k, k))
    start_of = {b: a for a, (t, b) in typ.items()}
    for k, d in edges:
        a = start_of.get(k)
        if a is None or d not in typ:
            continue
        if typ[a][0] == "leap_start" and typ[d][0] == "leap_end":
            real = ("DaCapo" in at.get(k, set()) and d == 0) or ("DalSegno" in at.get(k, set()) and "Segno" in at.get(d, set()))
            if not real:
                return True
    return False


def _ending_split(spec):
    """A mark stands on a bar line strictly inside an ending bracket."""
    lay = R.layout(spec["structure"])
    return any(s < int(k) < e for _, k in spec["marks"] for _, s, e in lay["endings"])


def _mark_between_endings(spec):
    """A mark stands on the bar line where one ending stops and the next one starts."""
    lay = R.layout(spec["structure"])
    junctions = set()
    for v in lay["voltas"]:
        for e in v["endings"][:-1]:
            junctions.add(e["b"])
    return any(int(k) in junctions for _, k in spec["marks"])


def _real_jump_mark(spec):
    return any(c in ("DaCapo", "DalSegno") for c, _ in spec["marks"])


PREMATURE = ("invalid-path:path-stops-at-fine-before-any-da-capo-or-dal-segno", "invalid-path:to-coda-jump-taken-before-any-da-capo-or-dal-segno")
ENDLESS = ("sut-raised:IndexError@score.py:list_of_destinations_from_last_segment", "sut-raised:RecursionError@score.py")

KNOWN = {
    "segments-left-in-argument": lambda spec, d: d.kind == "original-gained-segment-objects" and not str(d["detail"].get("where", "")).endswith("(Score)"),
    "slur-copy-unregistered-at-start": lambda spec, d: _has(spec, "slurs") and d.kind in ("slur-copy-not-listed-at-its-start", "unfolding-without-repeats-not-equal:slurs"),
    "tuplet-copy-start-end-cleared": lambda spec, d: _has(spec, "tuplets") and d.kind in ("listed-object-start-end-attribute-wrong:Tuplet", "unfolding-without-repeats-not-equal:tuplets", "unfolding-without-repeats-not-equal:tuplets-ending"),
    "shallow-copy-shares-note-bracket-lists": lambda spec, d: (_has(spec, "slurs") or _has(spec, "tuplets")) and d.kind in ("note-slur-tuplet-list-corrupt", "original-modified:note-slur-tuplet-lists"),
    "crossing-bracket-sticks-out": lambda spec, d: d.kind == "length-is-not-sum-of-visited-segments" and "structure" in spec and bool(_crossing_brackets(spec)) and (d["detail"].get("last") or 0) > d["detail"].get("expected", 0),
    "divisions-not-restored-after-jump": lambda spec, d: d.kind == "divisions-in-force-differ-for-copied-note" and len(spec["part"]["divs"]) > 1 and bool(d["detail"].get("explained_by_carry_over")),
    "part-abbreviation-not-copied": lambda spec, d: d.kind == "unfolding-without-repeats-not-equal:abbreviation" and bool(spec["part"].get("abbr")),
    "clef-octave-change-ignored-when-dropping-repeated-clefs": lambda spec, d: d.kind == "unfolding-without-repeats-not-equal:clefs" and any(
        a[1:4] == b[1:4] and a[4] != b[4] for a in spec["part"]["clefs"] for b in spec["part"]["clefs"]),
    "leap-labels-lost-endless-enumeration": lambda spec, d: d.kind.startswith(ENDLESS) and "structure" in spec and spec["policy"] not in ("maximal", "paths_max") and _unrecognised_real_leap(spec),
    "ending-split-by-mark-has-no-destination": lambda spec, d: (d.kind.startswith(ENDLESS) or d.kind in ("no-unfolding-returned", "get-paths-returned-nothing") or d.kind.startswith("wrong-bar-sequence:")
                                                               or d.kind.startswith("invalid-path:")) and "structure" in spec and _ending_split(spec),
    "mark-between-endings-adds-fall-through": lambda spec, d: d.kind.startswith("wrong-bar-sequence:") and "structure" in spec and _mark_between_endings(spec),
    "repeat-or-succession-taken-for-leap": lambda spec, d: (d.kind in PREMATURE or d.kind == ENDLESS[0] or d.kind.startswith("wrong-bar-sequence:")) and "structure" in spec and _false_leap_edge(spec),
    # (generator audit) Ending.number is documented as int; add_segments calls .split(",") on it
    "int-ending-number-raises": lambda spec, d: d.kind == "sut-raised:AttributeError@score.py:add_segments" and bool(spec.get("ending_ints")) and "structure" in spec
    and any(str(num).isdigit() for num, _, _ in R.layout(spec["structure"])["endings"]) and "'int' object has no attribute 'split'" in str(d["detail"].get("text", "")),
    "jump-rewrites-shared-segments": lambda spec, d: (d.kind in PREMATURE or d.kind == ENDLESS[0]) and spec["policy"] in MULTI and (_real_jump_mark(spec) or _false_leap_edge(spec)),
}


SUBCHECKS = [
    SubCheck(
        "repeats_and_endings",
        oracle,
        strategy=strat_repeats,
        budget={"quick": 100, "thorough": 2000},
        known=KNOWN,
        rule="structures drawn from the grammar plain | simple repeat | repeat with endings ([1][2], [1,2][3], [1][2][3], [1][2,3], [1,2,3][4]) | nested repeat, (nesting up to depth 3, chains of 14-20 repeats = more than 26 segments, pickup bar, int or str ending numbers, staff None / unpitched notes, signatures / clefs / tempo marks on bar lines, directions, pedals, pages and systems over segment boundaries) x policy (maximal, minimal, iter_unfolded_parts, make_score_variants, get_paths (also with both flags) + new_part_from_path, unfold_part_alignment) x update_ids x ignore_leaps x Part / Score of one or two parts; exact maximal/minimal bar sequence from the independent interpreter; non-trivial = >= 1 repeat with endings or >= 2 repeats",
        floors={"volta-starting-at-bar-1": 0.02, "three-or-more-endings": 0.03, "tie-across-segment-boundary": 0.05, "nested": 0.05,
                # generator audit (docs/audit/C09.md); a quarter of the smallest share seen over seven seeds
                "ending-number-int": 0.015, "pickup-bar": 0.04, "more-than-26-segments": 0.02, "nesting-depth-3": 0.015, "policy:alignment": 0.007,
                "policy:paths_min_both": 0.006, "score-of-two-parts": 0.004, "direction-or-page-over-segment-boundary": 0.08,
                "staff-none-or-unpitched": 0.06, "signatures-clefs-tempo-on-bar-lines": 0.12},
    ),
    SubCheck(
        "navigation_marks",
        oracle,
        strategy=strat_navigation,
        budget={"quick": 100, "thorough": 2000},
        known=KNOWN,
        rule="the same grammar plus da capo / fine / segno / dal segno / coda / to coda on bar lines, textbook arrangements (D.C. al fine, D.S. al fine, D.C. al coda, D.S. al coda) and arbitrary positions; permissive path predicate and all structural claims; non-trivial = every case (a navigation mark is present)",
        floors={"marks:arbitrary": 0.1, "marks:ds_al_coda": 0.05, "marks:inert_inside": 0.05, "pickup-bar": 0.04, "direction-or-page-over-segment-boundary": 0.08},
    ),
    SubCheck(
        "two_to_the_r_variants",
        oracle_variants,
        strategy=strat_variants,
        budget={"quick": 25, "thorough": 600},
        known=KNOWN,
        rule="r = 0..4+ independent simple repeats; iter_unfolded_parts / make_score_variants must give exactly 2^r pairwise different variants = all subsets of repeats taken; non-trivial = r >= 2",
    ),
    SubCheck(
        "no_repeats_equal_part",
        oracle_equal,
        strategy=lambda tier: _eq_case(tier),
        budget={"quick": 50, "thorough": 1500},
        known=KNOWN,
        rule="parts from the shared score generator (division/signature/clef changes, voices, chords, ties, tuplets, grace notes, added slurs) without any repeat structure; the unfolding must have an equal semantic fingerprint and the original must be untouched; non-trivial = >= 4 notes and a tie, tuplet or slur",
    ),
]
