"""C06 - performance MIDI export and import preserve notes, controls and timing.

Two sub-checks.

``roundtrip``  A generated performance (Performance / single PerformedPart / list of
PerformedParts) is saved with ``save_performance_midi`` and loaded back.  Three
views are compared:

  E  what the spec says must be in the file: every time t becomes the tick nearest to
     10^6*ppq*t/mpq (exact Fraction arithmetic; a value within 1e-9 of .5 accepts
     either neighbour), one set_tempo(mpq) at tick 0, default program 0 per used
     (channel, track) for parts without programs;
  F  what the written file contains, read by the independent interpreter
     ``pbt/ref/c06_midiinterp.py`` (mido message iteration + Fractions);
  L  what ``load_performance_midi`` / ``load_performance`` return.

  E != F is reported as ``export:*``, F != L as ``import:*``.

``midifile``  A literal MIDI file (generated message lists, set_tempo anywhere in any
track at distinct ticks, zero-velocity note-ons as offs, controls, programs, meta and
ignorable channel messages) is written with mido and loaded; F vs L as above.
"""

import contextlib
import io
import json
import math
import os
import pathlib
import tempfile
from collections import Counter
from fractions import Fraction

import mido
import numpy as np

import partitura
from partitura.io.exportmidi import save_performance_midi
from partitura.io.importmidi import load_performance_midi
from partitura.performance import Performance, PerformedNote, PerformedPart

from pbt.core import Outcome, SubCheck, SutRaised, call
from pbt.gen import c06_perf as G
from pbt.ref import c06_midiinterp as R

PROPERTY = "C06"
ENGINES = ["hypothesis"]
ASSUMPTIONS = [
    "round trip: every track of the saved performance holds a note, a control or a program (a track with meta events only is not turned into a performed part by the loader); track numbers may have gaps: the tracks are written in increasing order of their numbers and come back numbered 0..k-1 in that order",
    "absent keys: a note without velocity / channel / track and a control without channel / track count with the documented defaults velocity 60, channel 1, track 0",
    "parts built with PerformedPart.from_note_array carry single-precision times: the original time is the float32 value, rounded to the nearest tick like any other time",
    "load_performance(first_note_at_zero=True): judged for the first performed part when it has a note (notes, programs and controls at or after the first onset shifted by it, one control per stream allowed at time 0 carrying the value in force, signatures and other meta events not moved); seconds of later parts, control streams with two events on one tick and first parts without notes are not judged",
    "a loaded performance saved again with the ppq / mpq of the file must give a file with the same notes, controls, signatures and meta events per track (programs: a part without programs gains program 0 per used channel)",
    "notes of one (track, channel, pitch) - of one (channel, pitch) when tracks are merged on either side - never overlap in ticks whatever way a .5 tie is rounded; touching is allowed",
    "a tick value within 1e-9*(1+x) of k+.5 accepts k and k+1",
    "loaded seconds are compared with relative tolerance 1e-9",
    "events of equal time are compared as multisets per track; the end_of_track message mido appends is ignored",
    "default program 0 messages for parts without programs: (track, channel, program) checked, time not checked",
    "midifile: no set_tempo events of different tracks at the same tick (several on one tick of one track are ordered: the last is in force); no dangling note-on, no off without on (outside the stated domain); default_bpm values divide 6*10^7",
    "midifile: loaded track numbers must be unique per file track and increase with the file's track order (both compaction and the file index are accepted); round trip: equal to the saved track number",
]

MILLION = 10 ** 6
HALF = Fraction(1, 2)
# documented defaults of a performed note / of the exporter for absent keys
DEF_TRACK, DEF_CHANNEL, DEF_VELOCITY = 0, 1, 60


# ---------------------------------------------------------------------------
# helpers
# ---------------------------------------------------------------------------


def tick_range(t, ppq, mpq, single_precision=False):
    """(lo, hi, near_half, tie) of the rounded tick of time t (float seconds).

    ``single_precision``: t is a numpy float32 taken from a note array; the product is then computed in
    single precision (four roundings of 2^-24 each), so the tie zone is 3e-7 * (1 + x) instead of 1e-9 * (1 + x)."""
    x = Fraction(t) * MILLION * ppq / mpq
    fl = math.floor(x)
    r = x - fl
    tol = (Fraction(3, 10 ** 7) if single_precision else Fraction(1, 10 ** 9)) * (1 + abs(x))
    if single_precision and tol >= Fraction(1, 4):
        # every integer that is the rounding of some value in [x - tol, x + tol]
        lo, hi = math.ceil(x - tol - HALF), math.floor(x + tol + HALF)
        return (max(lo, 0), hi, True, True)
    if abs(r - HALF) <= tol:
        return (fl, fl + 1, True, True)
    n = fl if r < HALF else fl + 1
    return (n, n, abs(r - HALF) <= Fraction(1, 10), False)


def match_ranges(ranges, points, extra_points=0):
    """Can every (lo, hi) be assigned its own point, leaving exactly ``extra_points`` points over?"""
    if len(points) != len(ranges) + extra_points:
        return False
    pts = sorted(points)
    used = [False] * len(pts)
    for lo, hi in sorted(ranges, key=lambda r: (r[1], r[0])):
        for i, p in enumerate(pts):
            if not used[i] and lo <= p <= hi:
                used[i] = True
                break
        else:
            return False
    return True


def compare_grouped(o, kind, expected, actual, extras=None, **detail):
    """expected: [(group, (lo, hi))]; actual: [(group, tick)]; extras: {group: n points without expected tick}."""
    extras = extras or {}
    ge, ga = {}, {}
    for g, r in expected:
        ge.setdefault(g, []).append(r)
    for g, p in actual:
        ga.setdefault(g, []).append(p)
    bad = []
    for g in sorted(set(ge) | set(ga) | set(extras)):
        if not match_ranges(ge.get(g, []), ga.get(g, []), extras.get(g, 0)):
            bad.append(dict(group=g, expected_ticks=sorted(ge.get(g, [])), extra_any_tick=extras.get(g, 0), got_ticks=sorted(ga.get(g, []))))
    if bad:
        o.add(kind, differences=bad[:4], **detail)


def close(a, b):
    return abs(Fraction(float(a)) - Fraction(b)) <= Fraction(1, 10 ** 9) * (1 + abs(Fraction(b)))


def attrs_key(d):
    return json.dumps(dict((k, (list(v) if isinstance(v, (tuple, list)) else v)) for k, v in d.items()), sort_keys=True, default=repr)


def tempo_track_order_sorted(mid):
    """Are the set_tempo ticks non-decreasing when the tracks are read one after the other?"""
    ticks = []
    for evs in R.absolute_tracks(mid):
        for tick, pos, msg in evs:
            if msg.is_meta and msg.type == "set_tempo":
                ticks.append(tick)
    return ticks == sorted(ticks)


def default_mpq(bpm):
    q = Fraction(60 * MILLION) / Fraction(bpm)
    assert q.denominator == 1
    return int(q)


def load(spec, data, tmpdir, live_object=None, fnz=False):
    """Load MIDI bytes through the API / io variant named in the spec."""
    kw = dict(default_bpm=spec["default_bpm"], merge_tracks=spec["merge_load"])
    if spec["api"] == "generic" or spec["io"] == "path":
        path = os.path.join(tmpdir, "load.mid")
        with open(path, "wb") as f:
            f.write(data)
        if spec.get("path_type", "str") == "pathlib":
            path = pathlib.Path(path)
        if spec["api"] == "generic":
            gkw = dict(kw)
            if "pedal_threshold" in spec:
                gkw["pedal_threshold"] = spec["pedal_threshold"]
            if fnz:
                gkw["first_note_at_zero"] = True
            try:
                with contextlib.redirect_stdout(io.StringIO()):
                    return call(partitura.load_performance, path, **gkw)
            except SutRaised as e:
                if "NotSupportedFormatError" not in e.kind:
                    raise
                # load_performance hides the MIDI loader's exception: obtain it for the report
                call(load_performance_midi, path, **kw)
                raise
        return call(load_performance_midi, path, **kw)
    if live_object is not None:
        return call(load_performance_midi, live_object, **kw)
    return call(load_performance_midi, mido.MidiFile(file=io.BytesIO(data)), **kw)


def fnz_applies(spec, F):
    """first_note_at_zero is requested through load_performance and the first performed part has a note
    (the option is documented for the first note of the first part; a part without notes is not judged)."""
    if spec["api"] != "generic" or not spec.get("first_note_at_zero", False):
        return False
    content = [tr for tr in F["tracks"] if tr["notes"] or tr["controls"] or tr["programs"]]
    return bool(content) and bool(content[0]["notes"])


# ---------------------------------------------------------------------------
# F vs L : the file as read by the reference vs what partitura loaded
# ---------------------------------------------------------------------------


def compare_shifted_controls(o, tr, pp, file_seconds, shift):
    """Controls of the first part after first_note_at_zero (remove_silence_from_performed_part): per
    (number, channel) every control at or after the first onset is kept, shifted; at most one more control
    may appear, at time 0, and if a control lies before the first onset it carries the value then in force.
    Streams holding two controls on one tick are not judged (their order is not defined in seconds)."""
    groups_e, groups_g = {}, {}
    for (t, num, val, ch) in tr["controls"]:
        groups_e.setdefault((num, ch), []).append((t, val))
    for c in pp.controls:
        groups_g.setdefault((c["number"], c["channel"]), []).append((c["time"], c["value"]))
    if set(groups_e) != set(groups_g):
        o.add("import:first-note-at-zero-controls-differ", reason="control streams appeared or vanished", got=sorted(groups_g), expected=sorted(groups_e))
        return
    for key in sorted(groups_e):
        exp = sorted(groups_e[key])
        if len(set(t for t, _ in exp)) != len(exp):
            if "first-note-at-zero:control-stream-with-equal-ticks" not in o.excluded:
                o.excluded.append("first-note-at-zero:control-stream-with-equal-ticks")
            continue
        kept = [(file_seconds(t) - shift, v) for t, v in exp if file_seconds(t) >= shift]
        before = [v for t, v in exp if file_seconds(t) < shift]
        o.cls("first-note-at-zero:control-before-first-onset", bool(before))
        got = sorted(groups_g[key])
        rest = list(got)
        missing = []
        for (t, v) in kept:
            hit = [g for g in rest if g[1] == v and close(g[0], t)]
            if hit:
                rest.remove(hit[0])
            else:
                missing.append((float(t), v))
        bad_extra = [g for g in rest if not close(g[0], 0)]
        at_zero = [g for g in rest if close(g[0], 0)]
        wrong_state = bool(before) and bool(at_zero) and at_zero[0][1] != before[-1]
        lost_state = bool(before) and not at_zero and not any(close(t, 0) for t, _ in kept)
        if missing or bad_extra or len(at_zero) > 1 or wrong_state or lost_state:
            o.add(
                "import:first-note-at-zero-controls-differ",
                number_channel=key,
                file_ticks_values=exp[:8],
                shift=float(shift),
                got_seconds_values=[(float(t), v) for t, v in got][:8],
                missing=missing[:4],
                value_in_force_at_first_onset=before[-1] if before else None,
            )


def compare_loaded(o, F, perf, merge_load, strict_tracks, tempo_sorted, fnz=False, pedal_threshold=None):
    content = [tr for tr in F["tracks"] if tr["notes"] or tr["controls"] or tr["programs"]]
    if not isinstance(perf, Performance):
        o.add("import:not-a-performance", got=type(perf).__name__)
        return
    pps = list(perf.performedparts)
    if sorted(pp.track for pp in pps) != [tr["index"] for tr in content]:
        o.add("import:parts-do-not-match-file-tracks", part_tracks=[pp.track for pp in pps], file_content_tracks=[tr["index"] for tr in content])
        return
    by_track = dict((pp.track, pp) for pp in pps)
    file_seconds = F["seconds"]
    assigned = {}
    det = dict(tempo_track_order_sorted=tempo_sorted, merge_load=merge_load)
    if pedal_threshold is not None and pps and pps[0].sustain_pedal_threshold != pedal_threshold:
        o.add("import:pedal-threshold-not-set", got=pps[0].sustain_pedal_threshold, expected=pedal_threshold)
    if fnz and pps and pps[0] is not by_track[content[0]["index"]]:
        o.add("import:first-part-is-not-first-content-track", first_part_track=pps[0].track)
        return
    for rank, tr in enumerate(content):
        pp = by_track[tr["index"]]
        fi = tr["index"]
        # first_note_at_zero: notes, controls and programs of the FIRST part are shifted by its first onset
        # (signatures and other meta events are documented not to move); the times of the later parts are
        # not judged in that mode (load_performance is documented for "the first note")
        shifted = fnz and rank == 0
        judge_seconds = not fnz or rank == 0
        shift = file_seconds(min(n["on"] for n in tr["notes"])) if shifted else Fraction(0)

        def seconds(tick, shift=shift):
            return max(file_seconds(tick) - shift, Fraction(0))

        if pp.ppq != F["ppq"]:
            o.add("import:ppq-wrong", got=pp.ppq, expected=F["ppq"])
        # ---- notes
        got = []
        for n in pp.notes:
            got.append((n["note_on_tick"], n["note_off_tick"], n["midi_pitch"], n["channel"], n["velocity"]))
            if n["pitch"] != n["midi_pitch"]:
                o.add("import:pitch-fields-disagree", pitch=n["pitch"], midi_pitch=n["midi_pitch"])
        exp = [(n["on"], n["off"], n["pitch"], n["channel"], n["velocity"]) for n in tr["notes"]]
        if Counter(got) != Counter(exp):
            o.add(
                "import:notes-differ",
                file_track=fi,
                missing=sorted((Counter(exp) - Counter(got)).elements())[:6],
                unexpected=sorted((Counter(got) - Counter(exp)).elements())[:6],
                fields="on_tick, off_tick, pitch, channel, velocity",
            )
        bad_sec = []
        for n in pp.notes:
            for f_sec, f_tick in (("note_on", "note_on_tick"), ("note_off", "note_off_tick")):
                e = seconds(n[f_tick])
                if not close(n[f_sec], e):
                    bad_sec.append(dict(field=f_sec, tick=n[f_tick], got=float(n[f_sec]), expected=float(e)))
        # ---- ids
        ids = [n["id"] for n in pp.notes]
        want = set("n%d" % k for k in range(len(ids)))
        if set(ids) != want or len(ids) != len(want):
            o.add("import:ids-wrong", file_track=fi, got=ids[:10], reason="not exactly n0..n%d" % (len(ids) - 1))
        else:
            seq = sorted(pp.notes, key=lambda n: int(n["id"][1:]))
            keys = [(n["note_on_tick"], n["midi_pitch"], n["note_off_tick"], n["channel"], n["track"]) for n in seq]
            if keys != sorted(keys):
                o.add("import:ids-wrong", file_track=fi, by_id=keys[:10], reason="ids not in order of (onset, pitch, offset, channel, track)")
        # ---- controls, programs
        if shifted:
            compare_shifted_controls(o, tr, pp, file_seconds, shift)
        else:
            gotc = [(c["time_tick"], c["number"], c["value"], c["channel"]) for c in pp.controls]
            if Counter(gotc) != Counter(tr["controls"]):
                o.add("import:controls-differ", file_track=fi, got=sorted(gotc)[:8], expected=sorted(tr["controls"])[:8], fields="tick, number, value, channel")
        gotp = [(p["time_tick"], p["program"], p["channel"]) for p in pp.programs]
        if Counter(gotp) != Counter(tr["programs"]):
            o.add("import:programs-differ", file_track=fi, got=sorted(gotp)[:8], expected=sorted(tr["programs"])[:8], fields="tick, program, channel")
        # ---- signatures and other meta events
        gotk = [(k["time_tick"], k["fifths"], k["mode"], k["key_name"]) for k in pp.key_signatures]
        expk = [(t, R.KEY_TABLE[name][0], R.KEY_TABLE[name][1], name) for t, name in tr["key_signatures"]]
        if Counter(gotk) != Counter(expk):
            o.add("import:key-signatures-differ", file_track=fi, got=sorted(gotk)[:6], expected=sorted(expk)[:6])
        gott = [(k["time_tick"], k["beats"], k["beat_type"]) for k in pp.time_signatures]
        if Counter(gott) != Counter(tr["time_signatures"]):
            o.add("import:time-signatures-differ", file_track=fi, got=sorted(gott)[:6], expected=sorted(tr["time_signatures"])[:6])
        gotm = []
        for m in pp.meta_other:
            if m.get("type") == "end_of_track":
                continue
            gotm.append((m["time_tick"], attrs_key(dict((k, v) for k, v in m.items() if k not in ("time", "time_tick", "track")))))
        expm = [(t, attrs_key(a)) for t, a in tr["meta_other"]]
        if Counter(gotm) != Counter(expm):
            o.add("import:meta-events-differ", file_track=fi, got=sorted(gotm)[:6], expected=sorted(expm)[:6])
        for lst, moves in ((pp.controls, True), (pp.programs, True), (pp.key_signatures, False), (pp.time_signatures, False), (pp.meta_other, False)):
            if shifted and lst is pp.controls:
                continue  # rebuilt without ticks by the silence removal; compared above
            for c in lst:
                if c.get("type") == "end_of_track":
                    continue
                e = seconds(c["time_tick"]) if moves else file_seconds(c["time_tick"])
                if not close(c["time"], e):
                    bad_sec.append(dict(field="time", tick=c["time_tick"], got=float(c["time"]), expected=float(e)))
        if not judge_seconds:
            if "first-note-at-zero:seconds-of-later-parts" not in o.excluded:
                o.excluded.append("first-note-at-zero:seconds-of-later-parts")
        elif bad_sec:
            o.add("import:seconds-wrong", file_track=fi, examples=bad_sec[:4], tempo_map=F["tempo_map"][:6], first_note_at_zero_shift=float(shift), **det)
        for lst in (pp.key_signatures, pp.time_signatures, pp.meta_other):
            for c in lst:
                if c["track"] not in (fi, rank):
                    o.add("import:meta-track-field-wrong", file_track=fi, got=c["track"])
                    break
        # ---- track numbers
        vals = set(n["track"] for n in pp.notes) | set(c["track"] for c in pp.controls) | set(p["track"] for p in pp.programs)
        if len(vals) != 1:
            o.add("import:track-not-uniform-in-part", file_track=fi, got=sorted(vals))
        else:
            assigned[fi] = list(vals)[0]
    if len(assigned) == len(content):
        order = [assigned[tr["index"]] for tr in content]
        k = len(order)
        if len(set(order)) != k:
            o.add("import:track-numbers-not-unique", by_file_track=order)
        elif (strict_tracks and order != list(range(k))) or (not strict_tracks and order != sorted(order)):
            o.add(
                "import:track-number-changed",
                loaded_track_numbers_in_file_track_order=order,
                content_tracks=k,
                permutation_of_0_to_k=sorted(order) == list(range(k)),
                merge_load=merge_load,
            )


# ---------------------------------------------------------------------------
# sub-check (i): round trip
# ---------------------------------------------------------------------------


def _meta_dicts(q, track_of_sel):
    ks = []
    for c in q["key_signatures"]:
        d = dict(time=c["time"], fifths=c["fifths"], track=track_of_sel(c["track_sel"]))
        if "mode" in c:
            d["mode"] = c["mode"]
        ks.append(d)
    ts = [dict(time=c["time"], beats=c["beats"], beat_type=c["beat_type"], track=track_of_sel(c["track_sel"])) for c in q["time_signatures"]]
    mo = []
    for c in q["meta_other"]:
        d = dict((k, v) for k, v in c.items() if k != "track_sel")
        d["track"] = track_of_sel(c["track_sel"])
        mo.append(d)
    return ks, ts, mo


def build_part(q, build):
    """(PerformedPart, times_are_single_precision) from a part description, in the way named by ``build``."""
    controls = [dict(c) for c in q["controls"]]
    programs = [dict(p) for p in q["programs"]]
    if build == "note_array" and q["notes"]:
        # the route of decode_performance / PerformedPart.from_note_array: numpy scalars, float32 seconds
        omit = q.get("na_omit", [])
        fields = [("onset_sec", "f4"), ("duration_sec", "f4"), ("pitch", "i4"), ("velocity", "i4")]
        fields += [(f, "i4") for f in ("track", "channel") if f not in omit]
        rows = []
        for n in q["notes"]:
            row = [n["note_on"], n["note_off"] - n["note_on"], n["midi_pitch"], n["velocity"]]
            row += [n[f] for f in ("track", "channel") if f not in omit]
            rows.append(tuple(row))
        pp = call(PerformedPart.from_note_array, np.array(rows, dtype=fields))
        pp.controls, pp.programs = controls, programs
        return pp, True
    if build == "pnote":
        notes = [call(PerformedNote, dict(n)) for n in q["notes"]]
    else:
        notes = [dict(n) for n in q["notes"]]
    return call(PerformedPart, notes, controls=controls, programs=programs), False


def oracle_roundtrip(spec):
    o = Outcome()
    try:
        return _oracle_roundtrip(spec, o)
    except SutRaised as e:  # keep the classes recorded so far; the exception is the discrepancy
        o.add(e.kind, text=e.text)
        o.cls("aborted-by-sut-exception")
        return o


def _oracle_roundtrip(spec, o):
    ppq, mpq = spec["ppq"], spec["mpq"]
    kind = spec["kind"]
    merged = spec["merge_save"] or spec["merge_load"]
    o.cls("kind:" + kind)
    o.cls("merge-on-save", spec["merge_save"])
    o.cls("merge-on-load", spec["merge_load"])
    o.cls("non-default-ppq-mpq", (ppq, mpq) != (480, 500000))
    o.cls("order:" + spec["order"])
    o.cls("api:" + spec["api"])
    o.cls("io:" + spec["io"])
    o.cls("has-empty-part", spec["empty_part_at"] is not None)

    build = spec.get("build", "dict")
    unique = spec.get("unique", True)
    sanitized = kind == "performance" and unique
    o.cls("build:" + build)
    pps, f32 = [], []
    for q in spec["parts"]:
        pp, is32 = build_part(q, build)
        pps.append(pp)
        f32.append(is32)
    if kind == "performance":
        arg = pps[0] if spec.get("perf_arg", "list") == "single" and len(pps) == 1 else pps
        o.cls("performance-from-single-part-argument", arg is not pps)
        o.cls("ensure-unique-tracks-off", not unique)
        data = call(Performance, arg) if unique else call(Performance, arg, ensure_unique_tracks=False)
    elif kind == "ppart":
        data = pps[0]
    else:
        las = spec.get("list_as", "list")
        o.cls("list-given-as:" + las)
        data = pps if las == "list" else (tuple(pps) if las == "tuple" else (pp for pp in pps))
    if sanitized:
        # track numbers after Performance made them unique: any bijection onto 0..k-1 is accepted here; an
        # absent "track" key counts as the documented default track 0
        mapping = {}
        for i, (q, pp) in enumerate(zip(spec["parts"], pps)):
            for lst_spec, lst in ((q["notes"], pp.notes), (q["controls"], pp.controls), (q["programs"], pp.programs)):
                for a, b in zip(lst_spec, lst):
                    mapping.setdefault((i, a.get("track", DEF_TRACK)), set()).add(b["track"])
        images = [sorted(v) for v in mapping.values()]
        flat = sorted(x for v in images for x in v)
        if any(len(v) != 1 for v in images) or flat != list(range(len(mapping))):
            o.add(
                "performance:track-numbers-not-made-unique",
                mapping=sorted((list(k), sorted(v)) for k, v in mapping.items()),
                control_without_track_key=any("track" not in c for q in spec["parts"] for c in q["controls"]),
            )
            return o

    # ---------------- the performance as stated by the spec (defaults: track 0, channel 1, velocity 60)
    def trk(spec_item, live_item):
        return live_item["track"] if sanitized else spec_item.get("track", DEF_TRACK)

    x_notes, x_controls, x_programs = [], [], []  # per part
    for q, pp, is32 in zip(spec["parts"], pps, f32):
        xn = []
        for a, b in zip(q["notes"], pp.notes):
            t_on, t_off = a["note_on"], a["note_off"]
            if is32:  # the original times are the single-precision values of the note array
                on32 = np.float32(t_on)
                t_on, t_off = float(on32), float(np.float32(on32 + np.float32(t_off - a["note_on"])))
            xn.append(dict(track=trk(a, b), channel=a.get("channel", DEF_CHANNEL), pitch=a["midi_pitch"], velocity=a.get("velocity", DEF_VELOCITY), note_on=t_on, note_off=t_off, f32=is32))
        x_notes.append(xn)
        x_controls.append([dict(track=trk(a, b), channel=a.get("channel", DEF_CHANNEL), number=a["number"], value=a["value"], time=a["time"]) for a, b in zip(q["controls"], pp.controls)])
        x_programs.append([dict(track=trk(a, b), channel=a["channel"], program=a["program"], time=a["time"]) for a, b in zip(q["programs"], pp.programs)])
    o.cls("note-without-optional-keys", any(len(n) < 6 for q in spec["parts"] for n in q["notes"]))
    o.cls("note-array-without-channel-or-track-field", build == "note_array" and any(q.get("na_omit") for q in spec["parts"]))
    o.cls("control-without-track-and-channel-keys", any("track" not in c for q in spec["parts"] for c in q["controls"]))

    tracks = sorted(set(e["track"] for lst in (x_notes, x_controls, x_programs) for part in lst for e in part))
    note_tracks = set(e["track"] for part in x_notes for e in part)
    k = len(tracks)
    if k == 0:
        o.excluded.append("no-track-at-all")
        return o
    o.cls("multi-track", k >= 2)
    o.cls("multi-part", len(pps) >= 2)
    o.cls("track-numbers-with-gaps", tracks != list(range(k)))
    o.cls("track-without-notes", len(note_tracks) < k)
    o.cls("part-without-notes-with-controls", any(not xn and (xc or xp) for xn, xc, xp in zip(x_notes, x_controls, x_programs)))

    def track_of_sel(sel):
        return tracks[sel % k]

    for q, pp in zip(spec["parts"], pps):
        ks, ts, mo = _meta_dicts(q, track_of_sel)
        pp.key_signatures, pp.time_signatures, pp.meta_other = ks, ts, mo
    o.cls("has-signatures-or-meta", any(pp.key_signatures or pp.time_signatures or pp.meta_other for pp in pps))

    # ---------------- E: what must be in the file
    def ft(track):  # file track: the tracks are written in increasing order of their numbers
        return 0 if spec["merge_save"] else tracks.index(track)

    near = tie = False
    e_notes = []
    idx = 0
    sp_differs = False  # a single-precision product would round to another tick than the exact value
    for xn in x_notes:
        for n in xn:
            # the original time of a note-array part is its float32 value; like every other time it has to be
            # rounded to the nearest tick (seconds_to_midi_ticks was repaired for exactly this input: a80a713)
            a = tick_range(n["note_on"], ppq, mpq)
            b = tick_range(n["note_off"], ppq, mpq)
            if n["f32"]:
                for t_, r_ in ((n["note_on"], a), (n["note_off"], b)):
                    with np.errstate(all="ignore"):
                        k32 = float(np.round(np.float32(MILLION * ppq) * np.float32(t_) / np.float32(mpq)))
                    sp_differs = sp_differs or not (r_[0] <= k32 <= r_[1])
            near = near or a[2] or b[2]
            tie = tie or a[3] or b[3]
            e_notes.append(dict(track=n["track"], channel=n["channel"], pitch=n["pitch"], velocity=n["velocity"], on=a[:2], off=b[:2], idx=idx))
            idx += 1
    o.cls("near-half-tick", near)
    o.cls("exact-half-tick-tie", tie)
    o.cls("single-precision-product-rounds-to-another-tick", sp_differs)
    # domain: no overlap within a key, whatever way ties are rounded
    keys = {}
    for n in e_notes:
        key = (n["channel"], n["pitch"]) if merged else (n["track"], n["channel"], n["pitch"])
        keys.setdefault(key, []).append(n)
    touching = reversed_ = zero_len = False
    if merged and len(set((n["track"], n["channel"], n["pitch"]) for n in e_notes)) != len(keys):
        o.excluded.append("same-channel-pitch-in-two-tracks-while-merging")
        return o
    for key, lst in keys.items():
        lst.sort(key=lambda n: (n["on"][0], n["off"][0], n["velocity"]))
        for n in lst:
            zl = n["on"] == n["off"] and n["on"][0] == n["on"][1]
            zero_len = zero_len or zl
            if not zl and n["off"][0] < n["on"][1]:
                o.excluded.append("note-shorter-than-its-rounding-uncertainty")
                return o
        for a, b in zip(lst, lst[1:]):
            if b["on"][0] < a["off"][1]:
                o.excluded.append("overlap-in-ticks")
                return o
            if b["on"][0] == a["off"][1]:
                touching = True
        # a note listed before a note of the same key that ends on its onset tick (all pairs, since several
        # zero-length notes can sit on one tick)
        for a in lst:
            for b in lst:
                if a is not b and b["on"][0] == a["off"][1] and b["idx"] < a["idx"]:
                    if not (a["on"] == a["off"] == b["on"] == b["off"]):
                        reversed_ = True
    o.cls("touching-notes", touching)
    o.cls("touching-notes-later-listed-first", reversed_)
    o.cls("zero-length-note", zero_len)
    o.cls("same-channel-pitch-in-several-tracks", not merged and len(set((n["channel"], n["pitch"]) for n in e_notes)) < len(keys))
    o.nontrivial = k >= 2 or near

    with tempfile.TemporaryDirectory(prefix="c06_") as tmp:
        kw = dict(mpq=mpq, ppq=ppq, merge_tracks_save=spec["merge_save"])
        live = None
        if spec["io"] == "path":
            path = os.path.join(tmp, "saved.mid")
            as_pathlib = spec.get("path_type", "str") == "pathlib"
            o.cls("path-given-as-pathlib", as_pathlib)
            ret = call(save_performance_midi, data, pathlib.Path(path) if as_pathlib else path, **kw)
            if not os.path.exists(path):
                o.add("export:no-file-written", path_type=spec.get("path_type", "str"))
                return o
            raw = open(path, "rb").read()
        elif spec["io"] == "fileobj":
            buf = io.BytesIO()
            ret = call(save_performance_midi, data, buf, **kw)
            raw = buf.getvalue()
        else:
            live = call(save_performance_midi, data, None, **kw)
            ret = None
            if not isinstance(live, mido.MidiFile):
                o.add("export:no-midifile-returned", got=type(live).__name__)
                return o
            buf = io.BytesIO()
            call(live.save, file=buf)
            raw = buf.getvalue()
        if ret is not None:
            o.add("export:return-value-not-none", got=type(ret).__name__)
        mid = mido.MidiFile(file=io.BytesIO(raw))
        F = R.interpret(mid, merge=False, default_mpq=500000)

        # ---------------- E vs F
        if F["ppq"] != ppq:
            o.add("export:ppq-wrong", got=F["ppq"], expected=ppq)
        if len(F["tracks"]) != (1 if spec["merge_save"] else k):
            o.add("export:track-count-wrong", got=len(F["tracks"]), expected=1 if spec["merge_save"] else k)
        if F["tempo_map"] != [(0, mpq)]:
            o.add("export:tempo-wrong", got=F["tempo_map"][:5], expected=[[0, mpq]])
        problems = [p for tr in F["tracks"] for p in tr["problems"]]
        f_keys = {}
        for tr in F["tracks"]:
            for n in tr["notes"]:
                f_keys.setdefault((tr["index"], n["channel"], n["pitch"]), []).append(n)
        e_keys = {}
        for n in e_notes:
            e_keys.setdefault((ft(n["track"]), n["channel"], n["pitch"]), []).append(n)
        bad = []
        for key in sorted(set(f_keys) | set(e_keys)):
            fl = sorted(f_keys.get(key, []), key=lambda n: (n["on"], n["off"], n["velocity"]))
            el = sorted(e_keys.get(key, []), key=lambda n: (n["on"][0], n["off"][0], n["velocity"]))
            ok = len(fl) == len(el) and all(
                e["on"][0] <= f["on"] <= e["on"][1] and e["off"][0] <= f["off"] <= e["off"][1] and e["velocity"] == f["velocity"]
                for e, f in zip(el, fl)
            )
            if not ok:
                bad.append(
                    dict(
                        track_channel_pitch=key,
                        expected=[(e["on"], e["off"], e["velocity"]) for e in el][:6],
                        in_file=[(f["on"], f["off"], f["velocity"]) for f in fl][:6],
                    )
                )
        if bad or problems:
            o.add("export:notes-differ", differences=bad[:3], file_problems=problems[:4], touching_notes_later_listed_first=reversed_, order=spec["order"],
                  single_precision_product_rounds_to_another_tick=sp_differs)

        exp_c, exp_p, exp_k, exp_t, exp_m = [], [], [], [], []
        extras = Counter()
        for pp, xn, xc, xp in zip(pps, x_notes, x_controls, x_programs):
            for c in xc:
                exp_c.append(((ft(c["track"]), c["channel"], c["number"], c["value"]), tick_range(c["time"], ppq, mpq)[:2]))
            for p_ in xp:
                exp_p.append(((ft(p_["track"]), p_["channel"], p_["program"]), tick_range(p_["time"], ppq, mpq)[:2]))
            if not xp:
                used = set((c["channel"], c["track"]) for c in xc) | set((n["channel"], n["track"]) for n in xn)
                for ch, trk_ in used:
                    extras[(ft(trk_), ch, 0)] += 1
            for c in pp.key_signatures:
                name = R.key_name(c["fifths"], c.get("mode") == "minor")
                exp_k.append(((ft(c["track"]), name), tick_range(c["time"], ppq, mpq)[:2]))
            for c in pp.time_signatures:
                exp_t.append(((ft(c["track"]), c["beats"], c["beat_type"]), tick_range(c["time"], ppq, mpq)[:2]))
            for c in pp.meta_other:
                a = dict((kk, v) for kk, v in c.items() if kk not in ("time", "track"))
                exp_m.append(((ft(c["track"]), attrs_key(a)), tick_range(c["time"], ppq, mpq)[:2]))
        o.cls("part-without-programs", bool(extras))
        got_c = [((tr["index"], ch, num, val), t) for tr in F["tracks"] for (t, num, val, ch) in tr["controls"]]
        got_p = [((tr["index"], ch, prog), t) for tr in F["tracks"] for (t, prog, ch) in tr["programs"]]
        got_k = [((tr["index"], name), t) for tr in F["tracks"] for (t, name) in tr["key_signatures"]]
        got_t = [((tr["index"], a, b), t) for tr in F["tracks"] for (t, a, b) in tr["time_signatures"]]
        got_m = [((tr["index"], attrs_key(a)), t) for tr in F["tracks"] for (t, a) in tr["meta_other"]]
        compare_grouped(o, "export:controls-differ", exp_c, got_c, group_fields="track, channel, number, value")
        compare_grouped(o, "export:programs-differ", exp_p, got_p, extras=dict(extras), group_fields="track, channel, program")
        compare_grouped(o, "export:key-signatures-differ", exp_k, got_k, group_fields="track, key")
        compare_grouped(o, "export:time-signatures-differ", exp_t, got_t, group_fields="track, beats, beat_type")
        compare_grouped(o, "export:meta-events-differ", exp_m, got_m, group_fields="track, attributes")

        # ---------------- F vs L
        Fl = R.interpret(mid, merge=spec["merge_load"], default_mpq=default_mpq(spec["default_bpm"]))
        if any(tr["problems"] for tr in Fl["tracks"]):
            o.excluded.append("import-not-judged:file-has-overlapping-or-unpaired-notes")
            return o
        fnz = fnz_applies(spec, Fl)
        generic = spec["api"] == "generic"
        o.cls("first-note-at-zero", fnz)
        o.cls("non-default-pedal-threshold", generic and spec.get("pedal_threshold", 64) != 64)
        perf = load(spec, raw, tmp, live_object=live, fnz=fnz)
        n_before = len(o.discs)
        compare_loaded(
            o, Fl, perf, spec["merge_load"], strict_tracks=True, tempo_sorted=tempo_track_order_sorted(mid),
            fnz=fnz, pedal_threshold=spec.get("pedal_threshold") if generic else None,
        )
        # ---------------- L saved again: a loaded performance (ticks, ids, key names, time_tick fields) is an
        # argument of the exporter too; with the same ppq / mpq the second file denotes the same events
        if spec.get("resave", False) and not fnz and len(o.discs) == n_before and isinstance(perf, Performance):
            o.cls("loaded-performance-saved-again")
            compare_resaved(o, Fl, perf, ppq, mpq)
    return o


def compare_resaved(o, F1, perf, ppq, mpq):
    mf2 = call(save_performance_midi, perf, None, mpq=mpq, ppq=ppq)
    buf = io.BytesIO()
    call(mf2.save, file=buf)
    F2 = R.interpret(mido.MidiFile(file=io.BytesIO(buf.getvalue())), merge=False, default_mpq=500000)
    content = [tr for tr in F1["tracks"] if tr["notes"] or tr["controls"] or tr["programs"]]
    if F2["ppq"] != ppq or F2["tempo_map"] != [(0, mpq)]:
        o.add("resave:ppq-or-tempo-wrong", ppq=F2["ppq"], tempo_map=F2["tempo_map"][:4])
    if len(F2["tracks"]) != len(content):
        o.add("resave:track-count-wrong", got=len(F2["tracks"]), expected=len(content))
        return
    for a, b in zip(content, F2["tracks"]):
        if b["problems"]:
            o.add("resave:notes-differ", file_track=b["index"], file_problems=b["problems"][:4])
            continue
        na = Counter((n["on"], n["off"], n["pitch"], n["channel"], n["velocity"]) for n in a["notes"])
        nb = Counter((n["on"], n["off"], n["pitch"], n["channel"], n["velocity"]) for n in b["notes"])
        if na != nb:
            o.add("resave:notes-differ", file_track=b["index"], missing=sorted((na - nb).elements())[:6], unexpected=sorted((nb - na).elements())[:6], fields="on_tick, off_tick, pitch, channel, velocity")
        for field in ("controls", "key_signatures", "time_signatures"):
            if Counter(a[field]) != Counter(b[field]):
                o.add("resave:%s-differ" % field.replace("_", "-"), file_track=b["index"], first=sorted(a[field])[:6], second=sorted(b[field])[:6])
        ma = Counter((t, attrs_key(x)) for t, x in a["meta_other"])
        mb = Counter((t, attrs_key(x)) for t, x in b["meta_other"])
        if ma != mb:
            o.add("resave:meta-events-differ", file_track=b["index"], first=sorted(ma)[:6], second=sorted(mb)[:6])
        pa, pb = Counter(a["programs"]), Counter(b["programs"])
        added = list((pb - pa).elements())
        channels = set(n["channel"] for n in a["notes"]) | set(c[3] for c in a["controls"])
        # a part without programs gets one program 0 per channel it uses (time not judged)
        ok_added = not a["programs"] and sorted((prog, ch) for _, prog, ch in added) == sorted((0, ch) for ch in channels)
        if (pa - pb) or (added and not ok_added) or (not a["programs"] and not added):
            o.add("resave:programs-differ", file_track=b["index"], first=sorted(a["programs"])[:6], second=sorted(b["programs"])[:6])


# ---------------------------------------------------------------------------
# sub-check (ii): literal MIDI files
# ---------------------------------------------------------------------------


def build_midifile(spec):
    mf = mido.MidiFile(type=spec["type"], ticks_per_beat=spec["ppq"])
    for msgs in spec["tracks"]:
        tr = mido.MidiTrack()
        mf.tracks.append(tr)
        for d in msgs:
            m, dt = d["m"], d["dt"]
            if m == "set_tempo":
                tr.append(mido.MetaMessage("set_tempo", tempo=d["tempo"], time=dt))
            elif m == "key_signature":
                tr.append(mido.MetaMessage("key_signature", key=R.key_name(d["fifths"], d["minor"]), time=dt))
            elif m == "time_signature":
                tr.append(mido.MetaMessage("time_signature", numerator=d["numerator"], denominator=d["denominator"], time=dt))
            elif m == "midi_port":
                tr.append(mido.MetaMessage("midi_port", port=d["port"], time=dt))
            elif m in ("text", "marker"):
                tr.append(mido.MetaMessage(m, text=d["text"], time=dt))
            elif m == "track_name":
                tr.append(mido.MetaMessage(m, name=d["name"], time=dt))
            elif m in ("note_on", "note_off"):
                tr.append(mido.Message(m, channel=d["ch"], note=d["note"], velocity=d["vel"], time=dt))
            elif m == "control_change":
                tr.append(mido.Message(m, channel=d["ch"], control=d["control"], value=d["value"], time=dt))
            elif m == "program_change":
                tr.append(mido.Message(m, channel=d["ch"], program=d["program"], time=dt))
            elif m == "pitchwheel":
                tr.append(mido.Message(m, channel=d["ch"], pitch=d["pitch"], time=dt))
            elif m == "aftertouch":
                tr.append(mido.Message(m, channel=d["ch"], value=d["value"], time=dt))
            elif m == "polytouch":
                tr.append(mido.Message(m, channel=d["ch"], note=d["note"], value=d["value"], time=dt))
            elif m == "sysex":
                tr.append(mido.Message(m, data=d["data"], time=dt))
            else:
                raise ValueError("unknown message kind in spec: %r" % m)
    return mf


def oracle_midifile(spec):
    o = Outcome()
    try:
        return _oracle_midifile(spec, o)
    except SutRaised as e:
        o.add(e.kind, text=e.text)
        o.cls("aborted-by-sut-exception")
        return o


def _oracle_midifile(spec, o):
    mf = build_midifile(spec)
    buf = io.BytesIO()
    mf.save(file=buf)
    raw = buf.getvalue()
    mid = mido.MidiFile(file=io.BytesIO(raw))
    F = R.interpret(mid, merge=spec["merge_load"], default_mpq=default_mpq(spec["default_bpm"]))
    ntr = len(spec["tracks"])
    tempo_tracks = sorted(set(i for i, msgs in enumerate(spec["tracks"]) for d in msgs if d["m"] == "set_tempo"))
    later_tempo = any(t > 0 for t, _ in F["tempo_map"])
    tsorted = tempo_track_order_sorted(mid)
    content = [tr for tr in F["tracks"] if tr["notes"] or tr["controls"] or tr["programs"]]
    o.cls("tracks:%d" % ntr)
    o.cls("merge-on-load", spec["merge_load"])
    o.cls("tempo-change-after-tick-0", later_tempo)
    o.cls("tempo-only-in-non-first-tracks", bool(tempo_tracks) and 0 not in tempo_tracks)
    o.cls("tempo-in-several-tracks", len(tempo_tracks) >= 2)
    o.cls("tempo-ticks-not-sorted-in-track-order", not tsorted)
    o.cls("no-tempo-event", not F["tempo_map"])
    o.cls("repeated-tempo-value", len(set(m for _, m in F["tempo_map"])) < len(F["tempo_map"]))
    o.cls("track-without-notes-controls-programs", not spec["merge_load"] and len(content) < ntr)
    o.cls("zero-velocity-note-on-as-off", any(d["m"] == "note_on" and d["vel"] == 0 for msgs in spec["tracks"] for d in msgs))
    o.cls("ignorable-channel-messages", any(tr["ignored"] for tr in F["tracks"]))
    o.cls("non-default-default_bpm", spec["default_bpm"] != 120)
    o.cls("api:" + spec["api"])
    notes = [n for tr in F["tracks"] for n in tr["notes"]]
    o.cls("zero-length-note", any(n["on"] == n["off"] for n in notes))
    o.nontrivial = ntr >= 2 or later_tempo
    o.cls("two-tempo-events-on-one-tick-of-one-track", bool(F["tempo_same_tick"]) and not F["tempo_same_tick_cross_track"])
    if any(tr["problems"] for tr in F["tracks"]) or F["tempo_same_tick_cross_track"]:
        o.excluded.append("file-outside-domain")
        return o
    if not content:
        o.excluded.append("file-without-notes-controls-programs")
        return o
    fnz = fnz_applies(spec, F)
    generic = spec["api"] == "generic"
    o.cls("first-note-at-zero", fnz)
    o.cls("path-given-as-pathlib", spec.get("path_type", "str") == "pathlib" and (generic or spec["io"] == "path"))
    with tempfile.TemporaryDirectory(prefix="c06_") as tmp:
        perf = load(spec, raw, tmp, live_object=mf if spec["io"] == "object" else None, fnz=fnz)
        compare_loaded(
            o, F, perf, spec["merge_load"], strict_tracks=False, tempo_sorted=tsorted,
            fnz=fnz, pedal_threshold=spec.get("pedal_threshold") if generic else None,
        )
    return o


# ---------------------------------------------------------------------------
# known findings
# ---------------------------------------------------------------------------


def known_list_input(spec, d):
    return spec.get("kind") == "list" and d.kind.startswith("sut-raised:UnboundLocalError@io/exportmidi.py")


def known_track_set_order(spec, d):
    det = d["detail"]
    return (
        d.kind == "import:track-number-changed"
        and not spec["merge_load"]
        and det.get("content_tracks", 0) >= 2
        and det.get("permutation_of_0_to_k") is True
    )


def known_tempo_track_order(spec, d):
    if spec["merge_load"] or _spec_tempo_sorted(spec):
        return False
    if d.kind == "import:seconds-wrong":
        return d["detail"].get("tempo_track_order_sorted") is False
    # the wrongly integrated times can become negative or decrease, which PerformedNote then rejects
    return d.kind in (
        "sut-raised:ValueError@performance.py:_validate_note_on",
        "sut-raised:ValueError@performance.py:_validate_note_off",
    )


def known_touching_unsorted(spec, d):
    return d.kind == "export:notes-differ" and d["detail"].get("touching_notes_later_listed_first") is True


def known_empty_part(spec, d):
    return (
        spec.get("kind") in ("performance", "list")
        and any(not q["notes"] and not q["controls"] for q in spec.get("parts", []))
        and d.kind.startswith("sut-raised:IndexError@io/exportmidi.py")
    )


def known_controls_without_track(spec, d):
    """Performance(...) numbers a control without a "track" key as track -1, so the controls and the notes of
    ONE part (notes default to track 0) are put on two different tracks."""
    return (
        d.kind == "performance:track-numbers-not-made-unique"
        and spec.get("kind") == "performance"
        and d["detail"].get("control_without_track_key") is True
        and any("track" not in c for q in spec.get("parts", []) for c in q["controls"])
    )


def known_float32_times(spec, d):
    """save_performance_midi computes 10**6 * ppq * t / mpq in single precision when t is a numpy float32 (the times
    of PerformedPart.from_note_array): the note is written one tick off whenever that product rounds differently."""
    return (
        spec.get("build") == "note_array"
        and d.kind == "export:notes-differ"
        and d["detail"].get("single_precision_product_rounds_to_another_tick") is True
    )


def _spec_notes_controls(spec):
    """(pitch, track, channel) of every note and the control numbers, for either kind of spec."""
    notes, controls = [], []
    if "parts" in spec:
        for i, q in enumerate(spec["parts"]):
            notes += [(n["midi_pitch"], (i, n["track"]), n["channel"]) for n in q["notes"]]
            controls += [c["number"] for c in q["controls"]]
    else:
        for i, msgs in enumerate(spec["tracks"]):
            notes += [(d["note"], i, d["ch"]) for d in msgs if d["m"] == "note_on" and d["vel"] > 0]
            controls += [d["control"] for d in msgs if d["m"] == "control_change"]
    return notes, controls


def known_pedal_same_pitch(spec, d):
    """PerformedPart() raises when a sustain-pedal control exists and a pitch is struck again (other channel,
    other track, equal onset) before the release of its previous note: the re-strike clipping pushes sound_off
    below note_off and the validation of PerformedNote rejects it."""
    if not d.kind.startswith("sut-raised:ValueError@performance.py:_validate_sound_off"):
        return False
    notes, controls = _spec_notes_controls(spec)
    pitches = [n[0] for n in notes]
    return 64 in controls and len(set(pitches)) < len(pitches)


def _spec_tempo_sorted(spec):
    ticks = []
    for msgs in spec.get("tracks", []):
        t = 0
        for d in msgs:
            t += d["dt"]
            if d["m"] == "set_tempo":
                ticks.append(t)
    return ticks == sorted(ticks)


SUBCHECKS = [
    SubCheck(
        "roundtrip",
        oracle_roundtrip,
        strategy=G.perf_specs,
        budget={"quick": 200, "thorough": 6000},
        rule="generated performances (Performance with and without ensure_unique_tracks, from a list or a single part / PerformedPart / list, tuple or generator of parts; parts built from dicts, PerformedNote objects or a note array; 1-4 tracks with dense or sparse numbers, tracks with controls only, 1-3 parts; optional keys present or absent; tick-domain times with fractional classes and free floats; controls, programs, signatures, meta) x (ppq, mpq) x merge on save x merge on load x API (str / pathlib paths, file objects, MidiFile objects; load_performance with first_note_at_zero and pedal_threshold) x saving the loaded performance again; non-trivial = at least 2 tracks or a time within 0.1 tick of a .5 rounding boundary",
        known={
            "list-input-unboundlocal": known_list_input,
            "loaded-tracks-renumbered-in-set-order": known_track_set_order,
            "touching-notes-unsorted-list": known_touching_unsorted,
            "empty-part-indexerror": known_empty_part,
            "pedal-same-pitch-other-channel-valueerror": known_pedal_same_pitch,
            "controls-without-track-split-from-notes": known_controls_without_track,
            "export-float32-times-rounded-in-single-precision": known_float32_times,
        },
        floors={
            "kind:list": 0.08,
            "kind:performance": 0.15,
            "kind:ppart": 0.15,
            "merge-on-save": 0.1,
            "merge-on-load": 0.1,
            "multi-track": 0.3,
            "near-half-tick": 0.2,
            "touching-notes": 0.1,
            "non-default-ppq-mpq": 0.3,
            # generator audit
            "track-numbers-with-gaps": 0.05,
            "track-without-notes": 0.05,
            "note-without-optional-keys": 0.05,
            "control-without-track-and-channel-keys": 0.04,
            "build:note_array": 0.08,
            "first-note-at-zero": 0.04,
            "loaded-performance-saved-again": 0.15,
        },
    ),
    SubCheck(
        "midifile",
        oracle_midifile,
        strategy=G.midi_specs,
        budget={"quick": 200, "thorough": 6000},
        rule="generated MIDI files (1-4 tracks, set_tempo at distinct ticks in arbitrary tracks, offs as note_off or zero-velocity note_on, controls, programs, signatures, text meta, ignorable channel messages) x merge on load x default_bpm x API, expected from the independent interpreter; non-trivial = at least 2 tracks or a tempo change after tick 0",
        known={
            "tempo-changes-in-track-order": known_tempo_track_order,
            "loaded-tracks-renumbered-in-set-order": known_track_set_order,
            "pedal-same-pitch-other-channel-valueerror": known_pedal_same_pitch,
        },
        floors={
            "tempo-change-after-tick-0": 0.3,
            "tempo-only-in-non-first-tracks": 0.05,
            "tempo-in-several-tracks": 0.05,
            "merge-on-load": 0.15,
            "zero-velocity-note-on-as-off": 0.3,
            "two-tempo-events-on-one-tick-of-one-track": 0.05,
        },
    ),
]
