"""C01 - a part is a consistent time-ordered collection under any edit history.

Model-based (stateful) testing: a history is a list of abstract operations with
state-relative references (object index modulo the number of live objects), so
every history is a plain JSON value that Hypothesis shrinks as one value and that
the replay command re-executes without Hypothesis.  The history is applied in
lock-step to a real ``Part`` and to the reference model below; the full invariant
is evaluated after *every* step.
"""

import numpy as np
from hypothesis import strategies as st

import partitura.score as S
from pbt.core import Disc, Outcome, SubCheck, SutRaised, call

PROPERTY = "C01"
ENGINES = ["hypothesis (model-based operation histories)"]
ASSUMPTIONS = [
    "an object is only added at an endpoint it does not currently occupy and never with start > end (documented contract)",
    "order of objects inside one time point is not demanded (multiset per time point)",
    "after set_quarter_duration(t, q) the step function must equal 'q from t to the next table entry' or 'q from t to the next value change'; both readings of 'next later change' are accepted when a redundant entry makes them differ",
]

# fixed, ordered list of timed-object classes with minimal constructor arguments
CLASS_SPECS = [
    ("GenericNote", lambda c: c()),
    ("Note", lambda c: c(step="C", octave=4)),
    ("GraceNote", lambda c: c("grace", step="D", octave=4)),
    ("UnpitchedNote", lambda c: c(step="E", octave=4)),
    ("Rest", lambda c: c()),
    ("Beam", lambda c: c()),
    ("Page", lambda c: c()),
    ("System", lambda c: c()),
    ("Clef", lambda c: c(1, "G", 2, 0)),
    ("Slur", lambda c: c()),
    ("Tuplet", lambda c: c()),
    ("Repeat", lambda c: c()),
    ("DaCapo", lambda c: c()),
    ("Fine", lambda c: c()),
    ("DalSegno", lambda c: c()),
    ("Segno", lambda c: c()),
    ("ToCoda", lambda c: c()),
    ("Coda", lambda c: c()),
    ("Fermata", lambda c: c()),
    ("Ending", lambda c: c(1)),
    ("Barline", lambda c: c("light-heavy")),
    ("Measure", lambda c: c(number=1)),
    ("TimeSignature", lambda c: c(3, 4)),
    ("Tempo", lambda c: c(90)),
    ("Staff", lambda c: c(1)),
    ("KeySignature", lambda c: c(0, "major")),
    ("Transposition", lambda c: c(0, 0)),
    ("Words", lambda c: c("dolce")),
    ("OctaveShiftDirection", lambda c: c("down")),
    ("Harmony", lambda c: c("x")),
    ("ChordSymbol", lambda c: c("C", "major")),
    ("Cadence", lambda c: c("PAC")),
    ("Phrase", lambda c: c()),
    ("Direction", lambda c: c("d")),
    ("LoudnessDirection", lambda c: c("d")),
    ("ConstantLoudnessDirection", lambda c: c("f")),
    ("DynamicLoudnessDirection", lambda c: c("cresc")),
    ("IncreasingLoudnessDirection", lambda c: c("cresc")),
    ("DecreasingLoudnessDirection", lambda c: c("dim")),
    ("ImpulsiveLoudnessDirection", lambda c: c("sfz")),
    ("TempoDirection", lambda c: c("t")),
    ("ConstantTempoDirection", lambda c: c("adagio")),
    ("ResetTempoDirection", lambda c: c("a tempo")),
    ("DynamicTempoDirection", lambda c: c("t")),
    ("IncreasingTempoDirection", lambda c: c("accel")),
    ("DecreasingTempoDirection", lambda c: c("rit")),
    ("ArticulationDirection", lambda c: c("a")),
    ("ConstantArticulationDirection", lambda c: c("staccato")),
    ("PedalDirection", lambda c: c("ped")),
    ("SustainPedalDirection", lambda c: c()),
    ("ConstantDirection", lambda c: c("c")),
    ("DynamicDirection", lambda c: c("d")),
    ("ImpulsiveDirection", lambda c: c("i")),
    ("Segment", lambda c: c("A", ["B"], 0)),
    ("TimedObject", lambda c: c()),
    ("RomanNumeral", lambda c: c("C:V7")),
]
NCLS = len(CLASS_SPECS)
# classes that are interesting for include_subclasses (have subclasses / diamonds)
PARENTS = [i for i, (n, _) in enumerate(CLASS_SPECS) if n in (
    "GenericNote", "Note", "Direction", "LoudnessDirection", "ConstantDirection", "DynamicDirection",
    "TempoDirection", "DynamicLoudnessDirection", "ConstantTempoDirection", "Harmony", "TimedObject", "PedalDirection", "ImpulsiveDirection",
    "ArticulationDirection", "DynamicTempoDirection")]


def _cls(i, palette=None):
    # with a palette (a few class indices per history) many objects share a class and a (time point, class) bucket
    if palette:
        i = palette[i % len(palette)]
    name, mk = CLASS_SPECS[i % NCLS]
    return getattr(S, name), mk


# ------------------------------------------------------------------ strategy
def _weighted(*pairs):
    """one_of with integer weights. Hypothesis drops repeated identical branches of one_of,
    so every repetition is wrapped into its own (distinct) mapped strategy."""
    branches = []
    for strat_, n in pairs:
        branches.append(strat_)
        for _ in range(n - 1):
            branches.append(strat_.map(lambda x: x))
    return st.one_of(*branches)


def strat(tier):
    maxlen = 30 if tier == "quick" else 60
    t_small = st.integers(0, 24)
    t = st.one_of(t_small, t_small.map(lambda x: x), t_small.map(lambda x: x), st.integers(0, 10 ** 6))
    ci = st.one_of(st.integers(0, NCLS - 1), st.sampled_from(PARENTS))
    ref = st.integers(0, 1000)
    # class of a query: as above, or the class (k=0) / the k-th timed ancestor of an object that is on the timeline
    # (independent draws mostly ask for classes that have no instance at all)
    qci = st.one_of(ci, st.tuples(st.just("o"), ref, st.sampled_from([0, 0, 1, 2, 3])))
    q = st.integers(1, 12)
    # a time relative to an existing time point (first/last/interior, also the far ones): ["p", ref, delta]
    t_rel = st.tuples(st.just("p"), ref, st.sampled_from([-1, 0, 0, 1]))
    opt_t = st.one_of(st.none(), t_small, st.integers(0, 30), t_rel, t_rel.map(lambda x: x))
    # type of the time arguments: python int / numpy.int64 / numpy.int32 (note_array_to_score passes array scalars)
    tt = st.sampled_from([0, 0, 0, 1, 2])
    add = st.tuples(st.just("add"), ci, t, st.integers(0, 12), st.sampled_from(["both", "both", "both", "start", "end"]), tt)
    add_nothing = st.tuples(st.just("add"), ci, t, st.integers(0, 12), st.just("none"), tt)
    readd = st.tuples(st.just("readd"), ref, t, st.integers(0, 12), st.sampled_from(["both", "both", "start", "end"]), tt)
    complete = st.tuples(st.just("complete"), ref, st.integers(0, 12))
    remove = st.tuples(st.just("remove"), ref, st.sampled_from(["both", "both", "start", "end"]))
    remove_dead = st.tuples(st.just("remove_dead"), ref, st.sampled_from(["both", "start", "end"]))
    setq = st.tuples(st.just("setq"), st.one_of(st.integers(0, 6), t_small, t_rel), st.one_of(st.integers(1, 3), q))
    point = st.tuples(st.just("point"), st.one_of(t, t_rel), tt)
    none_w = 10 if tier == "quick" else 15  # cls=None visits every class of the interpreter: slow, kept rare
    iter_all = st.tuples(
        st.just("iter_all"),
        st.tuples(st.integers(0, none_w), qci).map(lambda x: None if x[0] == 7 else x[1]),
        opt_t,
        opt_t,
        st.booleans(),
        st.sampled_from(["starting", "ending"]),
        st.sampled_from([False, True, 2, 2]),  # bounds as numbers / fresh TimePoints / the part's own TimePoints
    )
    # the callers' idiom iter_all(cls, x.start, y.end) with the TimePoint objects of registered objects
    iter_span = st.tuples(st.just("iter_span"), ref, ref, qci, st.booleans(), st.sampled_from(["starting", "ending"]))
    iter_nb = st.tuples(st.sampled_from(["iter_prev", "iter_next"]), ref, qci, st.booleans(), st.booleans())
    getp = st.tuples(st.just("get_point"), st.one_of(t_small, t_rel, st.integers(0, 10 ** 6)))
    qd = st.tuples(st.just("qdur"), opt_t, opt_t)
    setq_entry = st.tuples(st.just("setq_entry"), ref, st.sampled_from(["prev", "prev", "same", "new"]), q)
    op = _weighted((add, 3), (add_nothing, 1), (readd, 2), (complete, 1), (remove, 4), (remove_dead, 1), (setq, 2), (setq_entry, 1),
                   (point, 1), (iter_all, 3), (iter_span, 2), (iter_nb, 2), (getp, 1), (qd, 1))
    # a few additions first so that removals and queries have something to act on
    body = st.one_of(st.lists(op, min_size=1, max_size=8), st.lists(op, min_size=8, max_size=maxlen))
    # (sometimes many, so that crowded timelines with 20 and more time points occur)
    prefix = _weighted((st.lists(add, min_size=0, max_size=5), 3), (st.lists(add, min_size=10, max_size=18), 1))
    ops = st.tuples(prefix, body).map(lambda ab: list(ab[0]) + list(ab[1]))
    palette = _weighted((st.none(), 1), (st.lists(ci, min_size=1, max_size=4), 2))
    return st.fixed_dictionaries({"q0": st.integers(1, 4), "ops": ops, "palette": palette})


def _qcls(model, ci, palette=None):
    """Class of a query: index into CLASS_SPECS or ["o", ref, k] = k-th timed class in the MRO of a registered object."""
    if isinstance(ci, (list, tuple)):
        if not model.objs:
            return S.TimedObject
        mro = [c for c in type(model.objs[ci[1] % len(model.objs)][0]).__mro__ if issubclass(c, S.TimedObject)]
        return mro[min(ci[2], len(mro) - 1)]
    return _cls(ci, palette)[0]


def _tt(t, kind):
    if t is None or not kind:
        return t
    return np.int64(t) if kind == 1 else np.int32(t)


def _rt(model, x):
    """Resolve a time of a spec: a number, None, or ["p", ref, delta] = time of an existing point + delta."""
    if isinstance(x, (list, tuple)):
        pts = sorted(model.points)
        if not pts:
            return 0
        return max(0, pts[x[1] % len(pts)] + x[2])
    return x


# ------------------------------------------------------------------ reference model
class Model(object):
    def __init__(self, q0):
        self.objs = []  # [obj, start or None, end or None] in creation order
        self.dead = []  # objects that are (no longer / not yet) registered anywhere
        self.points = set()
        self.table = [(0, q0)]  # sorted explicit quarter entries

    def f(self, t, table=None):
        v = None
        for (tt, q) in table or self.table:
            if tt <= t:
                v = q
            else:
                break
        return v if v is not None else (table or self.table)[0][1]

    def regs_at(self, t):
        return [o for o in self.objs if o[1] == t or o[2] == t]

    @staticmethod
    def canon(table):
        out = []
        for (t, q) in table:
            if not out or out[-1][1] != q:
                out.append((t, q))
        return out

    def after_set(self, t, q):
        """The two acceptable canonical step functions after set(t, q)."""
        res = []
        nxt_entry = [tt for (tt, _) in self.table if tt > t]
        can = self.canon(self.table)
        nxt_change = [tt for (tt, _) in can if tt > t]
        for nxt in (nxt_entry[0] if nxt_entry else None, nxt_change[0] if nxt_change else None):
            tab = [(tt, qq) for (tt, qq) in self.table if tt < t]
            tab.append((t, q))
            if nxt is not None:
                tab.append((nxt, self.f(nxt)))
                tab.extend((tt, qq) for (tt, qq) in self.table if tt > nxt)
            res.append(self.canon(sorted(tab)))
        return res


def check_invariants(part, model, o, where):
    pts = list(part._points)
    ts = []
    for p in pts:
        if not isinstance(p, S.TimePoint):
            o.add("points-array-holds-non-timepoint", where=where)
            return
        ts.append(p.t)
    if any((not isinstance(t, (int, np.integer))) or t < 0 for t in ts):
        o.add("point-time-not-nonneg-int", times=ts, where=where)
    if any(b <= a for a, b in zip(ts, ts[1:])):
        o.add("points-not-strictly-increasing", times=ts, where=where)
    if set(ts) != model.points or len(ts) != len(model.points):
        extra = sorted(set(ts) - model.points)
        missing = sorted(model.points - set(ts))
        kind = "empty-or-unexpected-point-present" if extra else "point-missing"
        o.add(kind, extra=extra, missing=missing, where=where)
    # links
    for i, p in enumerate(pts):
        exp_prev = pts[i - 1] if i > 0 else None
        exp_next = pts[i + 1] if i + 1 < len(pts) else None
        if p.prev is not exp_prev:
            o.add("prev-link-wrong", at=p.t, got=None if p.prev is None else p.prev.t, expected=None if exp_prev is None else exp_prev.t, where=where)
            break
        if p.next is not exp_next:
            o.add("next-link-wrong", at=p.t, got=None if p.next is None else p.next.t, expected=None if exp_next is None else exp_next.t, where=where)
            break
    if (part.first_point is not (pts[0] if pts else None)) or (part.last_point is not (pts[-1] if pts else None)):
        o.add("first-or-last-point-wrong", where=where)
    # listings
    listed_s, listed_e = {}, {}
    for p in pts:
        n = 0
        for key, oo in p.starting_objects.items():
            for ob in oo:
                n += 1
                if type(ob) is not key:
                    o.add("object-listed-under-wrong-class", where=where)
                if ob.start is not p:
                    o.add("listed-object-start-is-not-listing-point", at=p.t, where=where)
                if id(ob) in listed_s:
                    o.add("object-listed-twice-as-starting", where=where)
                listed_s[id(ob)] = p.t
        for key, oo in p.ending_objects.items():
            for ob in oo:
                n += 1
                if type(ob) is not key:
                    o.add("object-listed-under-wrong-class", where=where)
                if ob.end is not p:
                    o.add("listed-object-end-is-not-listing-point", at=p.t, where=where)
                if id(ob) in listed_e:
                    o.add("object-listed-twice-as-ending", where=where)
                listed_e[id(ob)] = p.t
    exp_s = {id(ob): s for (ob, s, e) in model.objs if s is not None}
    exp_e = {id(ob): e for (ob, s, e) in model.objs if e is not None}
    if listed_s != exp_s:
        o.add("starting-registrations-differ-from-model", where=where, n_sut=len(listed_s), n_model=len(exp_s))
    if listed_e != exp_e:
        o.add("ending-registrations-differ-from-model", where=where, n_sut=len(listed_e), n_model=len(exp_e))
    for (ob, s, e) in model.objs:
        if not hasattr(ob, "start") or not hasattr(ob, "end"):
            o.add("timed-object-lacks-start-or-end-attribute", cls=type(ob).__name__, where=where)
            continue
        if (ob.start is None) != (s is None) or (ob.start is not None and ob.start.t != s):
            o.add("object-start-attribute-wrong", expected=s, got=None if ob.start is None else ob.start.t, where=where)
        if (ob.end is None) != (e is None) or (ob.end is not None and ob.end.t != e):
            o.add("object-end-attribute-wrong", expected=e, got=None if ob.end is None else ob.end.t, where=where)
        exp_dur = (e - s) if (s is not None and e is not None) else None
        if ob.duration != exp_dur:
            o.add("object-duration-wrong", expected=exp_dur, got=ob.duration, where=where)
    for ob in model.dead:
        if getattr(ob, "start", None) is not None or getattr(ob, "end", None) is not None or ob.duration is not None:
            o.add("unregistered-object-keeps-start-or-end", cls=type(ob).__name__, where=where)
            break
    # quarter durations
    qd = part.quarter_durations()
    table = [(int(a), int(b)) for a, b in qd]
    if any(b[0] <= a[0] for a, b in zip(table, table[1:])) or not table:
        o.add("quarter-table-not-increasing", table=table, where=where)
        return
    if model.canon(table) != model.canon(model.table):
        o.add("quarter-table-changed-unexpectedly", got=table, expected=model.table, where=where)
    for p in pts:
        if p.quarter != model.f(p.t, table):
            o.add("point-quarter-not-in-force-value", at=p.t, got=p.quarter, expected=model.f(p.t, table), table=table, where=where)
            break
    qmap = part.quarter_duration_map
    xs = sorted(set([0, 1, 5, 13, 25, 10 ** 6 + 1] + [t for t, _ in table] + [t - 1 for t, _ in table if t > 0] + ts[:8]))
    got = qmap(np.array(xs, dtype=float))
    for x, g in zip(xs, got):
        if g != model.f(x, table):
            o.add("quarter-duration-map-wrong", x=x, got=float(g), expected=model.f(x, table), table=table, where=where)
            break


def _expected_query(model, cls, start, end, incl, mode):
    idx = 1 if mode == "starting" else 2
    rows = []
    for rec in model.objs:
        t = rec[idx]
        if t is None:
            continue
        if start is not None and t < start:
            continue
        if end is not None and t >= end:
            continue
        ob = rec[0]
        if cls is None or type(ob) is cls or (incl and isinstance(ob, cls)):
            rows.append((t, id(ob)))
    return rows


def _compare_sequence(o, kind, got, expected_rows, time_of, decreasing=False, **info):
    """got: list of objects; expected_rows: list of (time, id). Multiset per time, monotone times."""
    got_rows = [(time_of(g), id(g)) for g in got]
    times = [t for t, _ in got_rows]
    mono = all((b <= a) if decreasing else (b >= a) for a, b in zip(times, times[1:]))
    if not mono:
        o.add(kind + "-not-in-time-order", times=times, **info)
    if sorted(got_rows) != sorted(expected_rows):
        o.add(kind + "-wrong-result", n_got=len(got_rows), n_expected=len(expected_rows),
              got_times=sorted(times), expected_times=sorted(t for t, _ in expected_rows), **info)


def oracle(spec):
    o = Outcome()
    part = S.Part("P1", quarter_duration=spec["q0"])
    model = Model(spec["q0"])
    max_points = 0
    pal = spec.get("palette")
    o.cls("history-with-class-palette", bool(pal))
    emptied = False
    after_emptied = False
    for step, op in enumerate(spec["ops"]):
        kind = op[0]
        where = "step %d %s" % (step, kind)
        mutating = False
        try:
            if kind in ("add", "readd"):
                if kind == "add":
                    _, ci, s, dur, how = op[:5]
                    cls, mk = _cls(ci, pal)
                    ob = mk(cls)
                    o.cls("class-RomanNumeral", cls is S.RomanNumeral)
                else:
                    # an object that was registered before and removed completely (or added with neither time) is added again
                    if not model.dead:
                        continue
                    _, ref, s, dur, how = op[:5]
                    ob = model.dead.pop(ref % len(model.dead))
                    o.cls("re-add-of-removed-object")
                tkind = op[5] if len(op) > 5 else 0
                ss = s if how in ("both", "start") else None
                ee = s + dur if how in ("both", "end") else None
                mutating = True
                if ss is None and ee is None:
                    # documented: "If neither is provided this method does nothing"
                    model.dead.append(ob)
                    o.cls("add-with-neither-start-nor-end")
                else:
                    model.objs.append([ob, ss, ee])
                    for t in (ss, ee):
                        if t is not None:
                            model.points.add(t)
                o.cls("add-into-bucket-that-already-holds-an-object-of-that-class",
                      any(type(r[0]) is type(ob) and r[0] is not ob and ((ss is not None and r[1] == ss) or (ee is not None and r[2] == ee)) for r in model.objs))
                call(part.add, ob, _tt(ss, tkind), _tt(ee, tkind))
                o.cls("add-equal-start-end", ss is not None and ss == ee)
                o.cls("add-half-registered", how in ("start", "end"))
                o.cls("add-times-numpy-int64", tkind == 1 and how != "none")
                o.cls("add-times-numpy-int32", tkind == 2 and how != "none")
            elif kind == "complete":
                cand = [r for r in model.objs if (r[1] is None) != (r[2] is None)]
                if not cand:
                    continue
                r = cand[op[1] % len(cand)]
                if r[1] is None:
                    s = max(0, r[2] - op[2])
                    call(part.add, r[0], s, None)
                    r[1] = s
                    model.points.add(s)
                else:
                    e = r[1] + op[2]
                    call(part.add, r[0], None, e)
                    r[2] = e
                    model.points.add(e)
                mutating = True
                o.cls("complete-half-registered")
            elif kind == "remove":
                cand = [r for r in model.objs if r[1] is not None or r[2] is not None]
                if not cand:
                    continue
                r = cand[op[1] % len(cand)]
                which = op[2]
                touched = []
                if which in ("start", "both") and r[1] is not None:
                    touched.append(r[1])
                    r[1] = None
                if which in ("end", "both") and r[2] is not None:
                    touched.append(r[2])
                    r[2] = None
                pts_before = sorted(model.points)
                for t in touched:
                    if not model.regs_at(t) and t in model.points:
                        model.points.discard(t)
                        emptied = True
                        o.cls("removal-empties-first-point", t == pts_before[0])
                        o.cls("removal-empties-last-point", t == pts_before[-1])
                        o.cls("removal-empties-interior-point", pts_before[0] < t < pts_before[-1])
                o.cls("remove-both-of-object-starting-and-ending-at-one-point", which == "both" and len(touched) == 2 and touched[0] == touched[1])
                if r[1] is None and r[2] is None:
                    model.objs.remove(r)
                    model.dead.append(r[0])
                o.cls("part-emptied-completely", not model.points)
                mutating = True
                call(part.remove, r[0], which)
            elif kind == "remove_dead":
                # removing an object that is not registered (any more) is a no-op (guard "and o.start" / "and o.end")
                if not model.dead:
                    continue
                mutating = True
                o.cls("remove-of-unregistered-object")
                call(part.remove, model.dead[op[1] % len(model.dead)], op[2])
            elif kind in ("setq", "setq_entry"):
                if kind == "setq_entry":
                    # aim at an existing table entry: previous segment's value / same value / new value
                    idx = op[1] % len(model.table)
                    t = model.table[idx][0]
                    q = model.table[idx - 1][1] if (op[2] == "prev" and idx > 0) else (model.table[idx][1] if op[2] == "same" else op[3])
                else:
                    _, t, q = op
                    o.cls("setq-relative-to-existing-point", isinstance(t, (list, tuple)) and bool(model.points))
                    t = _rt(model, t)
                    o.cls("setq-beyond-last-point", bool(model.points) and t > max(model.points))
                before = model.canon(model.table)
                cands = model.after_set(t, q)
                o.cls("setq-at-existing-entry", any(tt == t for tt, _ in model.table))
                o.cls("setq-redundant", model.f(t) == q)
                prev_val = model.f(t - 1) if t > 0 else None
                o.cls("setq-replace-with-previous-value", any(tt == t for tt, _ in model.table) and prev_val == q and model.f(t) != q)
                mutating = True
                call(part.set_quarter_duration, t, q)
                table = [(int(a), int(b)) for a, b in part.quarter_durations()]
                got = model.canon(table)
                if got not in cands:
                    o.add("set-quarter-duration-wrong-step-function", t=t, q=q, before=before, got=got, expected=cands[0], where=where)
                    # adopt the expected reading so that the rest of the history is still judged
                    model.table = cands[0]
                    check_invariants(part, model, Outcome(), where)
                    break
                o.cls("setq-ambiguous-next-change", cands[0] != cands[1])
                model.table = table
            elif kind == "point":
                t = _rt(model, op[1])
                tkind = op[2] if len(op) > 2 else 0
                o.cls("get-or-add-existing-point", t in model.points)
                tp = call(part.get_or_add_point, _tt(t, tkind))
                model.points.add(t)
                mutating = True
                if not isinstance(tp, S.TimePoint) or tp.t != t or tp is not part.get_point(t):
                    o.add("get-or-add-point-wrong", t=t, where=where)
                elif tp.quarter != model.f(t):
                    o.add("new-point-quarter-wrong", t=t, got=tp.quarter, expected=model.f(t), where=where)
                o.cls("explicit-empty-point", not model.regs_at(t))
            elif kind == "iter_all":
                _, ci, start, end, incl, mode, as_tp = op
                cls = None if ci is None else _qcls(model, ci, pal)
                o.cls("query-cls-none", cls is None)
                o.cls("query-include-subclasses-on-parent", incl and cls is not None and bool(cls.__subclasses__()))
                start, end = _rt(model, start), _rt(model, end)
                o.cls("query-bound-on-first-or-last-point", bool(model.points) and any(x in (min(model.points), max(model.points)) for x in (start, end)))
                o.cls("query-start-after-end", start is not None and end is not None and start > end)
                o.cls("query-mode-ending", mode == "ending")

                def bound(x):
                    if x is None or not as_tp:
                        return x
                    if as_tp == 2:
                        # the way callers do it: iter_all(cls, measure.start, measure.end) with the part's own points
                        live = [p for p in part._points if p.t == x]
                        if live:
                            o.cls("query-bound-is-own-timepoint")
                            return live[0]
                    return S.TimePoint(x)

                a, b = bound(start), bound(end)
                for nm, x, y in (("start", start, a), ("end", end, b)):
                    if isinstance(y, S.TimePoint) and as_tp == 2 and (y.prev is not None or y.next is not None):
                        o.cls("query-%s-is-own-timepoint-that-lists-a-matching-object" % nm, bool(_expected_query(model, cls, x, x + 1, incl, mode)))
                got = call(lambda: list(part.iter_all(cls, a, b, include_subclasses=incl, mode=mode)))
                exp = _expected_query(model, cls, start, end, incl, mode)
                o.cls("iter-all-expected-result-nonempty", bool(exp))
                o.cls("iter-all-expected-result-nonempty-with-bound", bool(exp) and (start is not None or end is not None))
                tof = (lambda g: g.start.t if g.start is not None else -1) if mode == "starting" else (lambda g: g.end.t if g.end is not None else -1)
                _compare_sequence(o, "iter-all", got, exp, tof, where=where, mode=mode, incl=incl, cls=None if cls is None else cls.__name__, start=start, end=end)
            elif kind == "iter_span":
                _, r1, r2, ci, incl, mode = op
                if not model.objs:
                    continue
                ob1 = model.objs[r1 % len(model.objs)][0]
                ob2 = model.objs[r2 % len(model.objs)][0]
                a = ob1.start if ob1.start is not None else ob1.end
                b = ob2.end if ob2.end is not None else ob2.start
                if a.t > b.t and (r1 + r2) % 4:
                    a, b = b, a
                cls = _qcls(model, ci, pal)
                got = call(lambda: list(part.iter_all(cls, a, b, include_subclasses=incl, mode=mode)))
                exp = _expected_query(model, cls, a.t, b.t, incl, mode)
                o.cls("iter-span-between-own-timepoints")
                o.cls("iter-span-expected-result-nonempty", bool(exp))
                o.cls("iter-span-end-point-lists-a-matching-object", a.t <= b.t and bool(_expected_query(model, cls, b.t, b.t + 1, incl, mode)))
                tof = (lambda g: g.start.t if g.start is not None else -1) if mode == "starting" else (lambda g: g.end.t if g.end is not None else -1)
                _compare_sequence(o, "iter-all", got, exp, tof, where=where, mode=mode, incl=incl, cls=cls.__name__, start=a.t, end=b.t)
            elif kind in ("iter_prev", "iter_next"):
                _, ref, ci, eq, incl = op
                pts = sorted(model.points)
                if not pts:
                    continue
                t0 = pts[ref % len(pts)]
                tp = call(part.get_point, t0)
                if tp is None:
                    o.add("get-point-missed-existing-point", t=t0, where=where)
                    continue
                cls = _qcls(model, ci, pal)
                fn = tp.iter_prev if kind == "iter_prev" else tp.iter_next
                got = call(lambda: list(fn(cls, eq=eq, include_subclasses=incl)))
                if kind == "iter_prev":
                    lo, hi = None, (t0 + 1 if eq else t0)
                else:
                    lo, hi = (t0 if eq else t0 + 1), None
                exp = _expected_query(model, cls, lo, hi, incl, "starting")
                o.cls("iter-prev-next-expected-result-nonempty", bool(exp))
                o.cls("iter-prev-next-eq-with-object-at-the-point", eq and any(t_ == t0 for t_, _ in exp))
                _compare_sequence(o, kind.replace("_", "-"), got, exp, lambda g: g.start.t if g.start is not None else -1,
                                  decreasing=(kind == "iter_prev"), where=where, eq=eq, incl=incl, cls=cls.__name__, at=t0)
            elif kind == "get_point":
                t = _rt(model, op[1])
                o.cls("get-point-existing", t in model.points)
                o.cls("get-point-absent", t not in model.points)
                tp = call(part.get_point, t)
                if (tp is not None) != (t in model.points) or (tp is not None and tp.t != t):
                    o.add("get-point-wrong", t=t, got=None if tp is None else tp.t, where=where)
            elif kind == "qdur":
                _, a, b = op
                a, b = _rt(model, a), _rt(model, b)
                got = call(part.quarter_durations, a, b)
                exp = [(t, q) for (t, q) in model.table if (a is None or t >= a) and (b is None or t < b)]
                if [(int(x), int(y)) for x, y in got] != exp:
                    o.add("quarter-durations-range-wrong", start=a, end=b, got=[(int(x), int(y)) for x, y in got], expected=exp, where=where)
        except SutRaised as e:
            o.add(e.kind, text=e.text, where=where, op=list(op))
            sub = Outcome()
            check_invariants(part, model, sub, where + " (after exception)")
            for d in sub.discs:
                o.add("left-partly-updated:" + d.kind, d["detail"])
            break
        if emptied and not after_emptied and kind != "remove":
            after_emptied = True
        check_invariants(part, model, o, where)
        max_points = max(max_points, len(model.points))
        if o.discs:
            break
    o.cls("timeline-reaches-20-or-more-points", max_points >= 20)
    o.nontrivial = emptied and after_emptied
    o.cls("history-longer-than-12-operations", len(spec["ops"]) > 12)
    o.cls("history-with-emptied-point-then-more", o.nontrivial)
    return o


SUBCHECKS = [
    SubCheck(
        "timeline_histories",
        oracle,
        strategy=strat,
        budget={"quick": 600, "thorough": 8000},
        rule="generated histories of add (by start, end, both, neither; python and numpy integer times)/complete/remove/re-add of removed objects/set_quarter_duration/get_or_add_point/queries (bounds as numbers, fresh or the part's own TimePoints) over 56 timed-object classes, invariant after every step; non-trivial = a removal empties a time point and a later query or edit follows",
        floors={"history-with-emptied-point-then-more": 0.05, "query-include-subclasses-on-parent": 0.03, "setq-at-existing-entry": 0.03,
                "re-add-of-removed-object": 0.05, "add-times-numpy-int32": 0.05, "add-times-numpy-int64": 0.05, "query-cls-none": 0.01,
                "query-bound-is-own-timepoint": 0.03, "add-into-bucket-that-already-holds-an-object-of-that-class": 0.1, "iter-span-end-point-lists-a-matching-object": 0.03, "query-end-is-own-timepoint-that-lists-a-matching-object": 0.01, "query-start-is-own-timepoint-that-lists-a-matching-object": 0.01, "iter-all-expected-result-nonempty-with-bound": 0.05, "iter-prev-next-eq-with-object-at-the-point": 0.03, "history-longer-than-12-operations": 0.2, "timeline-reaches-20-or-more-points": 0.05, "add-with-neither-start-nor-end": 0.03},
    ),
]
