"""C08 - saving an alignment as a match file and loading it returns the same data.

Sub-checks

``roundtrip``   generated (score part, performed part, alignment) triples are written with
                ``save_match`` and read back with ``load_match(create_score=True)``; the
                alignment, the performance and the reconstructed score are compared with
                values computed from the abstract spec (exact integer / Fraction arithmetic).
``fixtures``    the match files shipped with the test-suite (versions 1.0.0 and 0.4.0 style)
                are loaded; the lines are counted by an independent regular-expression
                reader and compared with what the loader returns, duplicate ids being
                resolved as ``validate_match_ids`` documents.
``duplicates``  a generated file is written, note lines are duplicated / given conflicting
                partners (match + deletion, match + insertion, repeated identical lines) and
                the file is loaded: identical lines collapse, conflicting deletions and
                insertions are dropped, matches kept.
"""

import os
import pathlib
import re
import signal
import tempfile
from collections import Counter
from fractions import Fraction
from math import gcd

import numpy as np
from hypothesis import strategies as st

import partitura.score as S
from partitura.io.exportmatch import matchfile_from_alignment, save_match
from partitura.io.importmatch import load_match
from partitura.io.matchfile_base import MatchFile
from pbt.core import Outcome, SubCheck, SutRaised, call, load_known_findings
from pbt.gen import c08_align as A
from pbt.gen import scorespec as G

PROPERTY = "C08"
ENGINES = ["hypothesis", "enumeration"]
ASSUMPTIONS = [
    "score parts: one divisions value, time/key signature changes on bar lines only, complete final measure, every sounding note (tie chains merged) is matched or deleted, every performed note is a match, an insertion or an ornament",
    "the first and the last bar contain the onset of a sounding note (the format knows bars only through the notes that start in them; bars of rests at either end cannot be expressed); bars without onsets in the middle are generated",
    "performed note ids are strings; ids that do not start with 'n' come back prefixed with 'n' (what exporter and importer both do on purpose)",
    "with assume_unfolded=False the score ids come back with the suffix '-1' that unfolding gives to the first copy of a note",
    "offset / duration fractions whose reduced numerator or denominator exceeds 1024 are approximated by FractionalSymbolicDuration (documented bound): such cases are generated rarely and not judged for score timing",
    "positions before the first sounding note of a piece that starts with a pickup cannot be expressed by the loader (time 0 is the first note): the start of the first measure is then expected at the first note; the distance from the first note to the first full bar is written only as a 4-decimal beat value, cases where it is not on the grid of the written fractions are not judged for the score",
    "an alignment with fewer than two matched onsets gives no performance-to-score time map; an exporter failure on such input is counted, not judged",
    "tick ties (x.5 within 1e-6) accept either neighbour; seconds compared with 1e-9 relative tolerance; beats with 1e-6; quarter positions of notes, measures and signatures exactly (Fractions of integer divisions)",
    "track numbers are renumbered by Performance.sanitize_track_numbers on purpose: only 'kept apart and in order' is demanded; repeated identical pedal lines are one line (the loader removes repeated lines on purpose), pedal events are compared as a time-ordered set of (tick, value)",
    "articulations other than staccato and accent, fermatas, fingerings, grace type, clefs, tuplets and rests are written or generated but not demanded back",
    "a watchdog of 30 s per call (3 s on inputs of the two open findings that produce fractional time points) turns a non-terminating save/load into a discrepancy (calls take milliseconds)",
    "ornament type: a string t and the one-element list [t] are treated as the same type",
    "second generation: save_match(assume_unfolded=True) of the triple returned by load_match(create_score=True), loaded again, is compared with the first load (alignment, performed notes in ticks, pedals, clock, score notes in quarters with spelling / voice / staff / supported articulations, measures, signatures); only done when the first load was judged and agreed with the spec",
    "load_match(first_note_at_zero=True, pedal_threshold=t) is compared with the plain load of the same file: note ticks and seconds shifted by the first onset tick, pedals and alignment unchanged, the part's threshold equal to t",
    "header texts are compared with the info lines of the file after strip(); tempo_indication and diff_score_version_notes (documented parameters of matchfile_from_alignment) are checked in the text of the file; diff_score_version_notes are only given together with assume_part_unfolded=True (they name ids of the unfolded part)",
    "a performed part built by PerformedPart.from_note_array has single-precision times: the float32 value is the original time",
    "fixtures: only the three files under tests/data/match exist (formats 1.0.0 and 0.4.0); the duplicates sub-check writes 1.0.0 and 0.5.0 files itself",
]

WATCHDOG_S = 30
SHORT_WATCHDOG_S = 3
SUPPORTED_ART = ("staccato", "accent")
BOUND = 1024


class NotFinished(BaseException):
    pass


class watchdog(object):
    def __init__(self, seconds=WATCHDOG_S):
        self.seconds = seconds

    def __enter__(self):
        def handler(signum, frame):
            # an exception raised inside a gc callback or a destructor is swallowed (and printed):
            # wait for the next tick of the interval timer instead
            f, depth = frame, 0
            while f is not None and depth < 4:
                if f.f_code.co_name in ("gc_callback", "__del__"):
                    return
                f, depth = f.f_back, depth + 1
            raise NotFinished()

        self.old = signal.signal(signal.SIGALRM, handler)
        signal.setitimer(signal.ITIMER_REAL, self.seconds, 0.5)

    def __exit__(self, *a):
        signal.setitimer(signal.ITIMER_REAL, 0)
        signal.signal(signal.SIGALRM, self.old)
        return False


def guarded(fn, *a, **k):
    """call() with a watchdog; a hang becomes SutRaised('sut-hang:<fn>')."""
    seconds = k.pop("_watchdog", WATCHDOG_S)
    try:
        with watchdog(seconds):
            return call(fn, *a, **k)
    except NotFinished:
        raise SutRaised("sut-hang:" + getattr(fn, "__name__", "?"), "no result after %d s" % seconds) from None


# Open findings (KNOWN_FINDINGS.txt / findings.d).  Two of them make part_from_matchfile build a
# timeline with fractional time points on which add_measures may not terminate; while they are
# open the affected inputs (and only those) get a short watchdog so that the search stays fast.
try:
    _OPEN = set(load_known_findings()[0].get("C08", {}))
except Exception:  # pragma: no cover
    _OPEN = set()


# ----------------------------------------------------------------------------------------------
# reference values
# ----------------------------------------------------------------------------------------------
def expected_ticks(t, ppq, mpq):
    """Set of acceptable tick values for the time t (float seconds)."""
    x = Fraction(t) * 10 ** 6 * ppq / mpq
    lo = x.numerator // x.denominator
    frac = x - lo
    if abs(frac - Fraction(1, 2)) <= Fraction(1, 10 ** 6):
        return {lo, lo + 1}
    return {lo + 1} if frac > Fraction(1, 2) else {lo}


def norm_type(t):
    if t is None:
        return None
    if isinstance(t, (list, tuple)):
        return tuple(str(x) for x in t)
    return (str(t),)


def al_key(a):
    return (a.get("label"), a.get("score_id"), a.get("performance_id"), norm_type(a.get("type")))


def pid_out(pid):
    pid = str(pid)
    return pid if pid.startswith("n") else "n" + pid


class ScoreRef(object):
    """What the loaded score has to look like, from the part spec alone."""

    def __init__(self, ps):
        self.ps = ps
        self.tr = G.TimeRef(ps)
        self.ref = self.tr.ref
        self.d = int(ps["divs"][0][1])
        self.byid = {n["id"]: n for n in ps["notes"]}
        self.sounding = self.ref.sounding_notes()
        self.first_onset = min(t for (t, _, _, _, _) in self.sounding) if self.sounding else 0
        self.pickup = ps.get("pickup") is not None
        # origin of the loaded timeline (in score divisions): the first note for a pickup
        # piece that starts before beat 0, else the start of the bar at beat 0
        if self.pickup and self.first_onset < ps["measures"][0][1]:
            self.origin = self.first_onset
        elif self.pickup:
            self.origin = ps["measures"][0][1]
        else:
            self.origin = 0

    def q(self, t):
        """Quarters from the origin of the loaded timeline."""
        return Fraction(t - self.origin, self.d)

    def bar_of(self, t):
        for i, m in enumerate(self.ps["measures"]):
            if m[0] <= t < m[1]:
                return i
        return len(self.ps["measures"]) - 1

    def beat_unit_at(self, t):
        return self.ref.ts_at(t)[1]

    def beyond_bound(self):
        """Does any written fraction exceed the bound of FractionalSymbolicDuration?"""
        for (t, dur, _, hid, _) in self.sounding:
            m = self.ps["measures"][self.bar_of(t)]
            b, bt = self.ref.ts_at(t)
            in_bar_whole = Fraction(t - m[0], self.d * 4)
            # offset within the beat in whole notes, whichever beat unit is used (quarter or 1/bt)
            for unit in (Fraction(1, 4), Fraction(1, bt)):
                off = in_bar_whole - (in_bar_whole // unit) * unit
                if off.numerator > BOUND or off.denominator > BOUND:
                    return True
            dw = Fraction(dur, self.d * 4)
            if dw.numerator > BOUND or dw.denominator > BOUND:
                return True
        return False

    def written_grid(self):
        """lcm of the denominators (in quarters) of the offsets and durations a file can carry."""
        g = 1
        for (t, dur, _, hid, _) in self.sounding:
            m = self.ps["measures"][self.bar_of(t)]
            b, bt = self.ref.ts_at(t)
            beat_divs = Fraction(self.d * 4, bt)
            x = Fraction(t - m[0])
            off_q = (x - (x // beat_divs) * beat_divs) / self.d
            for f in (off_q, Fraction(dur, self.d)):
                g = g * f.denominator // gcd(g, f.denominator)
        return g

    def pickup_on_grid(self):
        """The distance from the first note to the first full bar is only written as a 4-decimal
        float (the format has no measure lengths): it can be restored exactly only if it lies
        on the grid given by the written fractions."""
        if not self.pickup or self.origin != self.first_onset:
            return True
        x = Fraction(self.ps["measures"][0][1] - self.origin, self.d)
        return (x * self.written_grid()).denominator == 1

    # ---- input conditions under which known defects show (used by the known-finding predicates)
    def bars_with_onsets(self):
        return set(self.bar_of(t) for (t, _, _, _, _) in self.sounding)

    def t_beat_in_quarters(self):
        """A note whose beat number differs when counted in quarters instead of beat units."""
        for (t, _, _, _, _) in self.sounding:
            b, bt = self.ref.ts_at(t)
            if bt == 4:
                continue
            x = t - self.ps["measures"][self.bar_of(t)][0]
            if x >= min(Fraction(self.d), Fraction(self.d * 4, bt)):
                return True
        return False

    def t_beat_type_change(self):
        return len(set(bt for (_, _, bt) in self.ref.timesigs)) > 1

    def t_empty_interior_bar(self):
        return len(self.bars_with_onsets()) < len(self.ps["measures"])

    def t_signature_in_empty_bar(self):
        have = self.bars_with_onsets()
        sig_t = [t for (t, _, _) in self.ref.timesigs] + [k[0] for k in self.ps.get("keysigs", [])]
        return any(self.bar_of(t) not in have for t in sig_t)

    def t_inexact_onset_in_signature_bar(self):
        """A signature in a bar whose position the loader derives from a 4-decimal onset that is not exact."""
        def inexact(t):
            return (self.tr.beat(t) * 10 ** 4).denominator != 1

        first = {}
        for (t, _, _, _, _) in self.sounding:
            b = self.bar_of(t)
            first[b] = min(first.get(b, t), t)
        sig_t = [t for (t, _, _) in self.ref.timesigs] + [k[0] for k in self.ps.get("keysigs", [])]
        for t in sig_t:
            b = self.bar_of(t)
            if b in first and (inexact(first[b]) or inexact(self.first_onset)):
                return True
        return False

    def measures(self):
        """[(start_q, end_q)] expected in the loaded part."""
        out = []
        for m in self.ps["measures"]:
            if m[1] <= self.origin:
                continue
            out.append((self.q(max(m[0], self.origin)), self.q(m[1])))
        return out

    def timesigs(self):
        out = []
        for (t, b, bt) in self.ref.timesigs:
            e = (max(self.q(t), Fraction(0)), b, bt)
            if out and out[-1][0] == e[0]:
                out[-1] = e
            elif out and out[-1][1:] == e[1:]:
                continue
            else:
                out.append(e)
        return out

    def keysigs(self):
        out = []
        for (t, f, mode) in sorted(self.ps.get("keysigs", []), key=lambda x: x[0]):
            e = (max(self.q(t), Fraction(0)), int(f), mode or "major")
            if out and out[-1][0] == e[0]:
                out[-1] = e
            elif out and out[-1][1:] == e[1:]:
                continue
            else:
                out.append(e)
        return out


def collapse(seq):
    out = []
    for e in seq:
        if out and out[-1][1:] == e[1:]:
            continue
        out.append(e)
    return out


# ----------------------------------------------------------------------------------------------
# round trip oracle
# ----------------------------------------------------------------------------------------------
INFO_RE = re.compile(r"^info\((midiClockUnits|midiClockRate),([^)]*)\)\.\s*$")
SCOREPROP_RE = re.compile(r"^scoreprop\(([A-Za-z]+),(.*),(-?\d+):(-?\d+),([^,]+),(-?[0-9.]+)\)\.\s*$")


def classify(o, spec, sr):
    ps = spec["part"]
    labels = Counter(a["label"] for a in spec["alignment"])
    beat_types = set(bt for (_, _, bt) in sr.ref.timesigs)
    o.cls("has-deletion", labels["deletion"] > 0)
    o.cls("has-insertion", labels["insertion"] > 0)
    o.cls("has-ornament", labels["ornament"] > 0)
    o.cls("no-match-at-all", labels["match"] == 0)
    o.cls("pedal", any(c["number"] in (64, 67) for c in spec["controls"]))
    o.cls("soft-pedal", any(c["number"] == 67 for c in spec["controls"]))
    o.cls("other-controller", any(c["number"] not in (64, 67) for c in spec["controls"]))
    o.cls("pickup", sr.pickup)
    o.cls("non-quarter-beat", any(bt != 4 for bt in beat_types))
    o.cls("compound-or-halves", any((b, bt) in ((6, 8), (9, 8), (12, 8), (2, 2), (3, 2)) for (_, b, bt) in sr.ref.timesigs))
    o.cls("ts-change", len(sr.ref.timesigs) > 1)
    o.cls("key-signature", bool(ps.get("keysigs")))
    o.cls("key-signature-not-at-start", any(k[0] > 0 for k in ps.get("keysigs", [])))
    _ks = sorted(ps.get("keysigs", []), key=lambda k: k[0])
    o.cls("key-returns-to-an-earlier-key", any(_ks[j][1:] == _ks[i][1:] and any(_ks[m][1:] != _ks[i][1:] for m in range(i + 1, j)) for i in range(len(_ks)) for j in range(i + 2, len(_ks))))
    o.cls("grace", any(n["kind"] == "grace" for n in ps["notes"]))
    o.cls("tie-chain", any(n.get("tie_next") for n in ps["notes"]))
    o.cls("tie-over-barline", any(sr.bar_of(t) != sr.bar_of(t + dur - 1) for (t, dur, _, _, _) in sr.sounding if dur > 0))
    o.cls("tuplet", bool(ps.get("tuplets")))
    o.cls("chord-or-voices", len(set(t for (t, _, _, _, _) in sr.sounding)) < len(sr.sounding))
    o.cls("two-staves", len(set(n.get("staff") for n in ps["notes"])) > 1)
    o.cls("articulation", any(n.get("art") for n in ps["notes"]))
    o.cls("fermata-or-fingering", any(n.get("fermata") or n.get("fingering") for n in ps["notes"]))
    o.cls("assume-unfolded-false", not spec["unfolded"])
    o.cls("ppq-mpq-not-default", (spec["ppq"], spec["mpq"]) != (480, 500000))
    o.cls("perf-id-without-n", any(not str(p["id"]).startswith("n") for p in spec["pnotes"]))
    o.cls("leading-rest", sr.first_onset > 0)
    # generator audit
    vs = sorted(set(n["voice"] for n in ps["notes"] if n["kind"] in ("note", "grace") and n.get("voice") is not None))
    o.cls("voice-numbers-with-gaps", bool(vs) and vs != list(range(1, len(vs) + 1)))
    o.cls("voice-0", 0 in vs)
    o.cls("voice-number-of-two-digits", any(v >= 10 for v in vs))
    o.cls("staff-3", any(n.get("staff") == 3 for n in ps["notes"]))
    o.cls("double-alteration", any(n["kind"] in ("note", "grace") and n["alter"] in (2, -2) for n in ps["notes"]))
    o.cls("natural-stated-as-none", any(n["kind"] in ("note", "grace") and n["alter"] is None for n in ps["notes"]))
    o.cls("api:" + spec.get("api", "save_match"))
    o.cls("score-in-part-group", spec.get("score_in_group", False) and spec.get("api", "save_match") == "save_match")
    o.cls("out:" + spec.get("out_as", "str"))
    o.cls("header-texts-given", bool(spec.get("header")))
    o.cls("pedal-dicts-without-track-channel", spec.get("bare_controls", False) and bool(spec["controls"]))
    o.cls("performed-part-from-note-array", spec.get("pp_build", "dict") == "note_array")
    o.cls("tempo-indication", spec.get("tempo_indication") is not None)
    o.cls("diff-score-version-notes", bool(spec.get("diff_notes")))
    bars_with_onsets = set(sr.bar_of(t) for (t, _, _, _, _) in sr.sounding)
    o.cls("bar-without-note-onset", len(bars_with_onsets) < len(ps["measures"]))
    o.nontrivial = bool((labels["deletion"] and labels["insertion"]) or sr.pickup or any(bt != 4 for bt in beat_types))
    return bars_with_onsets


def oracle(spec):
    o = Outcome()
    ps = spec["part"]
    sr = ScoreRef(ps)
    classify(o, spec, sr)
    if not sr.sounding:
        o.excluded.append("part-without-sounding-note")
        return o
    ppq, mpq = int(spec["ppq"]), int(spec["mpq"])
    part, score_data, ppart, perf_data, alignment = A.build(spec)
    unfolded = bool(spec["unfolded"])
    sfx = "" if unfolded else "-1"

    matched_onsets = set()
    byid = {}
    for (t, dur, pitch, hid, ids) in sr.sounding:
        byid[hid] = (t, dur)
    for a in spec["alignment"]:
        if a["label"] == "match" and byid[a["score_id"]][1] > 0:
            matched_onsets.add(byid[a["score_id"]][0])

    with tempfile.TemporaryDirectory() as tmp:
        out = os.path.join(tmp, "c08.match")
        header = dict(spec.get("header") or {})
        hkw = dict(header)
        if spec.get("header_path") and "score_filename" in hkw:
            hkw["score_filename"] = pathlib.PurePosixPath(hkw["score_filename"])
        api, out_as = spec.get("api", "save_match"), spec.get("out_as", "str")
        diff_notes = list(spec.get("diff_notes") or []) if unfolded else []
        try:
            if api == "from_alignment":
                # the function behind save_match, with its two further documented parameters
                ret = guarded(matchfile_from_alignment, alignment, ppart, part, mpq=mpq, ppq=ppq, assume_part_unfolded=unfolded,
                              tempo_indication=spec.get("tempo_indication"), diff_score_version_notes=diff_notes or None, **hkw)
            elif out_as == "none":
                ret = guarded(save_match, alignment, perf_data, score_data, None, mpq=mpq, ppq=ppq, assume_unfolded=unfolded, **hkw)
            else:
                ret = guarded(save_match, alignment, perf_data, score_data, pathlib.Path(out) if out_as == "pathlib" else out,
                              mpq=mpq, ppq=ppq, assume_unfolded=unfolded, **hkw)
                if ret is not None:
                    o.add("save-match-returned-something-with-out-given", got=type(ret).__name__)
            if api == "from_alignment" or out_as == "none":
                if not isinstance(ret, MatchFile):
                    o.add("no-matchfile-returned", got=type(ret).__name__)
                    return o
                guarded(ret.write, pathlib.Path(out) if out_as == "pathlib" else out)
            if not os.path.exists(out):
                o.add("no-file-written", out_as=out_as, api=api)
                return o
        except SutRaised as e:
            if len(matched_onsets) < 2 and not e.kind.startswith("sut-hang"):
                o.excluded.append("export-raises-with-fewer-than-two-matched-onsets")
                return o
            o.add("export-" + e.kind, text=e.text, unfolded=unfolded)
            return o
        text = open(out).read()
        perf = al2 = scr = None
        wd = WATCHDOG_S
        if ("export-beat-in-quarters" in _OPEN and sr.t_beat_in_quarters()) or (
            "import-beats-to-quarters-with-beat-type-change" in _OPEN and sr.t_beat_type_change()
        ):
            wd = SHORT_WATCHDOG_S
        # inputs whose score cannot be carried exactly by the format (see ASSUMPTIONS) are loaded without a score
        not_judged = None
        if sr.beyond_bound():
            not_judged = "fraction-beyond-1024-bound"
        elif not sr.pickup_on_grid():
            not_judged = "pickup-length-not-on-the-grid-of-written-fractions"
        if not_judged:
            o.excluded.append(not_judged)
        try:
            if not_judged:
                perf, al2 = guarded(load_match, out, create_score=False)
            else:
                perf, al2, scr = guarded(load_match, out, create_score=True, _watchdog=wd)
        except SutRaised as e:
            o.add(("load-" if not_judged else "load-score-") + e.kind, text=e.text)
            if not_judged:
                return o
            try:
                perf, al2 = guarded(load_match, out, create_score=False)
            except SutRaised as e2:
                o.add("load-" + e2.kind, text=e2.text)
                return o
        # ---- audit: the loaded triple saved again, and the file loaded with other options -------------
        second = reloaded = None
        if scr is not None and spec.get("resave", False):
            second = resave(o, tmp, perf, al2, scr, mpq, ppq)
        rl = spec.get("reload")
        if rl and perf is not None:
            try:
                reloaded = guarded(load_match, out, create_score=False, first_note_at_zero=rl["first_note_at_zero"], pedal_threshold=rl["pedal_threshold"])
            except SutRaised as e:
                o.add("reload-" + e.kind, text=e.text, options=rl)

    # ---- audit: header texts, tempo indication, notes marked as another score version ---------------
    check_header_lines(o, spec, text, header, diff_notes)

    # ---- header: clock units and rate ------------------------------------------------------
    info = {}
    for line in text.splitlines():
        m = INFO_RE.match(line)
        if m:
            info[m.group(1)] = m.group(2)
    if info.get("midiClockUnits") != str(ppq) or info.get("midiClockRate") != str(mpq):
        o.add("clock-info-lines-wrong", got=info, ppq=ppq, mpq=mpq)

    # ---- signature lines of the file: at the start of the bar in which they were written -------
    first_num = 0 if sr.pickup else 1
    exp_sig, opt_sig = Counter(), Counter()
    for attr, items in (("timeSignature", sr.ref.timesigs), ("keySignature", sorted(ps.get("keysigs", []), key=lambda k: k[0]))):
        prev = None
        for it in items:
            b = sr.bar_of(it[0])
            key = (attr, first_num + b, 1, "0", round(float(sr.tr.beat(ps["measures"][b][0])), 3))
            val = (it[1], it[2] or "major") if attr == "keySignature" else (it[1], it[2])
            # a signature that repeats the one in force says nothing: its line may be left out
            (opt_sig if val == prev else exp_sig)[key] += 1
            prev = val
    got_sig = Counter()
    for line in text.splitlines():
        m = SCOREPROP_RE.match(line)
        if m and m.group(1) in ("timeSignature", "keySignature"):
            try:
                got_sig[(m.group(1), int(m.group(3)), int(m.group(4)), m.group(5), round(float(m.group(6)), 3))] += 1
            except ValueError:
                got_sig[(m.group(1), m.group(3), m.group(4), m.group(5), m.group(6))] += 1
    for attr in ("timeSignature", "keySignature"):
        e = Counter({k: v for k, v in exp_sig.items() if k[0] == attr})
        op = Counter({k: v for k, v in opt_sig.items() if k[0] == attr})
        g = Counter({k: v for k, v in got_sig.items() if k[0] == attr})
        if (e - g) or ((g - e) - op):
            o.add("file-signature-line-position-wrong", attribute=attr, got=[list(k[1:]) for k in sorted(g.elements(), key=repr)][:6],
                  expected=[list(k[1:]) for k in sorted(e.elements(), key=repr)][:6], optional=[list(k[1:]) for k in sorted(op.elements(), key=repr)][:6])

    # ---- alignment ------------------------------------------------------------------------------
    exp_al = Counter()
    for a in spec["alignment"]:
        e = dict(a)
        if "score_id" in e:
            e["score_id"] = e["score_id"] + sfx
        if "performance_id" in e:
            e["performance_id"] = pid_out(e["performance_id"])
        exp_al[al_key(e)] += 1
    got_al = Counter(al_key(a) for a in al2)
    if got_al != exp_al:
        missing = sorted((exp_al - got_al).elements(), key=repr)
        extra = sorted((got_al - exp_al).elements(), key=repr)
        # an entry that differs only in the ornament type is reported separately
        m_wo = Counter(k[:3] for k in missing)
        e_wo = Counter(k[:3] for k in extra)
        if m_wo == e_wo and all(k[0] == "ornament" for k in missing):
            o.add("alignment-ornament-type-changed", given=[k[3] for k in missing][:3], loaded=[k[3] for k in extra][:3],
                  given_shape=sorted(set(type(a.get("type")).__name__ for a in spec["alignment"] if a["label"] == "ornament")))
        else:
            o.add("alignment-differs", missing=missing[:4], extra=extra[:4], n_missing=len(missing), n_extra=len(extra))

    # ---- performance -------------------------------------------------------------------------------
    pps = list(perf.performedparts) if hasattr(perf, "performedparts") else list(perf)
    if len(pps) != 1:
        o.add("performance-part-count", n=len(pps))
        return o
    pp2 = pps[0]
    label_of = {}
    for a in spec["alignment"]:
        if "performance_id" in a:
            label_of[pid_out(a["performance_id"])] = a["label"]
    exp_notes = {pid_out(n["id"]): dict(n) for n in spec["pnotes"]}
    if spec.get("pp_build", "dict") == "note_array":
        # the times of a note-array part are single-precision values; they are the original times
        for n in exp_notes.values():
            on32 = np.float32(n["on"])
            n["on"], n["off"] = float(on32), float(np.float32(on32 + np.float32(n["off"] - n["on"])))
    got_notes = {}
    dup = []
    for n in pp2.notes:
        if n["id"] in got_notes:
            dup.append(n["id"])
        got_notes[n["id"]] = n
    if dup:
        o.add("performed-note-duplicated", ids=dup[:5])
    missing = sorted(set(exp_notes) - set(got_notes))
    for lab in ("match", "insertion", "ornament"):
        mm = [i for i in missing if label_of.get(i) == lab]
        if mm:
            o.add("performed-note-missing:" + lab, ids=mm[:5], n=len(mm))
    extra = sorted(set(got_notes) - set(exp_notes))
    if extra:
        o.add("performed-note-unexpected", ids=extra[:5])
    tol = 1e-9
    for pid in sorted(set(exp_notes) & set(got_notes)):
        e, g = exp_notes[pid], got_notes[pid]
        if int(g["midi_pitch"]) != e["pitch"] or int(g["velocity"]) != e["vel"]:
            o.add("performed-pitch-or-velocity-wrong", id=pid, got=[int(g["midi_pitch"]), int(g["velocity"])], expected=[e["pitch"], e["vel"]])
            break
        if int(g.get("channel", 0)) != e["channel"]:
            o.add("performed-channel-wrong", id=pid, got=g.get("channel"), expected=e["channel"])
            break
        bad = False
        for key_t, key_s, t in (("note_on_tick", "note_on", e["on"]), ("note_off_tick", "note_off", e["off"])):
            ok = expected_ticks(t, ppq, mpq)
            gt = g[key_t]
            if gt is None or int(gt) != gt or int(gt) not in ok:
                o.add("performed-tick-wrong", id=pid, field=key_t, got=gt, expected=sorted(ok), seconds=t, ppq=ppq, mpq=mpq)
                bad = True
                break
            es = float(Fraction(int(gt)) * mpq / (10 ** 6 * ppq))
            if abs(float(g[key_s]) - es) > tol * (1 + abs(es)):
                o.add("performed-seconds-wrong", id=pid, field=key_s, got=float(g[key_s]), expected=es, tick=int(gt), ppq=ppq, mpq=mpq)
                bad = True
                break
        if bad:
            break
    # tracks: Performance renumbers tracks on purpose (sanitize_track_numbers); the relabelling must keep them apart and in order
    tmap = {}
    for pid in sorted(set(exp_notes) & set(got_notes)):
        tmap.setdefault(exp_notes[pid]["track"], set()).add(got_notes[pid].get("track"))
    flat = [(k, sorted(v, key=repr)) for k, v in sorted(tmap.items())]
    if any(len(v) != 1 for _, v in flat) or any(a[1][0] >= b[1][0] for a, b in zip(flat, flat[1:])):
        o.add("performed-tracks-merged-or-reordered", mapping=flat)
    # pedals
    for number in (64, 67):
        exp_seq = []
        for i, c in enumerate(spec["controls"]):
            if c["number"] == number:
                exp_seq.append((c["time"], i, int(c["value"])))
        exp_opts = [(expected_ticks(t, ppq, mpq), v) for (t, i, v) in exp_seq]
        got_seq = [(c["time"], int(c["value"])) for c in pp2.controls if c["number"] == number]
        # The loader removes repeated identical lines by design, so events are compared as a set of
        # (tick, value): every given event is found, every loaded event is explained, nothing is
        # loaded twice, and the loaded stream is in time order.
        got_ticks = []
        ok = True
        for (ts, v) in got_seq:
            x = Fraction(ts) * 10 ** 6 * ppq / mpq
            k = round(x)
            if abs(x - k) > Fraction(1, 10 ** 6):
                ok = False
            got_ticks.append((int(k), v))
        if ok:
            ok = (
                all(any(k in opts and gv == v for (k, gv) in got_ticks) for (opts, v) in exp_opts)
                and all(any(k in opts and gv == v for (opts, v) in exp_opts) for (k, gv) in got_ticks)
                and len(set(got_ticks)) == len(got_ticks)
                and not any(x[0] > y[0] for x, y in zip(got_ticks, got_ticks[1:]))
            )
        if not ok:
            o.add("pedal-events-differ", number=number, got=got_seq[:6], expected=[(sorted(s), v) for s, v in exp_opts][:6], ppq=ppq, mpq=mpq)
    others = [c for c in pp2.controls if c["number"] not in (64, 67)]
    if others:
        o.add("unexpected-controller-loaded", got=others[:3])
    if (getattr(pp2, "ppq", None), getattr(pp2, "mpq", None)) != (ppq, mpq):
        o.add("loaded-performed-part-clock-differs", got=[getattr(pp2, "ppq", None), getattr(pp2, "mpq", None)], expected=[ppq, mpq])

    if reloaded is not None:
        compare_reloaded(o, pp2, al2, reloaded, spec["reload"], ppq, mpq)

    # ---- score ----------------------------------------------------------------------------------------
    if scr is None:
        return o
    parts2 = list(scr.parts)
    if len(parts2) != 1:
        o.add("score-part-count", n=len(parts2))
        return o
    n_before = len(o.discs)
    check_score(o, spec, sr, parts2[0], sfx)
    if second is not None and len(o.discs) == n_before:
        compare_generations(o, (perf, al2, scr), second)
    return o


HEADER_ATTR = {"performer": "performer", "composer": "composer", "piece": "piece", "score_filename": "scoreFileName",
               "performance_filename": "midiFileName"}
ANY_INFO_RE = re.compile(r"^info\(([A-Za-z]+),(.*)\)\.\s*$")
SNOTE_ATTR_RE = re.compile(r"^snote\(([^,]+),.*,\[([^\]]*)\]\)-")


def check_header_lines(o, spec, text, header, diff_notes):
    info = {}
    tempo_lines, marked, all_ids = [], set(), set()
    for line in text.splitlines():
        m = ANY_INFO_RE.match(line)
        if m:
            info.setdefault(m.group(1), []).append(m.group(2))
        m = SCOREPROP_RE.match(line)
        if m and m.group(1) == "tempoIndication":
            tempo_lines.append(m.group(2))
        m = SNOTE_ATTR_RE.match(line)
        if m:
            all_ids.add(m.group(1))
            if "diff_score_version" in [a.strip() for a in m.group(2).split(",")]:
                marked.add(m.group(1))
    for key, attr in sorted(HEADER_ATTR.items()):
        want = [str(header[key]).strip()] if key in header else ["-"]
        if info.get(attr) != want:
            o.add("header-line-wrong", attribute=attr, got=info.get(attr), expected=want)
    ti = spec.get("tempo_indication") if spec.get("api") == "from_alignment" else None
    if tempo_lines != ([ti] if ti is not None else []):
        o.add("tempo-indication-line-wrong", got=tempo_lines, expected=ti)
    want_marked = set(diff_notes) & all_ids
    if marked != want_marked and spec.get("api") == "from_alignment":
        o.add("diff-score-version-marks-wrong", got=sorted(marked)[:6], expected=sorted(want_marked)[:6])


def resave(o, tmp, perf, al2, scr, mpq, ppq):
    """save_match applied to what load_match returned (the usual way of editing an alignment), loaded again."""
    out2 = os.path.join(tmp, "second.match")
    try:
        guarded(save_match, al2, perf, scr, out2, mpq=mpq, ppq=ppq, assume_unfolded=True)
        return guarded(load_match, out2, create_score=True)
    except SutRaised as e:
        o.add("resave-" + e.kind, text=e.text)
        return None


def _score_view(scr):
    p = list(scr.parts)[0]
    d = [int(x) for x in np.unique(p._quarter_durations)]
    if len(d) != 1 or not all(_isint(tp.t) for tp in p._points):
        return None
    d = d[0]
    notes = sorted((n.id, str(Fraction(int(n.start.t), d)), str(Fraction(int(n.duration_tied), d)), str(n.step).upper(), int(n.alter or 0), int(n.octave),
                    n.voice, n.staff, tuple(sorted(a for a in (n.articulations or []) if a in SUPPORTED_ART)), type(n).__name__) for n in p.notes_tied)
    return {
        "notes": notes,
        "measures": sorted((str(Fraction(int(m.start.t), d)), str(Fraction(int(m.end.t), d))) for m in p.iter_all(S.Measure)),
        "time_signatures": collapse(sorted((str(Fraction(int(x.start.t), d)), int(x.beats), int(x.beat_type)) for x in p.iter_all(S.TimeSignature))),
        "key_signatures": collapse(sorted((str(Fraction(int(x.start.t), d)), int(x.fifths), x.mode or "major") for x in p.iter_all(S.KeySignature))),
    }


def _perf_view(perf):
    pp = list(perf.performedparts)[0]
    return {
        "notes": sorted((n["id"], int(n["midi_pitch"]), int(n["velocity"]), int(n["note_on_tick"]), int(n["note_off_tick"]), int(n.get("channel", 0))) for n in pp.notes),
        "pedals": sorted((int(c["number"]), round(float(c["time"]), 9), int(c["value"])) for c in pp.controls),
        "clock": (pp.ppq, pp.mpq),
    }


def compare_generations(o, first, second):
    """The file written from a loaded (performance, alignment, score) denotes the same data again."""
    o.cls("loaded-triple-saved-again")
    a1, a2 = Counter(al_key(a) for a in first[1]), Counter(al_key(a) for a in second[1])
    if a1 != a2:
        o.add("resave-alignment-differs", missing=sorted((a1 - a2).elements(), key=repr)[:4], extra=sorted((a2 - a1).elements(), key=repr)[:4])
    p1, p2 = _perf_view(first[0]), _perf_view(second[0])
    for k in ("notes", "pedals", "clock"):
        if p1[k] != p2[k]:
            d1 = [x for x in p1[k] if x not in p2[k]] if isinstance(p1[k], list) else p1[k]
            d2 = [x for x in p2[k] if x not in p1[k]] if isinstance(p2[k], list) else p2[k]
            o.add("resave-performance-%s-differ" % k, first=d1[:4] if isinstance(d1, list) else d1, second=d2[:4] if isinstance(d2, list) else d2)
    s1, s2 = _score_view(first[2]), _score_view(second[2])
    if s1 is None or s2 is None:
        o.add("resave-score-not-on-an-integer-grid", first=s1 is None, second=s2 is None)
        return
    for k in ("notes", "measures", "time_signatures", "key_signatures"):
        if s1[k] != s2[k]:
            o.add("resave-score-%s-differ" % k.replace("_", "-"), first=[x for x in s1[k] if x not in s2[k]][:4], second=[x for x in s2[k] if x not in s1[k]][:4])


def compare_reloaded(o, pp_first, al_first, reloaded, rl, ppq, mpq):
    """load_match with first_note_at_zero / pedal_threshold against the plain load of the same file: note times
    shifted by the first onset (ticks and seconds; only when both are positive, as documented by the code's own
    guard), everything else equal; the threshold is the part's threshold."""
    o.cls("loaded-again-with-options")
    perf2, al2 = reloaded[0], reloaded[1]
    pp2 = list(perf2.performedparts)[0]
    if pp2.sustain_pedal_threshold != rl["pedal_threshold"]:
        o.add("reload-pedal-threshold-not-set", got=pp2.sustain_pedal_threshold, expected=rl["pedal_threshold"])
    if Counter(al_key(a) for a in al2) != Counter(al_key(a) for a in al_first):
        o.add("reload-alignment-differs")
    n1 = {n["id"]: n for n in pp_first.notes}
    n2 = {n["id"]: n for n in pp2.notes}
    if sorted(n1) != sorted(n2):
        o.add("reload-notes-differ", missing=sorted(set(n1) - set(n2))[:4], extra=sorted(set(n2) - set(n1))[:4])
        return
    shift = 0
    if rl["first_note_at_zero"] and n1:
        shift = min(int(n["note_on_tick"]) for n in n1.values())
        o.cls("first-note-at-zero-with-positive-first-onset", shift > 0)
    for k in sorted(n1):
        a, b = n1[k], n2[k]
        for ft, fs in (("note_on_tick", "note_on"), ("note_off_tick", "note_off")):
            et = int(a[ft]) - shift
            es = float(Fraction(et) * mpq / (10 ** 6 * ppq))
            if int(b[ft]) != et or abs(float(b[fs]) - es) > 1e-9 * (1 + abs(es)):
                o.add("reload-first-note-at-zero-times-wrong", id=k, field=ft, got=[int(b[ft]), float(b[fs])], expected=[et, es], shift_ticks=shift)
                return
        if (int(a["midi_pitch"]), int(a["velocity"])) != (int(b["midi_pitch"]), int(b["velocity"])):
            o.add("reload-notes-differ", id=k)
            return
    c1 = sorted((int(c["number"]), round(float(c["time"]), 9), int(c["value"])) for c in pp_first.controls)
    c2 = sorted((int(c["number"]), round(float(c["time"]), 9), int(c["value"])) for c in pp2.controls)
    if c1 != c2:
        o.add("reload-pedals-differ", first=c1[:4], second=c2[:4])


def _isint(x):
    try:
        return float(x) == int(x)
    except Exception:
        return False


def check_score(o, spec, sr, p2, sfx):
    ps = spec["part"]
    notes2 = list(p2.notes_tied)
    got = {}
    for n in notes2:
        got.setdefault(n.id, []).append(n)
    exp_ids = [hid + sfx for (_, _, _, hid, _) in sr.sounding]
    if sorted(got) != sorted(exp_ids) or any(len(v) > 1 for v in got.values()):
        o.add("score-note-ids-differ", missing=sorted(set(exp_ids) - set(got))[:5], extra=sorted(set(got) - set(exp_ids))[:5],
              duplicated=sorted(k for k, v in got.items() if len(v) > 1)[:5])
    pts = [tp.t for tp in p2._points]
    if not all(_isint(t) for t in pts):
        o.add("score-time-points-not-integral", examples=[float(t) for t in pts if not _isint(t)][:4])
        return
    divs2 = [int(x) for x in np.unique(p2._quarter_durations)] if hasattr(p2, "_quarter_durations") else []
    if len(divs2) != 1:
        o.add("score-divisions-not-single", got=divs2)
        return
    d2 = divs2[0]
    bm = call(lambda: p2.beat_map)
    tolb = 1e-6

    # notes
    timing_bad = False
    for (t, dur, pitch, hid, ids) in sr.sounding:
        gl = got.get(hid + sfx)
        if not gl:
            continue
        g = gl[0]
        n = sr.byid[hid]
        eq, edq = sr.q(t), Fraction(dur, sr.d)
        gq, gdq = Fraction(int(g.start.t), d2), Fraction(int(g.duration_tied), d2)
        bt = sr.beat_unit_at(t)
        if gq != eq and not timing_bad:
            o.add("score-onset-wrong", id=hid, got_quarters=str(gq), expected_quarters=str(eq), beat_type=bt, pickup=sr.pickup,
                  bar=sr.bar_of(t), onset_in_bar_divs=t - ps["measures"][sr.bar_of(t)][0], divs=sr.d)
            timing_bad = True
        if gdq != edq and not timing_bad:
            o.add("score-duration-wrong", id=hid, got_quarters=str(gdq), expected_quarters=str(edq), beat_type=bt, grace=n["kind"] == "grace")
            timing_bad = True
        if not timing_bad:
            eb, eb2 = sr.tr.beat(t), sr.tr.beat(t + dur)
            gb = float(call(bm, g.start.t))
            gb2 = float(call(bm, g.start.t + g.duration_tied))
            if abs(gb - float(eb)) > tolb * (1 + abs(float(eb))) or abs((gb2 - gb) - float(eb2 - eb)) > tolb * (1 + abs(float(eb2 - eb))):
                o.add("score-beats-wrong", id=hid, got=[gb, gb2 - gb], expected=[float(eb), float(eb2 - eb)], beat_type=bt, pickup=sr.pickup)
                timing_bad = True
        if (str(g.step).upper(), int(g.alter or 0), int(g.octave)) != (n["step"], int(n["alter"] or 0), int(n["octave"])):
            o.add("score-spelling-wrong", id=hid, got=[g.step, g.alter, g.octave], expected=[n["step"], n["alter"], n["octave"]])
        if g.voice != n.get("voice"):
            o.add("score-voice-wrong", id=hid, got=g.voice, expected=n.get("voice"))
        if g.staff != n.get("staff"):
            o.add("score-staff-wrong", id=hid, got=g.staff, expected=n.get("staff"))
        ea = sorted(a for a in (n.get("art") or []) if a in SUPPORTED_ART)
        ga = sorted(a for a in (g.articulations or []) if a in SUPPORTED_ART)
        if ea != ga:
            o.add("score-articulations-wrong", id=hid, got=sorted(g.articulations or []), expected=ea, all_given=n.get("art"))

    # measures
    exp_m = sr.measures()
    got_m = sorted((Fraction(int(m.start.t), d2), Fraction(int(m.end.t), d2)) for m in p2.iter_all(S.Measure))
    if got_m != exp_m:
        o.add("measures-differ", got=[(str(a), str(b)) for a, b in got_m][:8], expected=[(str(a), str(b)) for a, b in exp_m][:8],
              pickup=sr.pickup, leading_rest=sr.first_onset > 0, timing_ok=not timing_bad,
              only_last_end_differs=len(got_m) >= len(exp_m) > 0 and got_m[:len(exp_m) - 1] == exp_m[:-1] and got_m[len(exp_m) - 1][0] == exp_m[-1][0])
    # time signatures
    exp_ts = sr.timesigs()
    got_ts = collapse(sorted((Fraction(int(x.start.t), d2), int(x.beats), int(x.beat_type)) for x in p2.iter_all(S.TimeSignature)))
    if got_ts != exp_ts:
        o.add("time-signatures-differ", got=[(str(a), b, c) for a, b, c in got_ts], expected=[(str(a), b, c) for a, b, c in exp_ts], timing_ok=not timing_bad,
              one_division_early=_one_div_early(got_ts, exp_ts, d2))
    # key signatures
    exp_ks = sr.keysigs()
    raw_ks = sorted(((Fraction(x.start.t).limit_denominator(10 ** 6) / d2), int(x.fifths), x.mode or "major") for x in p2.iter_all(S.KeySignature))
    got_ks = collapse(raw_ks)
    if got_ks != exp_ks:
        o.add("key-signatures-differ", got=[(str(a), b, c) for a, b, c in got_ks], expected=[(str(a), b, c) for a, b, c in exp_ks],
              got_divs=[int(x.start.t) for x in p2.iter_all(S.KeySignature)], loaded_divs=d2, timing_ok=not timing_bad,
              written_measure_numbers=[(0 if sr.pickup else 1) + sr.bar_of(k[0]) for k in ps.get("keysigs", [])],
              one_division_early=_one_div_early(got_ks, exp_ks, d2), values_match=[g[1:] for g in got_ks] == [e[1:] for e in exp_ks])


def _one_div_early(got, exp, d2):
    """Same signatures, each at its place or exactly one loaded division before it (and at least one early)."""
    if len(got) != len(exp) or any(g[1:] != e[1:] for g, e in zip(got, exp)):
        return False
    diffs = [e[0] - g[0] for g, e in zip(got, exp)]
    return all(x in (0, Fraction(1, d2)) for x in diffs) and any(x != 0 for x in diffs)


def strat(tier):
    return A.case(tier)


# ----------------------------------------------------------------------------------------------
# known findings (active only while listed in KNOWN_FINDINGS.txt / findings.d/C08.txt)
# ----------------------------------------------------------------------------------------------
SCORE_KINDS = {
    "score-onset-wrong", "score-duration-wrong", "score-beats-wrong", "measures-differ", "time-signatures-differ",
    "key-signatures-differ", "score-time-points-not-integral", "score-divisions-not-single",
}
ADD_MEASURES_ASSERT = "load-score-sut-raised:AssertionError@score.py:add_measures"


def _sr(spec):
    return ScoreRef(spec["part"])


def _k_export_beat(spec, disc):
    return (disc.kind in SCORE_KINDS or disc.kind.startswith("load-score-")) and _sr(spec).t_beat_in_quarters()


def _k_beat_type_change(spec, disc):
    return (disc.kind in SCORE_KINDS or disc.kind.startswith("load-score-")) and _sr(spec).t_beat_type_change()


def _k_sig_in_empty_bar(spec, disc):
    return disc.kind in ("time-signatures-differ", "key-signatures-differ", "measures-differ", "score-beats-wrong", ADD_MEASURES_ASSERT) and _sr(spec).t_signature_in_empty_bar()


def _k_empty_bar_merged(spec, disc):
    return disc.kind in ("measures-differ", "score-beats-wrong", ADD_MEASURES_ASSERT) and _sr(spec).t_empty_interior_bar()


def _k_keysig_line(spec, disc):
    if disc.kind != "file-signature-line-position-wrong" or disc["detail"].get("attribute") != "keySignature":
        return False
    ts = sorted(t for (t, _, _) in spec["part"]["timesigs"])
    for k in spec["part"].get("keysigs", []):
        last = max(t for t in ts if t <= k[0])
        if last != k[0]:
            return True
    return False


def _k_keysig_at_measure_number(spec, disc):
    if disc.kind != "key-signatures-differ":
        return False
    d = disc["detail"]
    return bool(d.get("got_divs")) and bool(d.get("values_match")) and set(d["got_divs"]) <= set(d.get("written_measure_numbers", []))


def _k_ornament_notes(spec, disc):
    return disc.kind == "performed-note-missing:ornament" and any(a["label"] == "ornament" for a in spec["alignment"])


def _k_ornament_type(spec, disc):
    return disc.kind == "alignment-ornament-type-changed" and any(a["label"] == "ornament" and isinstance(a.get("type"), list) for a in spec["alignment"])


def _k_clock(spec, disc):
    return disc.kind == "loaded-performed-part-clock-differs" and (int(spec["ppq"]), int(spec["mpq"])) != (480, 500000) and disc["detail"].get("got") == [480, 500000]


def _k_sig_truncated(spec, disc):
    if disc.kind in ("time-signatures-differ", "key-signatures-differ"):
        return bool(disc["detail"].get("one_division_early")) and _sr(spec).t_inexact_onset_in_signature_bar()
    if disc.kind == "score-beats-wrong":
        return _sr(spec).t_inexact_onset_in_signature_bar() and len(spec["part"]["timesigs"]) > 1
    if disc.kind == "measures-differ":
        # same root (inexact bar position): the length of the last bar is looked up just before the signature change
        return bool(disc["detail"].get("only_last_end_differs")) and _sr(spec).t_inexact_onset_in_signature_bar() and len(spec["part"]["timesigs"]) > 1
    return False


KNOWN = {
    "export-beat-in-quarters": _k_export_beat,
    "import-beats-to-quarters-with-beat-type-change": _k_beat_type_change,
    "import-signature-in-bar-without-onset": _k_sig_in_empty_bar,
    "import-bar-without-onset-merged": _k_empty_bar_merged,
    "export-key-signature-line-position": _k_keysig_line,
    "import-key-signature-at-measure-number": _k_keysig_at_measure_number,
    "ornament-notes-missing-from-performance": _k_ornament_notes,
    "export-ornament-type-nested": _k_ornament_type,
    "loaded-performed-part-clock": _k_clock,
    "import-signature-position-truncated": _k_sig_truncated,
}


SUBCHECKS = [
    SubCheck(
        "roundtrip",
        oracle,
        strategy=strat,
        budget={"quick": 120, "thorough": 1500},
        rule="generated single-part scores (pickups, bar-line signature changes, ties, grace notes, chords, 1-3 voices numbered with or without gaps / from 0 / with two digits, 1-3 staves, tuplets, articulations, alterations -2..2 and None) as Part / Score / list / PartGroup with a performed part (from dictionaries or from a note array, pedal dictionaries with or without track and channel) aligned note by note (match/deletion/insertion/ornament, pedals, arbitrary ppq/mpq) are saved with save_match (out a str, a Path or None) or matchfile_from_alignment (header texts, tempo indication, diff_score_version notes) and loaded with load_match(create_score=True); the loaded triple is saved and loaded again and must denote the same data; the file is loaded again with first_note_at_zero / pedal_threshold; non-trivial = (>=1 deletion and >=1 insertion) or a pickup or a beat unit other than the quarter",
        known=KNOWN,
        floors={"key-returns-to-an-earlier-key": 0.03, "has-ornament": 0.1, "pedal": 0.15, "pickup": 0.08, "non-quarter-beat": 0.15, "grace": 0.05, "tie-chain": 0.1, "assume-unfolded-false": 0.15,
                # generator audit
                "loaded-triple-saved-again": 0.3, "loaded-again-with-options": 0.1, "voice-numbers-with-gaps": 0.1, "double-alteration": 0.2,
                "natural-stated-as-none": 0.2, "staff-3": 0.03, "score-in-part-group": 0.05, "out:none": 0.05, "out:pathlib": 0.05,
                "api:from_alignment": 0.06, "header-texts-given": 0.06, "performed-part-from-note-array": 0.04,
                "pedal-dicts-without-track-channel": 0.05},
    ),
]


# ----------------------------------------------------------------------------------------------
# sub-check 2: the fixture files of the test-suite, read by an independent line reader
# ----------------------------------------------------------------------------------------------
FIXTURE_DIR = os.path.join(os.environ.get("VERIF_REPO", "/repo"), "tests", "data", "match")
if not os.path.isdir(FIXTURE_DIR):  # a scratch copy of the package without the test data
    FIXTURE_DIR = os.path.join("/repo", "tests", "data", "match")
_STEP_PC = {"C": 0, "D": 2, "E": 4, "F": 5, "G": 7, "A": 9, "B": 11}
_ALTER = {"n": 0, "#": 1, "b": -1, "##": 2, "x": 2, "bb": -2, "###": 3, "bbb": -3}


def _split_args(s):
    """Split 'a,[b,c],d' at top-level commas."""
    out, depth, cur = [], 0, ""
    for ch in s:
        if ch == "[":
            depth += 1
        elif ch == "]":
            depth -= 1
        if ch == "," and depth == 0:
            out.append(cur)
            cur = ""
        else:
            cur += ch
    out.append(cur)
    return [x.strip() for x in out]


_NOTE_RE = re.compile(r"note\((.*)\)\.\s*$")
_SNOTE_RE = re.compile(r"^snote\((.*?)\)-(note\(.*\)\.|deletion\.|trailing_score_note\.|no_played_note\.)\s*$")
_PEDAL_RE = re.compile(r"^(sustain|soft)\(\s*(-?[0-9.]+)\s*,\s*(-?[0-9.]+)\s*\)\.\s*$")
_INFO_RE = re.compile(r"^info\(([^,]+),(.*)\)\.\s*$")


def _parse_note(text):
    m = _NOTE_RE.search(text)
    if not m:
        return None
    a = _split_args(m.group(1))
    if len(a) == 7 and "[" not in m.group(1):  # 1.0.0: id, pitch, onset, offset, velocity, channel, track
        return {"id": a[0], "pitch": int(a[1]), "on": float(a[2]), "off": float(a[3]), "vel": int(a[4])}
    if len(a) in (6, 7) and a[1].startswith("["):  # old: id, [name, mod], octave, onset, offset, (adjusted offset,) velocity
        name, mod = [x.strip() for x in a[1].strip("[]").split(",")]
        pitch = 12 * (int(a[2]) + 1) + _STEP_PC[name.upper()] + _ALTER[mod]
        return {"id": a[0], "pitch": pitch, "on": float(a[3]), "off": float(a[4]), "vel": int(float(a[-1]))}
    return None


def read_match_lines(text):
    """Independent reader: (info dict, [entries], n_unknown) with entries in file order, identical lines once."""
    info, entries, seen, unknown = {}, [], set(), 0
    for raw in text.splitlines():
        line = raw.strip()
        if not line or line in seen:
            continue
        seen.add(line)
        m = _INFO_RE.match(line)
        if m:
            info.setdefault(m.group(1), m.group(2))
            continue
        m = _PEDAL_RE.match(line)
        if m:
            entries.append({"kind": m.group(1), "time": float(m.group(2)), "value": float(m.group(3))})
            continue
        m = _SNOTE_RE.match(line)
        if m:
            a = _split_args(m.group(1))
            sn = {"anchor": a[0], "name": a[1].strip("[]").split(",")[0].strip(), "attrs": [x.strip() for x in a[-1].strip("[]").split(",") if x.strip()]}
            tail = m.group(2)
            if tail.startswith("note("):
                n = _parse_note(tail)
                if n is None:
                    unknown += 1
                    continue
                entries.append({"kind": "match", "snote": sn, "note": n})
            elif tail.startswith("deletion"):
                entries.append({"kind": "deletion", "snote": sn})
            else:
                entries.append({"kind": "other-snote", "snote": sn})
            continue
        if line.startswith("insertion-note("):
            n = _parse_note(line)
            if n is None:
                unknown += 1
            else:
                entries.append({"kind": "insertion", "note": n})
            continue
        m = re.match(r"^(ornament|trill)\(([^,)]*)(?:,\[(.*?)\])?\)-(note\(.*\)\.)\s*$", line)
        if m:
            n = _parse_note(m.group(4))
            entries.append({"kind": "ornament", "anchor": m.group(2), "types": m.group(3), "old": m.group(1) == "trill", "note": n})
            continue
        if re.match(r"^(hammer_bounce|trailing_played_note)-note\(", line):
            entries.append({"kind": "other-note", "note": _parse_note(line)})
            continue
        if re.match(r"^(scoreprop|meta|section|stime|ptime)\(", line):
            continue
        unknown += 1
    return info, entries, unknown


def resolve_duplicates(entries):
    """validate_match_ids as documented: deletions whose score id occurs in several lines are dropped,
    insertions whose performed id occurs in several lines are dropped, matches are kept."""
    sid = Counter(e["snote"]["anchor"] for e in entries if e["kind"] in ("match", "deletion", "other-snote"))
    out = [e for e in entries if not (e["kind"] == "deletion" and sid[e["snote"]["anchor"]] > 1)]
    pid = Counter(e["note"]["id"] for e in out if e["kind"] in ("match", "insertion"))
    out = [e for e in out if not (e["kind"] == "insertion" and pid[e["note"]["id"]] > 1)]
    return out


def expected_alignment(entries):
    exp = Counter()
    for e in entries:
        if e["kind"] == "match":
            exp[("match", e["snote"]["anchor"], pid_out(e["note"]["id"]), None)] += 1
        elif e["kind"] == "deletion":
            if "leftOutTied" not in e["snote"]["attrs"]:
                exp[("deletion", e["snote"]["anchor"], None, None)] += 1
        elif e["kind"] == "insertion":
            exp[("insertion", None, pid_out(e["note"]["id"]), None)] += 1
    return exp


def compare_loaded(o, entries, info, perf, al2, first_note_at_zero=False, judge_ornaments=False):
    """Compare what load_match returned with the resolved entries of the independent reader."""
    exp_al = expected_alignment(entries)
    got_al = Counter(al_key(a) for a in al2 if a.get("label") != "ornament")
    if got_al != exp_al:
        missing = sorted((exp_al - got_al).elements(), key=repr)
        extra = sorted((got_al - exp_al).elements(), key=repr)
        kind = "alignment-differs"
        if missing and all(k[0] == "deletion" for k in missing) and not extra:
            kind = "deletion-lost"
        elif missing and all(k[0] == "insertion" for k in missing) and not extra:
            kind = "insertion-lost"
        elif extra and all(k[0] == "deletion" for k in extra) and not missing:
            kind = "conflicting-deletion-kept"
        elif extra and all(k[0] == "insertion" for k in extra) and not missing:
            kind = "conflicting-insertion-kept"
        o.add(kind, missing=missing[:4], extra=extra[:4], n_missing=len(missing), n_extra=len(extra))
    pps = list(perf.performedparts)
    if len(pps) != 1:
        o.add("performance-part-count", n=len(pps))
        return
    pp = pps[0]
    exp_notes = [e["note"] for e in entries if e["kind"] in ("match", "insertion")]
    exp_ids = Counter(pid_out(n["id"]) for n in exp_notes)
    got_ids = Counter(n["id"] for n in pp.notes)
    if got_ids != exp_ids:
        o.add("performed-note-count-differs", n_lines=sum(exp_ids.values()), n_loaded=sum(got_ids.values()),
              missing=sorted((exp_ids - got_ids).elements())[:5], extra=sorted((got_ids - exp_ids).elements())[:5])
        return
    try:
        ppq, mpq = int(info["midiClockUnits"]), int(info["midiClockRate"])
    except (KeyError, ValueError):
        o.excluded.append("file-without-clock-info")
        return
    if (getattr(pp, "ppq", None), getattr(pp, "mpq", None)) != (ppq, mpq):
        o.add("loaded-performed-part-clock-differs", got=[getattr(pp, "ppq", None), getattr(pp, "mpq", None)], expected=[ppq, mpq])
    shift = 0.0
    if first_note_at_zero and exp_notes:
        shift = min(n["on"] for n in exp_notes)
    by = {}
    for n in exp_notes:
        by.setdefault(pid_out(n["id"]), []).append(n)
    for g in pp.notes:
        cands = by[g["id"]]
        ok = False
        for n in cands:
            es_on = (n["on"] - shift) * mpq / (1e6 * ppq)
            es_off = (n["off"] - shift) * mpq / (1e6 * ppq)
            if (int(g["midi_pitch"]) == n["pitch"] and int(g["velocity"]) == n["vel"] and g["note_on_tick"] == n["on"] - shift and g["note_off_tick"] == n["off"] - shift
                    and abs(g["note_on"] - es_on) <= 1e-9 * (1 + abs(es_on)) and abs(g["note_off"] - es_off) <= 1e-9 * (1 + abs(es_off))):
                ok = True
        if not ok:
            o.add("performed-note-fields-differ", id=g["id"], got=[int(g["midi_pitch"]), g["note_on_tick"], g["note_off_tick"], int(g["velocity"]), g["note_on"], g["note_off"]],
                  line=cands[0], ppq=ppq, mpq=mpq, shift=shift)
            break
    for kind, number in (("sustain", 64), ("soft", 67)):
        e = sorted((x["time"], x["value"]) for x in entries if x["kind"] == kind)
        g = sorted((round(c["time"] * 1e6 * ppq / mpq, 6), float(c["value"])) for c in pp.controls if c["number"] == number)
        if len(e) != len(g) or any(abs(a[0] - b[0]) > 1e-4 or a[1] != b[1] for a, b in zip(e, g)):
            o.add("pedal-lines-differ", kind=kind, n_lines=len(e), n_loaded=len(g))


def _k_clock_detail(spec, disc):
    d = disc["detail"]
    return disc.kind == "loaded-performed-part-clock-differs" and d.get("got") == [480, 500000] and d.get("expected") != [480, 500000]


def fixture_enum(tier):
    files = sorted(f for f in os.listdir(FIXTURE_DIR) if f.endswith(".match")) if os.path.isdir(FIXTURE_DIR) else []
    out = []
    for f in files:
        for cs in (False, True):
            for z in (False, True):
                out.append({"file": f, "create_score": cs, "first_note_at_zero": z})
    return out


def fixture_oracle(spec):
    o = Outcome()
    path = os.path.join(FIXTURE_DIR, spec["file"])
    text = open(path, encoding="utf-8").read()
    info, raw_entries, unknown = read_match_lines(text)
    entries = resolve_duplicates(raw_entries)
    kinds = Counter(e["kind"] for e in raw_entries)
    version = info.get("matchFileVersion", "none")
    o.cls("version-" + version)
    o.cls("file-with-conflicting-lines", len(entries) != len(raw_entries))
    o.cls("file-with-unreadable-line", unknown > 0)
    o.cls("file-with-repeated-identical-lines", len(set(l.strip() for l in text.splitlines() if l.strip())) < len([l for l in text.splitlines() if l.strip()]))
    o.cls("create-score", spec["create_score"])
    o.nontrivial = kinds["match"] > 0
    if kinds["other-note"] or kinds["other-snote"]:
        o.excluded.append("line-kinds-outside-the-stated-resolution-rule")
    res = guarded(load_match, path, create_score=spec["create_score"], first_note_at_zero=spec["first_note_at_zero"], _watchdog=120)
    perf, al2 = res[0], res[1]
    compare_loaded(o, entries, info, perf, al2, first_note_at_zero=spec["first_note_at_zero"])
    got_orn = Counter((a["score_id"], a["performance_id"]) for a in al2 if a.get("label") == "ornament")
    exp_orn = Counter((e["anchor"], pid_out(e["note"]["id"])) for e in entries if e["kind"] == "ornament")
    if got_orn != exp_orn:
        o.add("ornament-entries-differ", n_lines=sum(exp_orn.values()), n_loaded=sum(got_orn.values()))
    if spec["create_score"]:
        parts = list(res[2].parts)
        if len(parts) != 1:
            o.add("score-part-count", n=len(parts))
            return o
        exp_ids = sorted(set(e["snote"]["anchor"] for e in entries if e["kind"] in ("match", "deletion") and e["snote"]["name"].lower() != "r"))
        got_ids = sorted(n.id for n in parts[0].notes_tied)
        if got_ids != exp_ids:
            o.add("score-note-ids-differ", n_expected=len(exp_ids), n_loaded=len(got_ids), missing=sorted(set(exp_ids) - set(got_ids))[:5],
                  extra=sorted(set(got_ids) - set(exp_ids))[:5], duplicated=[k for k, v in Counter(got_ids).items() if v > 1][:5])
    return o


SUBCHECKS.append(
    SubCheck(
        "fixtures",
        fixture_oracle,
        enumerate=fixture_enum,
        shards=4,
        rule="every *.match file under tests/data/match (formats 1.0.0 and 0.4.0) x create_score x first_note_at_zero is loaded; note-bearing lines are counted and read by an independent regular-expression reader, duplicate ids resolved as validate_match_ids documents; loading must not raise; non-trivial = the file has matched notes",
        known={"loaded-performed-part-clock": _k_clock_detail},
    )
)


# ----------------------------------------------------------------------------------------------
# sub-check 3: files with repeated and conflicting note lines (own writer, own reader)
# ----------------------------------------------------------------------------------------------
_PITCHES = [("C", 0), ("D", 2), ("E", 4), ("F", 5), ("G", 7), ("A", 9), ("B", 11)]


@st.composite
def dup_case(draw, tier="quick"):
    """Abstract lines of a small 4/4 piece with duplicate / conflicting note lines, in file order."""
    k = draw(st.integers(1, 6 if tier == "quick" else 12))
    fmt = draw(st.sampled_from(["1.0.0", "1.0.0", "0.5.0"]))
    lines = []
    pcount = [0]

    def pid():
        pcount[0] += 1
        return ("n%d" if fmt == "1.0.0" else "%d") % pcount[0]

    def pnote(p=None):
        on = draw(st.integers(0, 5000))
        return {"id": p or pid(), "step": draw(st.integers(0, 6)), "on": on, "off": on + draw(st.integers(0, 500)), "vel": draw(st.integers(1, 127))}

    def snote(i, attr=None):
        return {"anchor": ("n%d" if fmt == "1.0.0" else "%d") % (100 + i), "pos": i, "step": i % 7, "attr": attr}

    for i in range(k):
        mode = draw(st.sampled_from(["match", "match", "match", "deletion", "match+deletion", "match+deletions", "deletions", "match+insertion",
                                     "match+insertions", "match-repeated", "deletion-repeated", "two-matches-one-score-id", "two-matches-one-performed-id"]))
        if mode.startswith("match"):
            n = pnote()
            lines.append({"kind": "match", "snote": snote(i), "note": n})
            if mode == "match+deletion":
                lines.append({"kind": "deletion", "snote": snote(i)})
            elif mode == "match+deletions":
                lines.append({"kind": "deletion", "snote": snote(i)})
                lines.append({"kind": "deletion", "snote": snote(i, "accent")})
            elif mode == "match+insertion":
                lines.append({"kind": "insertion", "note": dict(n)})
            elif mode == "match+insertions":
                lines.append({"kind": "insertion", "note": dict(n)})
                lines.append({"kind": "insertion", "note": dict(n, vel=(n["vel"] % 127) + 1)})
            elif mode == "match-repeated":
                lines.append(dict(lines[-1]))
        elif mode == "deletion":
            lines.append({"kind": "deletion", "snote": snote(i)})
        elif mode == "deletions":
            lines.append({"kind": "deletion", "snote": snote(i)})
            lines.append({"kind": "deletion", "snote": snote(i, "staccato")})
        elif mode == "deletion-repeated":
            lines.append({"kind": "deletion", "snote": snote(i)})
            lines.append({"kind": "deletion", "snote": snote(i)})
        elif mode == "two-matches-one-score-id":
            lines.append({"kind": "match", "snote": snote(i), "note": pnote()})
            lines.append({"kind": "match", "snote": snote(i), "note": pnote()})
        elif mode == "two-matches-one-performed-id":
            n = pnote()
            lines.append({"kind": "match", "snote": snote(i), "note": n})
            lines.append({"kind": "match", "snote": snote(i + 50), "note": dict(n)})
    for _ in range(draw(st.sampled_from([0, 0, 1, 2]))):
        mode = draw(st.sampled_from(["insertion", "insertions", "insertion-repeated"]))
        n = pnote()
        lines.append({"kind": "insertion", "note": n})
        if mode == "insertions":
            lines.append({"kind": "insertion", "note": dict(n, on=n["on"] + 1, off=n["off"] + 1)})
        elif mode == "insertion-repeated":
            lines.append({"kind": "insertion", "note": dict(n)})
    for _ in range(draw(st.sampled_from([0, 0, 1, 3]))):
        lines.append({"kind": draw(st.sampled_from(["sustain", "soft"])), "time": draw(st.integers(0, 5000)), "value": draw(st.sampled_from([0, 127, 64]))})
    lines = list(draw(st.permutations(lines)))
    return {"fmt": fmt, "ppq": draw(st.sampled_from([480, 96, 1000])), "mpq": draw(st.sampled_from([500000, 600000])), "lines": lines,
            "first_note_at_zero": draw(st.booleans())}


def write_dup_file(spec):
    v1 = spec["fmt"] == "1.0.0"
    out = ["info(matchFileVersion,%s)." % ("1.0.0" if v1 else "5.0"), "info(midiClockUnits,%d)." % spec["ppq"], "info(midiClockRate,%d)." % spec["mpq"]]
    if v1:
        out += ["scoreprop(keySignature,C,1:1,0,0.0000).", "scoreprop(timeSignature,4/4,1:1,0,0.0000)."]
    else:
        out += ["info(keySignature,[C Maj]).", "info(timeSignature,[4/4])."]

    def sn(x):
        pos = x["pos"] % 50
        name = _PITCHES[x["step"]][0]
        attrs = (["v1", "staff1"] if v1 else ["s"]) + ([x["attr"]] if x.get("attr") else [])
        on = float(pos)
        return "snote(%s,[%s,n],4,%d:%d,0,1/4,%s,%s,[%s])" % (x["anchor"], name, pos // 4 + 1, pos % 4 + 1,
                                                             ("%.4f" % on) if v1 else ("%.1f" % on), ("%.4f" % (on + 1)) if v1 else ("%.1f" % (on + 1)), ",".join(attrs))

    def pn(x):
        name, pc = _PITCHES[x["step"]]
        if v1:
            return "note(%s,%d,%d,%d,%d,1,0)." % (x["id"], 60 + pc, x["on"], x["off"], x["vel"])
        return "note(%s,[%s,n],4,%d,%d,%d,%d)." % (x["id"], name, x["on"], x["off"], x["off"], x["vel"])

    for l in spec["lines"]:
        if l["kind"] == "match":
            out.append(sn(l["snote"]) + "-" + pn(l["note"]))
        elif l["kind"] == "deletion":
            out.append(sn(l["snote"]) + "-deletion.")
        elif l["kind"] == "insertion":
            out.append("insertion-" + pn(l["note"]))
        else:
            out.append("%s(%d,%d)." % (l["kind"], l["time"], l["value"]))
    return "\n".join(out) + "\n"


def dup_oracle(spec):
    o = Outcome()
    text = write_dup_file(spec)
    info, raw_entries, unknown = read_match_lines(text)
    if unknown:
        raise RuntimeError("own reader cannot read own writer's file")
    entries = resolve_duplicates(raw_entries)
    nonblank = [l for l in text.splitlines() if l.strip()]
    sid = Counter(e["snote"]["anchor"] for e in raw_entries if e["kind"] in ("match", "deletion"))
    pidc = Counter(e["note"]["id"] for e in raw_entries if e["kind"] in ("match", "insertion"))
    multi_match = any(v > 1 for v in Counter(e["snote"]["anchor"] for e in raw_entries if e["kind"] == "match").values()) or any(
        v > 1 for v in Counter(e["note"]["id"] for e in raw_entries if e["kind"] == "match").values())
    o.cls("repeated-identical-line", len(set(nonblank)) < len(nonblank))
    o.cls("deletion-conflicts-with-match", any(e["kind"] == "deletion" and any(x["kind"] == "match" and x["snote"]["anchor"] == e["snote"]["anchor"] for x in raw_entries) for e in raw_entries))
    o.cls("insertion-conflicts-with-match", any(e["kind"] == "insertion" and any(x["kind"] == "match" and x["note"]["id"] == e["note"]["id"] for x in raw_entries) for e in raw_entries))
    o.cls("several-deletions-one-id", any(v > 1 for v in Counter(e["snote"]["anchor"] for e in raw_entries if e["kind"] == "deletion").values()))
    o.cls("several-insertions-one-id", any(v > 1 for v in Counter(e["note"]["id"] for e in raw_entries if e["kind"] == "insertion").values()))
    o.cls("several-matches-one-id", multi_match)
    o.cls("format-" + spec["fmt"])
    o.nontrivial = len(entries) != len(raw_entries) or len(set(nonblank)) < len(nonblank)
    if not any(e["kind"] in ("match", "insertion") for e in entries):
        o.cls("no-performed-note")
    with tempfile.TemporaryDirectory() as tmp:
        path = os.path.join(tmp, "dup.match")
        with open(path, "w") as f:
            f.write(text)
        perf, al2 = guarded(load_match, path, create_score=False, first_note_at_zero=spec["first_note_at_zero"])
        compare_loaded(o, entries, info, perf, al2, first_note_at_zero=spec["first_note_at_zero"])
        if not multi_match and any(e["kind"] in ("match", "deletion") for e in entries):
            res = guarded(load_match, path, create_score=True)
            exp_ids = sorted(set(e["snote"]["anchor"] for e in entries if e["kind"] in ("match", "deletion")))
            got_ids = sorted(n.id for n in res[2].parts[0].notes_tied)
            if got_ids != exp_ids:
                o.add("score-note-ids-differ", expected=exp_ids[:8], got=got_ids[:8])
    return o


SUBCHECKS.append(
    SubCheck(
        "duplicates",
        dup_oracle,
        strategy=lambda tier: dup_case(tier),
        budget={"quick": 60, "thorough": 600},
        rule="small files (formats 1.0.0 and 0.5.0) written by the harness with repeated identical lines, deletions/insertions that conflict with a match, several deletions/insertions with one id, several matches with one id; loaded alignment and performed notes compared with the documented resolution computed by an independent reader; non-trivial = at least one line is dropped by the resolution rules",
        known={"loaded-performed-part-clock": _k_clock_detail},
        floors={"deletion-conflicts-with-match": 0.1, "insertion-conflicts-with-match": 0.1, "repeated-identical-line": 0.1},
    )
)
