"""C08 - saving an alignment as a match file and loading it returns the same data.

Sub-checks

``roundtrip``   generated (score part, performed part, alignment) triples are written with
                ``save_match`` and read back with ``load_match(create_score=True)``; the
                alignment, the performance and the reconstructed score are compared with
                values computed from the abstract spec (exact integer / Fraction arithmetic).
``fixtures``    the match files shipped with the test-suite (versions 1.0.0 and 0.4.0 style)
                are loaded; the lines are counted by an independent regular-expression
                reader and compared with what the loader returns, duplicate ids being
                resolved as ``validate_match_ids`` documents.
``duplicates``  a generated file is written, note lines are duplicated / given conflicting
                partners (match + deletion, match + insertion, repeated identical lines) and
                the file is loaded: identical lines collapse, conflicting deletions and
                insertions are dropped, matches kept.
"""

import os
import re
import signal
import tempfile
from collections import Counter
from fractions import Fraction
from math import gcd

import numpy as np
from hypothesis import strategies as st

import partitura.score as S
from partitura.io.exportmatch import save_match
from partitura.io.importmatch import load_match, load_matchfile
from pbt.core import Outcome, SubCheck, SutRaised, call, load_known_findings
from pbt.gen import c08_align as A
from pbt.gen import scorespec as G

PROPERTY = "C08"
ENGINES = ["hypothesis", "enumeration"]
ASSUMPTIONS = [
    "score parts: one divisions value, time/key signature changes on bar lines only, complete final measure, every sounding note (tie chains merged) is matched or deleted, every performed note is a match, an insertion or an ornament",
    "performed note ids are strings; ids that do not start with 'n' come back prefixed with 'n' (what exporter and importer both do on purpose)",
    "with assume_unfolded=False the score ids come back with the suffix '-1' that unfolding gives to the first copy of a note",
    "offset / duration fractions whose reduced numerator or denominator exceeds 1024 are approximated by FractionalSymbolicDuration (documented bound): such cases are generated rarely and not judged for score timing",
    "positions before the first sounding note of a piece that starts with a pickup cannot be expressed by the loader (time 0 is the first note): the start of the first measure is then expected at the first note",
    "an alignment with fewer than two matched onsets gives no performance-to-score time map; an exporter failure on such input is counted, not judged",
    "tick ties (x.5 within 1e-6) accept either neighbour; seconds compared with 1e-9 relative tolerance; beats with 1e-6",
    "a watchdog of 30 s per call turns a non-terminating save/load into a discrepancy (calls take milliseconds)",
    "ornament type: a string t and the one-element list [t] are treated as the same type",
]

WATCHDOG_S = 30
SHORT_WATCHDOG_S = 3
SUPPORTED_ART = ("staccato", "accent")
BOUND = 1024


class NotFinished(BaseException):
    pass


class watchdog(object):
    def __init__(self, seconds=WATCHDOG_S):
        self.seconds = seconds

    def __enter__(self):
        def handler(signum, frame):
            raise NotFinished()

        self.old = signal.signal(signal.SIGALRM, handler)
        signal.setitimer(signal.ITIMER_REAL, self.seconds, 0.5)

    def __exit__(self, *a):
        signal.setitimer(signal.ITIMER_REAL, 0)
        signal.signal(signal.SIGALRM, self.old)
        return False


def guarded(fn, *a, **k):
    """call() with a watchdog; a hang becomes SutRaised('sut-hang:<fn>')."""
    seconds = k.pop("_watchdog", WATCHDOG_S)
    try:
        with watchdog(seconds):
            return call(fn, *a, **k)
    except NotFinished:
        raise SutRaised("sut-hang:" + getattr(fn, "__name__", "?"), "no result after %d s" % seconds) from None


# Open findings (KNOWN_FINDINGS.txt / findings.d).  Two of them make part_from_matchfile build a
# timeline with fractional time points on which add_measures may not terminate; while they are
# open the affected inputs (and only those) get a short watchdog so that the search stays fast.
try:
    _OPEN = set(load_known_findings()[0].get("C08", {}))
except Exception:  # pragma: no cover
    _OPEN = set()


# ----------------------------------------------------------------------------------------------
# reference values
# ----------------------------------------------------------------------------------------------
def expected_ticks(t, ppq, mpq):
    """Set of acceptable tick values for the time t (float seconds)."""
    x = Fraction(t) * 10 ** 6 * ppq / mpq
    lo = x.numerator // x.denominator
    frac = x - lo
    if abs(frac - Fraction(1, 2)) <= Fraction(1, 10 ** 6):
        return {lo, lo + 1}
    return {lo + 1} if frac > Fraction(1, 2) else {lo}


def norm_type(t):
    if t is None:
        return None
    if isinstance(t, (list, tuple)):
        return tuple(str(x) for x in t)
    return (str(t),)


def al_key(a):
    return (a.get("label"), a.get("score_id"), a.get("performance_id"), norm_type(a.get("type")))


def pid_out(pid):
    pid = str(pid)
    return pid if pid.startswith("n") else "n" + pid


class ScoreRef(object):
    """What the loaded score has to look like, from the part spec alone."""

    def __init__(self, ps):
        self.ps = ps
        self.tr = G.TimeRef(ps)
        self.ref = self.tr.ref
        self.d = int(ps["divs"][0][1])
        self.byid = {n["id"]: n for n in ps["notes"]}
        self.sounding = self.ref.sounding_notes()
        self.first_onset = min(t for (t, _, _, _, _) in self.sounding) if self.sounding else 0
        self.pickup = ps.get("pickup") is not None
        # origin of the loaded timeline (in score divisions): the first note for a pickup
        # piece that starts before beat 0, else the start of the bar at beat 0
        if self.pickup and self.first_onset < ps["measures"][0][1]:
            self.origin = self.first_onset
        elif self.pickup:
            self.origin = ps["measures"][0][1]
        else:
            self.origin = 0

    def q(self, t):
        """Quarters from the origin of the loaded timeline."""
        return Fraction(t - self.origin, self.d)

    def bar_of(self, t):
        for i, m in enumerate(self.ps["measures"]):
            if m[0] <= t < m[1]:
                return i
        return len(self.ps["measures"]) - 1

    def beat_unit_at(self, t):
        return self.ref.ts_at(t)[1]

    def beyond_bound(self):
        """Does any written fraction exceed the bound of FractionalSymbolicDuration?"""
        for (t, dur, _, hid, _) in self.sounding:
            m = self.ps["measures"][self.bar_of(t)]
            b, bt = self.ref.ts_at(t)
            in_bar_whole = Fraction(t - m[0], self.d * 4)
            # offset within the beat in whole notes, whichever beat unit is used (quarter or 1/bt)
            for unit in (Fraction(1, 4), Fraction(1, bt)):
                off = in_bar_whole - (in_bar_whole // unit) * unit
                if off.numerator > BOUND or off.denominator > BOUND:
                    return True
            dw = Fraction(dur, self.d * 4)
            if dw.numerator > BOUND or dw.denominator > BOUND:
                return True
        return False

    def written_grid(self):
        """lcm of the denominators (in quarters) of the offsets and durations a file can carry."""
        g = 1
        for (t, dur, _, hid, _) in self.sounding:
            m = self.ps["measures"][self.bar_of(t)]
            b, bt = self.ref.ts_at(t)
            beat_divs = Fraction(self.d * 4, bt)
            x = Fraction(t - m[0])
            off_q = (x - (x // beat_divs) * beat_divs) / self.d
            for f in (off_q, Fraction(dur, self.d)):
                g = g * f.denominator // gcd(g, f.denominator)
        return g

    def pickup_on_grid(self):
        """The distance from the first note to the first full bar is only written as a 4-decimal
        float (the format has no measure lengths): it can be restored exactly only if it lies
        on the grid given by the written fractions."""
        if not self.pickup or self.origin != self.first_onset:
            return True
        x = Fraction(self.ps["measures"][0][1] - self.origin, self.d)
        return (x * self.written_grid()).denominator == 1

    # ---- input conditions under which known defects show (used by the known-finding predicates)
    def bars_with_onsets(self):
        return set(self.bar_of(t) for (t, _, _, _, _) in self.sounding)

    def t_beat_in_quarters(self):
        """A note whose beat number differs when counted in quarters instead of beat units."""
        for (t, _, _, _, _) in self.sounding:
            b, bt = self.ref.ts_at(t)
            if bt == 4:
                continue
            x = t - self.ps["measures"][self.bar_of(t)][0]
            if x >= min(Fraction(self.d), Fraction(self.d * 4, bt)):
                return True
        return False

    def t_beat_type_change(self):
        return len(set(bt for (_, _, bt) in self.ref.timesigs)) > 1

    def t_empty_interior_bar(self):
        return len(self.bars_with_onsets()) < len(self.ps["measures"])

    def t_signature_in_empty_bar(self):
        have = self.bars_with_onsets()
        sig_t = [t for (t, _, _) in self.ref.timesigs] + [k[0] for k in self.ps.get("keysigs", [])]
        return any(self.bar_of(t) not in have for t in sig_t)

    def t_inexact_onset_in_signature_bar(self):
        """A signature in a bar whose position the loader derives from a 4-decimal onset that is not exact."""
        def inexact(t):
            return (self.tr.beat(t) * 10 ** 4).denominator != 1

        first = {}
        for (t, _, _, _, _) in self.sounding:
            b = self.bar_of(t)
            first[b] = min(first.get(b, t), t)
        sig_t = [t for (t, _, _) in self.ref.timesigs] + [k[0] for k in self.ps.get("keysigs", [])]
        for t in sig_t:
            b = self.bar_of(t)
            if b in first and (inexact(first[b]) or inexact(self.first_onset)):
                return True
        return False

    def measures(self):
        """[(start_q, end_q)] expected in the loaded part."""
        out = []
        for m in self.ps["measures"]:
            if m[1] <= self.origin:
                continue
            out.append((self.q(max(m[0], self.origin)), self.q(m[1])))
        return out

    def timesigs(self):
        out = []
        for (t, b, bt) in self.ref.timesigs:
            e = (max(self.q(t), Fraction(0)), b, bt)
            if out and out[-1][0] == e[0]:
                out[-1] = e
            elif out and out[-1][1:] == e[1:]:
                continue
            else:
                out.append(e)
        return out

    def keysigs(self):
        out = []
        for (t, f, mode) in sorted(self.ps.get("keysigs", []), key=lambda x: x[0]):
            e = (max(self.q(t), Fraction(0)), int(f), mode or "major")
            if out and out[-1][0] == e[0]:
                out[-1] = e
            elif out and out[-1][1:] == e[1:]:
                continue
            else:
                out.append(e)
        return out


def collapse(seq):
    out = []
    for e in seq:
        if out and out[-1][1:] == e[1:]:
            continue
        out.append(e)
    return out


# ----------------------------------------------------------------------------------------------
# round trip oracle
# ----------------------------------------------------------------------------------------------
INFO_RE = re.compile(r"^info\((midiClockUnits|midiClockRate),([^)]*)\)\.\s*$")
SCOREPROP_RE = re.compile(r"^scoreprop\(([A-Za-z]+),(.*),(-?\d+):(-?\d+),([^,]+),(-?[0-9.]+)\)\.\s*$")


def classify(o, spec, sr):
    ps = spec["part"]
    labels = Counter(a["label"] for a in spec["alignment"])
    beat_types = set(bt for (_, _, bt) in sr.ref.timesigs)
    o.cls("has-deletion", labels["deletion"] > 0)
    o.cls("has-insertion", labels["insertion"] > 0)
    o.cls("has-ornament", labels["ornament"] > 0)
    o.cls("no-match-at-all", labels["match"] == 0)
    o.cls("pedal", any(c["number"] in (64, 67) for c in spec["controls"]))
    o.cls("soft-pedal", any(c["number"] == 67 for c in spec["controls"]))
    o.cls("other-controller", any(c["number"] not in (64, 67) for c in spec["controls"]))
    o.cls("pickup", sr.pickup)
    o.cls("non-quarter-beat", any(bt != 4 for bt in beat_types))
    o.cls("compound-or-halves", any((b, bt) in ((6, 8), (9, 8), (12, 8), (2, 2), (3, 2)) for (_, b, bt) in sr.ref.timesigs))
    o.cls("ts-change", len(sr.ref.timesigs) > 1)
    o.cls("key-signature", bool(ps.get("keysigs")))
    o.cls("key-signature-not-at-start", any(k[0] > 0 for k in ps.get("keysigs", [])))
    o.cls("grace", any(n["kind"] == "grace" for n in ps["notes"]))
    o.cls("tie-chain", any(n.get("tie_next") for n in ps["notes"]))
    o.cls("tie-over-barline", any(sr.bar_of(t) != sr.bar_of(t + dur - 1) for (t, dur, _, _, _) in sr.sounding if dur > 0))
    o.cls("tuplet", bool(ps.get("tuplets")))
    o.cls("chord-or-voices", len(set(t for (t, _, _, _, _) in sr.sounding)) < len(sr.sounding))
    o.cls("two-staves", len(set(n.get("staff") for n in ps["notes"])) > 1)
    o.cls("articulation", any(n.get("art") for n in ps["notes"]))
    o.cls("fermata-or-fingering", any(n.get("fermata") or n.get("fingering") for n in ps["notes"]))
    o.cls("assume-unfolded-false", not spec["unfolded"])
    o.cls("ppq-mpq-not-default", (spec["ppq"], spec["mpq"]) != (480, 500000))
    o.cls("perf-id-without-n", any(not str(p["id"]).startswith("n") for p in spec["pnotes"]))
    o.cls("leading-rest", sr.first_onset > 0)
    bars_with_onsets = set(sr.bar_of(t) for (t, _, _, _, _) in sr.sounding)
    o.cls("bar-without-note-onset", len(bars_with_onsets) < len(ps["measures"]))
    o.nontrivial = bool((labels["deletion"] and labels["insertion"]) or sr.pickup or any(bt != 4 for bt in beat_types))
    return bars_with_onsets


def oracle(spec):
    o = Outcome()
    ps = spec["part"]
    sr = ScoreRef(ps)
    classify(o, spec, sr)
    if not sr.sounding:
        o.excluded.append("part-without-sounding-note")
        return o
    ppq, mpq = int(spec["ppq"]), int(spec["mpq"])
    part, score_data, ppart, perf_data, alignment = A.build(spec)
    unfolded = bool(spec["unfolded"])
    sfx = "" if unfolded else "-1"

    matched_onsets = set()
    byid = {}
    for (t, dur, pitch, hid, ids) in sr.sounding:
        byid[hid] = (t, dur)
    for a in spec["alignment"]:
        if a["label"] == "match" and byid[a["score_id"]][1] > 0:
            matched_onsets.add(byid[a["score_id"]][0])

    with tempfile.TemporaryDirectory() as tmp:
        out = os.path.join(tmp, "c08.match")
        try:
            guarded(save_match, alignment, perf_data, score_data, out, mpq=mpq, ppq=ppq, assume_unfolded=unfolded)
        except SutRaised as e:
            if len(matched_onsets) < 2 and not e.kind.startswith("sut-hang"):
                o.excluded.append("export-raises-with-fewer-than-two-matched-onsets")
                return o
            o.add("export-" + e.kind, text=e.text, unfolded=unfolded)
            return o
        text = open(out).read()
        perf = al2 = scr = None
        wd = WATCHDOG_S
        if ("export-beat-in-quarters" in _OPEN and sr.t_beat_in_quarters()) or (
            "import-beats-to-quarters-with-beat-type-change" in _OPEN and sr.t_beat_type_change()
        ):
            wd = SHORT_WATCHDOG_S
        try:
            perf, al2, scr = guarded(load_match, out, create_score=True, _watchdog=wd)
        except SutRaised as e:
            o.add("load-score-" + e.kind, text=e.text)
            try:
                perf, al2 = guarded(load_match, out, create_score=False)
            except SutRaised as e2:
                o.add("load-" + e2.kind, text=e2.text)
                return o

    # ---- header: clock units and rate ------------------------------------------------------
    info = {}
    for line in text.splitlines():
        m = INFO_RE.match(line)
        if m:
            info[m.group(1)] = m.group(2)
    if info.get("midiClockUnits") != str(ppq) or info.get("midiClockRate") != str(mpq):
        o.add("clock-info-lines-wrong", got=info, ppq=ppq, mpq=mpq)

    # ---- signature lines of the file: at the start of the bar in which they were written -------
    first_num = 0 if sr.pickup else 1
    exp_sig = Counter()
    for attr, items in (("timeSignature", sr.ref.timesigs), ("keySignature", ps.get("keysigs", []))):
        for it in items:
            b = sr.bar_of(it[0])
            exp_sig[(attr, first_num + b, 1, "0", round(float(sr.tr.beat(ps["measures"][b][0])), 3))] += 1
    got_sig = Counter()
    for line in text.splitlines():
        m = SCOREPROP_RE.match(line)
        if m and m.group(1) in ("timeSignature", "keySignature"):
            try:
                got_sig[(m.group(1), int(m.group(3)), int(m.group(4)), m.group(5), round(float(m.group(6)), 3))] += 1
            except ValueError:
                got_sig[(m.group(1), m.group(3), m.group(4), m.group(5), m.group(6))] += 1
    for attr in ("timeSignature", "keySignature"):
        e = sorted(k for k in exp_sig.elements() if k[0] == attr)
        g = sorted((k for k in got_sig.elements() if k[0] == attr), key=repr)
        if e != g:
            o.add("file-signature-line-position-wrong", attribute=attr, got=[list(k[1:]) for k in g][:6], expected=[list(k[1:]) for k in e][:6])

    # ---- alignment ------------------------------------------------------------------------------
    exp_al = Counter()
    for a in spec["alignment"]:
        e = dict(a)
        if "score_id" in e:
            e["score_id"] = e["score_id"] + sfx
        if "performance_id" in e:
            e["performance_id"] = pid_out(e["performance_id"])
        exp_al[al_key(e)] += 1
    got_al = Counter(al_key(a) for a in al2)
    if got_al != exp_al:
        missing = sorted((exp_al - got_al).elements(), key=repr)
        extra = sorted((got_al - exp_al).elements(), key=repr)
        # an entry that differs only in the ornament type is reported separately
        m_wo = Counter(k[:3] for k in missing)
        e_wo = Counter(k[:3] for k in extra)
        if m_wo == e_wo and all(k[0] == "ornament" for k in missing):
            o.add("alignment-ornament-type-changed", given=[k[3] for k in missing][:3], loaded=[k[3] for k in extra][:3],
                  given_shape=sorted(set(type(a.get("type")).__name__ for a in spec["alignment"] if a["label"] == "ornament")))
        else:
            o.add("alignment-differs", missing=missing[:4], extra=extra[:4], n_missing=len(missing), n_extra=len(extra))

    # ---- performance -------------------------------------------------------------------------------
    pps = list(perf.performedparts) if hasattr(perf, "performedparts") else list(perf)
    if len(pps) != 1:
        o.add("performance-part-count", n=len(pps))
        return o
    pp2 = pps[0]
    label_of = {}
    for a in spec["alignment"]:
        if "performance_id" in a:
            label_of[pid_out(a["performance_id"])] = a["label"]
    exp_notes = {pid_out(n["id"]): n for n in spec["pnotes"]}
    got_notes = {}
    dup = []
    for n in pp2.notes:
        if n["id"] in got_notes:
            dup.append(n["id"])
        got_notes[n["id"]] = n
    if dup:
        o.add("performed-note-duplicated", ids=dup[:5])
    missing = sorted(set(exp_notes) - set(got_notes))
    for lab in ("match", "insertion", "ornament"):
        mm = [i for i in missing if label_of.get(i) == lab]
        if mm:
            o.add("performed-note-missing:" + lab, ids=mm[:5], n=len(mm))
    extra = sorted(set(got_notes) - set(exp_notes))
    if extra:
        o.add("performed-note-unexpected", ids=extra[:5])
    tol = 1e-9
    for pid in sorted(set(exp_notes) & set(got_notes)):
        e, g = exp_notes[pid], got_notes[pid]
        if int(g["midi_pitch"]) != e["pitch"] or int(g["velocity"]) != e["vel"]:
            o.add("performed-pitch-or-velocity-wrong", id=pid, got=[int(g["midi_pitch"]), int(g["velocity"])], expected=[e["pitch"], e["vel"]])
            break
        if int(g.get("channel", 0)) != e["channel"]:
            o.add("performed-channel-wrong", id=pid, got=g.get("channel"), expected=e["channel"])
            break
        bad = False
        for key_t, key_s, t in (("note_on_tick", "note_on", e["on"]), ("note_off_tick", "note_off", e["off"])):
            ok = expected_ticks(t, ppq, mpq)
            gt = g[key_t]
            if gt is None or int(gt) != gt or int(gt) not in ok:
                o.add("performed-tick-wrong", id=pid, field=key_t, got=gt, expected=sorted(ok), seconds=t, ppq=ppq, mpq=mpq)
                bad = True
                break
            es = float(Fraction(int(gt)) * mpq / (10 ** 6 * ppq))
            if abs(float(g[key_s]) - es) > tol * (1 + abs(es)):
                o.add("performed-seconds-wrong", id=pid, field=key_s, got=float(g[key_s]), expected=es, tick=int(gt), ppq=ppq, mpq=mpq)
                bad = True
                break
        if bad:
            break
    # tracks: Performance renumbers tracks on purpose (sanitize_track_numbers); the relabelling must keep them apart and in order
    tmap = {}
    for pid in sorted(set(exp_notes) & set(got_notes)):
        tmap.setdefault(exp_notes[pid]["track"], set()).add(got_notes[pid].get("track"))
    flat = [(k, sorted(v, key=repr)) for k, v in sorted(tmap.items())]
    if any(len(v) != 1 for _, v in flat) or any(a[1][0] >= b[1][0] for a, b in zip(flat, flat[1:])):
        o.add("performed-tracks-merged-or-reordered", mapping=flat)
    # pedals
    for number in (64, 67):
        exp_seq = []
        for i, c in enumerate(spec["controls"]):
            if c["number"] == number:
                exp_seq.append((c["time"], i, int(c["value"])))
        exp_opts = [(expected_ticks(t, ppq, mpq), v) for (t, i, v) in exp_seq]
        got_seq = [(c["time"], int(c["value"])) for c in pp2.controls if c["number"] == number]
        # The loader removes repeated identical lines by design, so events are compared as a set of
        # (tick, value): every given event is found, every loaded event is explained, nothing is
        # loaded twice, and the loaded stream is in time order.
        got_ticks = []
        ok = True
        for (ts, v) in got_seq:
            x = Fraction(ts) * 10 ** 6 * ppq / mpq
            k = round(x)
            if abs(x - k) > Fraction(1, 10 ** 6):
                ok = False
            got_ticks.append((int(k), v))
        if ok:
            ok = (
                all(any(k in opts and gv == v for (k, gv) in got_ticks) for (opts, v) in exp_opts)
                and all(any(k in opts and gv == v for (opts, v) in exp_opts) for (k, gv) in got_ticks)
                and len(set(got_ticks)) == len(got_ticks)
                and not any(x[0] > y[0] for x, y in zip(got_ticks, got_ticks[1:]))
            )
        if not ok:
            o.add("pedal-events-differ", number=number, got=got_seq[:6], expected=[(sorted(s), v) for s, v in exp_opts][:6], ppq=ppq, mpq=mpq)
    others = [c for c in pp2.controls if c["number"] not in (64, 67)]
    if others:
        o.add("unexpected-controller-loaded", got=others[:3])
    if (getattr(pp2, "ppq", None), getattr(pp2, "mpq", None)) != (ppq, mpq):
        o.add("loaded-performed-part-clock-differs", got=[getattr(pp2, "ppq", None), getattr(pp2, "mpq", None)], expected=[ppq, mpq])

    # ---- score ----------------------------------------------------------------------------------------
    if scr is None:
        return o
    if sr.beyond_bound():
        o.excluded.append("fraction-beyond-1024-bound")
        return o
    if not sr.pickup_on_grid():
        o.excluded.append("pickup-length-not-on-the-grid-of-written-fractions")
        return o
    parts2 = list(scr.parts)
    if len(parts2) != 1:
        o.add("score-part-count", n=len(parts2))
        return o
    check_score(o, spec, sr, parts2[0], sfx)
    return o


def _isint(x):
    try:
        return float(x) == int(x)
    except Exception:
        return False


def check_score(o, spec, sr, p2, sfx):
    ps = spec["part"]
    notes2 = list(p2.notes_tied)
    got = {}
    for n in notes2:
        got.setdefault(n.id, []).append(n)
    exp_ids = [hid + sfx for (_, _, _, hid, _) in sr.sounding]
    if sorted(got) != sorted(exp_ids) or any(len(v) > 1 for v in got.values()):
        o.add("score-note-ids-differ", missing=sorted(set(exp_ids) - set(got))[:5], extra=sorted(set(got) - set(exp_ids))[:5],
              duplicated=sorted(k for k, v in got.items() if len(v) > 1)[:5])
    pts = [tp.t for tp in p2._points]
    if not all(_isint(t) for t in pts):
        o.add("score-time-points-not-integral", examples=[float(t) for t in pts if not _isint(t)][:4])
        return
    divs2 = [int(x) for x in np.unique(p2._quarter_durations)] if hasattr(p2, "_quarter_durations") else []
    if len(divs2) != 1:
        o.add("score-divisions-not-single", got=divs2)
        return
    d2 = divs2[0]
    bm = call(lambda: p2.beat_map)
    tolb = 1e-6

    # notes
    timing_bad = False
    for (t, dur, pitch, hid, ids) in sr.sounding:
        gl = got.get(hid + sfx)
        if not gl:
            continue
        g = gl[0]
        n = sr.byid[hid]
        eq, edq = sr.q(t), Fraction(dur, sr.d)
        gq, gdq = Fraction(int(g.start.t), d2), Fraction(int(g.duration_tied), d2)
        bt = sr.beat_unit_at(t)
        if gq != eq and not timing_bad:
            o.add("score-onset-wrong", id=hid, got_quarters=str(gq), expected_quarters=str(eq), beat_type=bt, pickup=sr.pickup,
                  bar=sr.bar_of(t), onset_in_bar_divs=t - ps["measures"][sr.bar_of(t)][0], divs=sr.d)
            timing_bad = True
        if gdq != edq and not timing_bad:
            o.add("score-duration-wrong", id=hid, got_quarters=str(gdq), expected_quarters=str(edq), beat_type=bt, grace=n["kind"] == "grace")
            timing_bad = True
        if not timing_bad:
            eb, eb2 = sr.tr.beat(t), sr.tr.beat(t + dur)
            gb = float(call(bm, g.start.t))
            gb2 = float(call(bm, g.start.t + g.duration_tied))
            if abs(gb - float(eb)) > tolb * (1 + abs(float(eb))) or abs((gb2 - gb) - float(eb2 - eb)) > tolb * (1 + abs(float(eb2 - eb))):
                o.add("score-beats-wrong", id=hid, got=[gb, gb2 - gb], expected=[float(eb), float(eb2 - eb)], beat_type=bt, pickup=sr.pickup)
                timing_bad = True
        if (str(g.step).upper(), int(g.alter or 0), int(g.octave)) != (n["step"], int(n["alter"] or 0), int(n["octave"])):
            o.add("score-spelling-wrong", id=hid, got=[g.step, g.alter, g.octave], expected=[n["step"], n["alter"], n["octave"]])
        if g.voice != n.get("voice"):
            o.add("score-voice-wrong", id=hid, got=g.voice, expected=n.get("voice"))
        if g.staff != n.get("staff"):
            o.add("score-staff-wrong", id=hid, got=g.staff, expected=n.get("staff"))
        ea = sorted(a for a in (n.get("art") or []) if a in SUPPORTED_ART)
        ga = sorted(a for a in (g.articulations or []) if a in SUPPORTED_ART)
        if ea != ga:
            o.add("score-articulations-wrong", id=hid, got=sorted(g.articulations or []), expected=ea, all_given=n.get("art"))

    # measures
    exp_m = sr.measures()
    got_m = sorted((Fraction(int(m.start.t), d2), Fraction(int(m.end.t), d2)) for m in p2.iter_all(S.Measure))
    if got_m != exp_m:
        o.add("measures-differ", got=[(str(a), str(b)) for a, b in got_m][:8], expected=[(str(a), str(b)) for a, b in exp_m][:8],
              pickup=sr.pickup, leading_rest=sr.first_onset > 0, timing_ok=not timing_bad,
              only_last_end_differs=len(got_m) == len(exp_m) and got_m[:-1] == exp_m[:-1] and got_m[-1][0] == exp_m[-1][0])
    # time signatures
    exp_ts = sr.timesigs()
    got_ts = collapse(sorted((Fraction(int(x.start.t), d2), int(x.beats), int(x.beat_type)) for x in p2.iter_all(S.TimeSignature)))
    if got_ts != exp_ts:
        o.add("time-signatures-differ", got=[(str(a), b, c) for a, b, c in got_ts], expected=[(str(a), b, c) for a, b, c in exp_ts], timing_ok=not timing_bad,
              one_division_early=_one_div_early(got_ts, exp_ts, d2))
    # key signatures
    exp_ks = sr.keysigs()
    raw_ks = sorted(((Fraction(x.start.t).limit_denominator(10 ** 6) / d2), int(x.fifths), x.mode or "major") for x in p2.iter_all(S.KeySignature))
    got_ks = collapse(raw_ks)
    if got_ks != exp_ks:
        o.add("key-signatures-differ", got=[(str(a), b, c) for a, b, c in got_ks], expected=[(str(a), b, c) for a, b, c in exp_ks],
              got_divs=[int(x.start.t) for x in p2.iter_all(S.KeySignature)], loaded_divs=d2, timing_ok=not timing_bad,
              written_measure_numbers=[(0 if sr.pickup else 1) + sr.bar_of(k[0]) for k in ps.get("keysigs", [])],
              one_division_early=_one_div_early(got_ks, exp_ks, d2))


def _one_div_early(got, exp, d2):
    """Same signatures, each at its place or exactly one loaded division before it (and at least one early)."""
    if len(got) != len(exp) or any(g[1:] != e[1:] for g, e in zip(got, exp)):
        return False
    diffs = [e[0] - g[0] for g, e in zip(got, exp)]
    return all(x in (0, Fraction(1, d2)) for x in diffs) and any(x != 0 for x in diffs)


def strat(tier):
    return A.case(tier)


# ----------------------------------------------------------------------------------------------
# known findings (active only while listed in KNOWN_FINDINGS.txt / findings.d/C08.txt)
# ----------------------------------------------------------------------------------------------
SCORE_KINDS = {
    "score-onset-wrong", "score-duration-wrong", "score-beats-wrong", "measures-differ", "time-signatures-differ",
    "key-signatures-differ", "score-time-points-not-integral", "score-divisions-not-single",
}
ADD_MEASURES_ASSERT = "load-score-sut-raised:AssertionError@score.py:add_measures"


def _sr(spec):
    return ScoreRef(spec["part"])


def _k_export_beat(spec, disc):
    return (disc.kind in SCORE_KINDS or disc.kind.startswith("load-score-")) and _sr(spec).t_beat_in_quarters()


def _k_beat_type_change(spec, disc):
    return (disc.kind in SCORE_KINDS or disc.kind.startswith("load-score-")) and _sr(spec).t_beat_type_change()


def _k_sig_in_empty_bar(spec, disc):
    return disc.kind in ("time-signatures-differ", "key-signatures-differ", "measures-differ", "score-beats-wrong", ADD_MEASURES_ASSERT) and _sr(spec).t_signature_in_empty_bar()


def _k_empty_bar_merged(spec, disc):
    return disc.kind in ("measures-differ", "score-beats-wrong", ADD_MEASURES_ASSERT) and _sr(spec).t_empty_interior_bar()


def _k_keysig_line(spec, disc):
    if disc.kind != "file-signature-line-position-wrong" or disc["detail"].get("attribute") != "keySignature":
        return False
    ts = sorted(t for (t, _, _) in spec["part"]["timesigs"])
    for k in spec["part"].get("keysigs", []):
        last = max(t for t in ts if t <= k[0])
        if last != k[0]:
            return True
    return False


def _k_keysig_at_measure_number(spec, disc):
    if disc.kind != "key-signatures-differ":
        return False
    d = disc["detail"]
    return bool(d.get("got_divs")) and set(d["got_divs"]) <= set(d.get("written_measure_numbers", []))


def _k_ornament_notes(spec, disc):
    return disc.kind == "performed-note-missing:ornament" and any(a["label"] == "ornament" for a in spec["alignment"])


def _k_ornament_type(spec, disc):
    return disc.kind == "alignment-ornament-type-changed" and any(a["label"] == "ornament" and isinstance(a.get("type"), list) for a in spec["alignment"])


def _k_clock(spec, disc):
    return disc.kind == "loaded-performed-part-clock-differs" and (int(spec["ppq"]), int(spec["mpq"])) != (480, 500000) and disc["detail"].get("got") == [480, 500000]


def _k_sig_truncated(spec, disc):
    if disc.kind in ("time-signatures-differ", "key-signatures-differ"):
        return bool(disc["detail"].get("one_division_early")) and _sr(spec).t_inexact_onset_in_signature_bar()
    if disc.kind == "score-beats-wrong":
        return _sr(spec).t_inexact_onset_in_signature_bar() and len(spec["part"]["timesigs"]) > 1
    if disc.kind == "measures-differ":
        # same root (inexact bar position): the length of the last bar is looked up just before the signature change
        return bool(disc["detail"].get("only_last_end_differs")) and _sr(spec).t_inexact_onset_in_signature_bar() and len(spec["part"]["timesigs"]) > 1
    return False


KNOWN = {
    "export-beat-in-quarters": _k_export_beat,
    "import-beats-to-quarters-with-beat-type-change": _k_beat_type_change,
    "import-signature-in-bar-without-onset": _k_sig_in_empty_bar,
    "import-bar-without-onset-merged": _k_empty_bar_merged,
    "export-key-signature-line-position": _k_keysig_line,
    "import-key-signature-at-measure-number": _k_keysig_at_measure_number,
    "ornament-notes-missing-from-performance": _k_ornament_notes,
    "export-ornament-type-nested": _k_ornament_type,
    "loaded-performed-part-clock": _k_clock,
    "import-signature-position-truncated": _k_sig_truncated,
}


SUBCHECKS = [
    SubCheck(
        "roundtrip",
        oracle,
        strategy=strat,
        budget={"quick": 40, "thorough": 1500},
        rule="generated single-part scores (pickups, bar-line signature changes, ties, grace notes, chords, 1-3 voices, 1-2 staves, tuplets, articulations) with a performed part aligned note by note (match/deletion/insertion/ornament, pedals, arbitrary ppq/mpq) are saved with save_match and loaded with load_match(create_score=True); non-trivial = (>=1 deletion and >=1 insertion) or a pickup or a beat unit other than the quarter",
        known=KNOWN,
        floors={"has-ornament": 0.1, "pedal": 0.15, "pickup": 0.08, "non-quarter-beat": 0.15, "grace": 0.05, "tie-chain": 0.1, "assume-unfolded-false": 0.15},
    ),
]
