"""C14 - performed notes sound until release or later, exactly as the pedal dictates.

Three sub-checks:

* ``sound_off_model``   (@given style): note lists + control streams + thresholds +
  ppq/mpq; construction must not raise, every ``sound_off`` is compared with the
  independent pedal model ``pbt/ref/c14_pedal.py``, thresholds are re-assigned on
  the same part (must equal a fresh part, monotone), ``note_array()`` and
  ``from_note_array(note_array())`` are compared with exact arithmetic.
* ``threshold_histories`` (model-based): a list of operations (set threshold, read
  sound_offs, note_array, rebuild from the note array and optionally go on with the
  rebuilt part, append/clear control events) applied to one live part and to the
  model in lock-step.
* ``performance_tracks``: ``Performance`` over 1-4 parts, track renumbering and the
  concatenated note array.

All times in a spec are integers ``k``; the oracle turns them into floats with
``k / unit`` (unit 8 or 1000) or, in tick mode, ``k * mpq / (1e6 * ppq)``.  The
model works on the exact rational value of these floats, so comparisons of times
are exact on both sides.
"""

from fractions import Fraction

import numpy as np
from hypothesis import strategies as st

from partitura.performance import Performance, PerformedNote, PerformedPart, adjust_offsets_w_sustain
from pbt.core import Outcome, SubCheck, SutRaised, call
from pbt.ref import c14_pedal as ref

PROPERTY = "C14"
ENGINES = ["hypothesis (@given-style specs)", "hypothesis (model-based operation histories)"]
ASSUMPTIONS = [
    "control events carry the keys the loaders produce (number, time, value[, track, channel]); the sustain pedal is controller 64",
    "a pedal event or a same-pitch onset exactly at a release time may or may not count at that time: both readings are accepted",
    "with two pedal events at the same time, or when the pedal is never seen up again and the pitch is never struck again, only sound_off >= note_off, monotonicity and recomputation are demanded",
    "duration_tick is only judged for notes that no pedal extends; both round(off)-round(on) and round(off-on) are accepted",
    "float32 columns are compared with tolerance 1e-5*(1+|x|); tick values within 1e-6 of a .5 tie accept both neighbours",
    "controls/programs without a track key form their own group per part in track renumbering; whether that group shares a number with an explicit track of the same part is not judged",
]

OVERLAP_RAISE = "sut-raised:ValueError@performance.py:_validate_sound_off"


# ------------------------------------------------------------------ spec -> inputs
def time_fn(spec):
    unit = spec["unit"]
    if unit == "tick":
        ppq, mpq = spec["ppq"], spec["mpq"]
        return lambda k: k * mpq / (1e6 * ppq)
    return lambda k: k / unit


def mk_note_dicts(spec, tf, notes=None):
    out = []
    for i, (p, on, dur, vel, trk, ch) in enumerate(spec["notes"] if notes is None else notes):
        d = dict(midi_pitch=p, note_on=tf(on), note_off=tf(on + dur), velocity=vel, channel=ch, id="n%d" % i)
        if trk is not None:
            d["track"] = trk
        if spec.get("tick_keys") and spec["unit"] == "tick":
            d["note_on_tick"] = on
            d["note_off_tick"] = on + dur
        if spec.get("pre_sound_off"):
            d["sound_off"] = d["note_off"]
        # keys with a default (velocity 60, channel 1, id None) left out
        for key in spec.get("omit_keys", []):
            d.pop(key, None)
        out.append(d)
    return out


def mk_part(spec, tf, threshold, notes=None):
    """PerformedPart for the case: notes as dicts or as PerformedNote objects; arguments that hold their
    documented default (threshold 64, ppq 480, mpq 500000, no controls) left out when the case asks for it."""
    nd = mk_note_dicts(spec, tf, notes)
    if spec.get("note_form") == "PerformedNote":
        nd = [PerformedNote(d) for d in nd]
    cd = mk_control_dicts(spec["controls"], tf)
    kw = dict(controls=cd, sustain_pedal_threshold=threshold, ppq=spec["ppq"], mpq=spec["mpq"])
    if spec.get("omit_defaults"):
        if threshold == 64:
            del kw["sustain_pedal_threshold"]
        if spec["ppq"] == 480:
            del kw["ppq"]
        if spec["mpq"] == 500000:
            del kw["mpq"]
        if not cd:
            if spec.get("controls_none"):
                kw["controls"] = None
            else:
                del kw["controls"]
    return call(PerformedPart, nd, **kw)


def mk_control_dicts(ctl, tf):
    out = []
    for (t, number, value, trk) in ctl:
        d = dict(time=tf(t), number=number, value=value)
        if trk is not None:
            d["track"] = trk
            d["channel"] = 0
        out.append(d)
    return out


def model_notes(note_dicts):
    return [dict(pitch=int(d["midi_pitch"]), on=Fraction(float(d["note_on"])), off=Fraction(float(d["note_off"])))
            for d in note_dicts]


def model_controls(control_dicts):
    return [dict(number=int(c["number"]), time=Fraction(float(c["time"])), value=int(c["value"])) for c in control_dicts]


def close(a, b, rel=1e-9):
    return abs(float(a) - float(b)) <= rel * (1.0 + abs(float(b)))


def close32(a, b):
    return abs(float(a) - float(b)) <= 1e-5 * (1.0 + abs(float(b)))


# ------------------------------------------------------------------ judging sound_offs
_KIND_BY_REASON = {
    "no-pedal-events": "sound-off-differs-from-release-without-pedal-events",
    "threshold-127": "sound-off-differs-from-release-at-threshold-127",
    "pedal-up-at-release": "sound-off-differs-from-release-with-pedal-up",
    "pedal-down-at-release": "sound-off-wrong-with-pedal-down-at-release",
}


def judge(o, sound_offs, mnotes, mctl, thr, where):
    """Compare SUT sounding ends with the model. Returns the model rows."""
    exp = ref.expected(mnotes, mctl, thr)
    for i, (so, e) in enumerate(zip(sound_offs, exp)):
        r = float(e["release"])
        so = float(so)
        if so < r and not close(so, r):
            o.add("sound-off-before-note-off", i=i, sound_off=so, note_off=r, threshold=thr, where=where)
            continue
        if e["accept"] is None:
            continue
        acc = sorted(float(a) for a in e["accept"])
        if not any(close(so, a) for a in acc):
            o.add(_KIND_BY_REASON[e["reason"]], i=i, sound_off=so, acceptable=acc, note_off=r, threshold=thr, where=where)
    return exp


def classes_from_model(o, exp, mnotes, mctl):
    ev = ref.pedal_events(mctl)
    o.cls("pedal-present", bool(ev))
    o.cls("duplicate-pedal-times", ref.has_duplicate_times(ev))
    o.cls("overlap-equal-pitch", ref.any_overlap(mnotes))
    o.cls("pedal-down-covers-release", any(e["extended"] for e in exp))
    o.cls("event-exactly-at-release", any(e["at_release"] for e in exp))
    o.cls("pedal-never-released", any(e["reason"] == "pedal-never-released" for e in exp))
    o.cls("zero-length-note", any(n["on"] == n["off"] for n in mnotes))
    onsets = {}
    for n in mnotes:
        onsets.setdefault(n["pitch"], set()).add(n["on"])
    o.cls("restrike-ends-note", any(
        e["accept"] is not None and e["extended"] and any(a in onsets[n["pitch"]] for a in e["accept"])
        for e, n in zip(exp, mnotes)))
    if ev and mnotes:
        o.cls("pedal-before-first-onset", ev[0][0] < min(n["on"] for n in mnotes))
        o.cls("pedal-after-last-release", ev[-1][0] > max(n["off"] for n in mnotes))
    o.cls("repeated-pitch", len(set(n["pitch"] for n in mnotes)) < len(mnotes))


def check_monotone(o, by_thr, where):
    """by_thr: list of (threshold, [sound_off...]) computed with the same notes and controls."""
    for a, sa in by_thr:
        for b, sb in by_thr:
            if a < b:
                for i, (xa, xb) in enumerate(zip(sa, sb)):
                    if xb > xa and not close(xa, xb):
                        o.add("raising-threshold-lengthens-note", i=i, low=a, high=b, sound_off_low=xa, sound_off_high=xb, where=where)
                        return


def read_sound_offs(pp):
    return [float(n["sound_off"]) for n in pp.notes]


# ------------------------------------------------------------------ note array checks
def check_note_array(o, pp, note_dicts, ppq, mpq, where):
    """note_array() against the note dicts given to the constructor; returns the array."""
    na = call(pp.note_array)
    if len(na) != len(note_dicts):
        o.add("note-array-length-wrong", got=len(na), expected=len(note_dicts), where=where)
        return na
    for i, d in enumerate(note_dicts):
        row = na[i]
        on, off = float(d["note_on"]), float(d["note_off"])
        so = float(pp.notes[i]["sound_off"])
        if not close32(row["onset_sec"], on):
            o.add("note-array-onset-sec-wrong", i=i, got=float(row["onset_sec"]), expected=on, where=where)
        t_on = ref.tick_candidates(Fraction(on), ppq, mpq)
        if "note_on_tick" in d:
            t_on = {int(d["note_on_tick"])}  # as the loaders store it; consistent with the seconds by construction
        if int(row["onset_tick"]) not in t_on:
            o.add("note-array-onset-tick-disagrees-with-seconds", i=i, got=int(row["onset_tick"]), expected=sorted(t_on), onset=on, ppq=ppq, mpq=mpq, where=where)
        if not close32(row["duration_sec"], so - on):
            o.add("note-array-duration-sec-not-up-to-sound-off", i=i, got=float(row["duration_sec"]), expected=so - on,
                  note_off=off, sound_off=so, where=where)
        if close(so, off):
            t_off = ref.tick_candidates(Fraction(off), ppq, mpq)
            okd = set(b - a for a in t_on for b in t_off) | ref.tick_candidates(Fraction(off) - Fraction(on), ppq, mpq)
            if int(row["duration_tick"]) not in okd:
                o.add("note-array-duration-tick-disagrees-with-seconds", i=i, got=int(row["duration_tick"]), expected=sorted(okd),
                      onset=on, note_off=off, ppq=ppq, mpq=mpq, where=where)
        else:
            o.excluded.append("duration-tick-of-pedal-extended-note")
    return na


REBUILD_FIELDS = {
    "all": None,
    "mandatory": ("pitch", "onset_sec", "duration_sec", "velocity"),
    "no-id": ("pitch", "onset_sec", "duration_sec", "velocity", "onset_tick", "duration_tick", "track", "channel"),
    "no-track-channel": ("pitch", "onset_sec", "duration_sec", "velocity", "id"),
}


def check_rebuild(o, pp, na, note_dicts, where, fields=None):
    """from_note_array(note_array()) keeps pitches, velocities, onsets, sounding ends. Returns the new part."""
    if fields is not None:
        # a note array reduced to a documented subset of its fields (mandatory: pitch, onset_sec, duration_sec, velocity)
        na = na[[f for f in na.dtype.names if f in fields]]
    try:
        pp2 = call(PerformedPart.from_note_array, na)
    except SutRaised as e:
        o.add(e.kind, text=e.text, stage="from_note_array", n_notes=len(note_dicts), where=where)
        return None
    if len(pp2.notes) != len(note_dicts):
        o.add("rebuilt-part-note-count-wrong", got=len(pp2.notes), expected=len(note_dicts), where=where)
        return pp2
    for i, d in enumerate(note_dicts):
        n2 = pp2.notes[i]
        so = float(pp.notes[i]["sound_off"])
        if int(n2["midi_pitch"]) != int(d["midi_pitch"]) or int(n2["pitch"]) != int(d["midi_pitch"]):
            o.add("rebuilt-part-pitch-wrong", i=i, got=int(n2["midi_pitch"]), expected=int(d["midi_pitch"]), where=where)
        vel = int(d["velocity"]) if "velocity" in d else int(pp.notes[i]["velocity"])  # default velocity of the part itself
        if int(n2["velocity"]) != vel:
            o.add("rebuilt-part-velocity-wrong", i=i, got=int(n2["velocity"]), expected=vel, where=where)
        if not close32(n2["note_on"], d["note_on"]):
            o.add("rebuilt-part-onset-wrong", i=i, got=float(n2["note_on"]), expected=float(d["note_on"]), where=where)
        if not close32(n2["sound_off"], so):
            o.add("rebuilt-part-sounding-end-wrong", i=i, got=float(n2["sound_off"]), expected=so, where=where)
    return pp2


# ------------------------------------------------------------------ sub-check A
def _direct_fallback(o, spec, tf, mnotes, mctl, thr, where):
    """Construction raised: evaluate the pedal function on plain dicts so that the
    other notes of the case are still judged (search goes on past the known defect)."""
    nd = mk_note_dicts(spec, tf)
    for d in nd:
        d.setdefault("sound_off", d["note_off"])
    cd = mk_control_dicts(spec["controls"], tf)
    try:
        call(adjust_offsets_w_sustain, nd, cd, thr)
    except SutRaised as e:
        o.add(e.kind, text=e.text, stage="adjust_offsets_w_sustain on dicts", where=where)
        return
    judge(o, [float(d["sound_off"]) for d in nd], mnotes, mctl, thr, where + " (plain dicts)")


def oracle_model(spec):
    o = Outcome()
    tf = time_fn(spec)
    ppq, mpq, thr = spec["ppq"], spec["mpq"], spec["thr"]
    note_dicts = mk_note_dicts(spec, tf)
    ctl_dicts = mk_control_dicts(spec["controls"], tf)
    mnotes = model_notes(note_dicts)
    mctl = model_controls(ctl_dicts)
    exp0 = ref.expected(mnotes, mctl, thr)
    classes_from_model(o, exp0, mnotes, mctl)
    o.cls("empty-note-list", not note_dicts)
    o.cls("threshold-127", thr == 127 or 127 in spec["more"])
    o.cls("other-controllers", any(c["number"] != 64 for c in mctl))
    times = [c[0] for c in spec["controls"]]
    o.cls("controls-unsorted", times != sorted(times))
    o.cls("tick-keys", bool(spec.get("tick_keys")) and spec["unit"] == "tick")
    o.nontrivial = any(e["extended"] for e in exp0) or ref.any_overlap(mnotes)

    o.cls("notes-as-PerformedNote", spec.get("note_form") == "PerformedNote")
    o.cls("note-keys-omitted", bool(spec.get("omit_keys")))
    if spec.get("omit_defaults"):
        o.cls("defaults-omitted")
        o.cls("default-omitted:threshold", thr == 64)
        o.cls("default-omitted:ppq-mpq", ppq == 480 and mpq == 500000)
        o.cls("default-omitted:controls", not ctl_dicts)

    def fresh(threshold):
        return mk_part(spec, tf, threshold)

    # the pedal function itself on plain dictionaries (as the loaders hold them before building a part)
    if note_dicts:
        nd = mk_note_dicts(spec, tf)
        cd = mk_control_dicts(spec["controls"], tf)
        o.cls("pedal-function-on-plain-dicts")
        try:
            if thr == 64 and spec.get("omit_defaults"):
                call(adjust_offsets_w_sustain, nd, cd)
            else:
                call(adjust_offsets_w_sustain, nd, cd, thr)
            judge(o, [float(d["sound_off"]) for d in nd], mnotes, mctl, thr, "plain dicts")
        except SutRaised as e:
            o.add(e.kind, text=e.text, stage="adjust_offsets_w_sustain on dicts", where="plain dicts")

    try:
        pp = fresh(thr)
    except SutRaised as e:
        o.add(e.kind, text=e.text, stage="construct", threshold=thr)
        _direct_fallback(o, spec, tf, mnotes, mctl, thr, "construct")
        return o
    if len(pp.notes) != len(note_dicts):
        o.add("constructed-part-note-count-wrong", got=len(pp.notes), expected=len(note_dicts))
        return o
    so0 = read_sound_offs(pp)
    judge(o, so0, mnotes, mctl, thr, "after construction")
    na = check_note_array(o, pp, note_dicts, ppq, mpq, "after construction")
    if len(na) == len(note_dicts):
        rf = spec.get("rebuild_fields", "all")
        o.cls("rebuild-fields:" + rf)
        check_rebuild(o, pp, na, note_dicts, "after construction", REBUILD_FIELDS[rf])

    by_thr = [(thr, so0)]
    for k, t in enumerate(spec["more"]):
        where = "after assignment %d (threshold %d)" % (k, t)
        try:
            call(setattr, pp, "sustain_pedal_threshold", t)
        except SutRaised as e:
            o.add(e.kind, text=e.text, stage="set-threshold", threshold=t)
            _direct_fallback(o, spec, tf, mnotes, mctl, t, where)
            break
        so = read_sound_offs(pp)
        judge(o, so, mnotes, mctl, t, where)
        if pp.sustain_pedal_threshold != t:
            o.add("threshold-property-not-updated", got=pp.sustain_pedal_threshold, expected=t, where=where)
        try:
            so_f = read_sound_offs(fresh(t))
        except SutRaised as e:
            o.add(e.kind, text=e.text, stage="construct", threshold=t)
            break
        if len(so_f) != len(so) or any(not close(a, b) for a, b in zip(so, so_f)):
            o.add("assigned-threshold-differs-from-fresh-part", threshold=t, assigned=so, fresh=so_f, where=where)
        by_thr.append((t, so))
    check_monotone(o, by_thr, "same part")
    if len(by_thr) > 1:
        check_note_array(o, pp, note_dicts, ppq, mpq, "after last assignment")
    return o


def _is_overlap_case(spec):
    tf = time_fn(spec)
    nd = mk_note_dicts(spec, tf)
    return ref.any_overlap(model_notes(nd)) and any(c[1] == 64 for c in spec["controls"])


def _known_overlap(spec, disc):
    """Overlapping equal pitches with a pedal event present: the re-strike clipping cuts the
    earlier note at the later onset, i.e. below its own release, and validation raises."""
    if not _is_overlap_case(spec):
        return False
    if disc.kind == OVERLAP_RAISE:
        return disc["detail"].get("stage") in ("construct", "set-threshold")
    if disc.kind == "sound-off-before-note-off":
        tf = time_fn(spec)
        mn = model_notes(mk_note_dicts(spec, tf))
        i = disc["detail"]["i"]
        if not ref.clipped_by_overlap(mn, i):
            return False
        # the clipped value is the onset of another note of the same pitch inside [onset_i, release_i)
        so = disc["detail"]["sound_off"]
        return any(j != i and m["pitch"] == mn[i]["pitch"] and mn[i]["on"] <= m["on"] < mn[i]["off"] and close(so, m["on"])
                   for j, m in enumerate(mn))
    return False


def _known_empty_rebuild(spec, disc):
    return (disc.kind == "sut-raised:IndexError@performance.py:from_note_array"
            and disc["detail"].get("n_notes") == 0)


# ------------------------------------------------------------------ strategies
PPQS = [1, 24, 96, 384, 480, 960, 1000]
MPQS = [500000, 600000, 1000000, 250000, 428571, 333333]
OTHER_CC = [0, 1, 7, 63, 65, 66, 67, 127]


@st.composite
def _threshold(draw):
    return draw(st.one_of(st.sampled_from([64, 64, 64, 0, 127, 126, 1, 63]), st.integers(0, 127)))


@st.composite
def _notes(draw, step, allow_overlap, max_notes):
    if allow_overlap and draw(st.integers(0, 39)) == 0:
        return []
    n = draw(st.integers(1, max_notes))
    pool = draw(st.lists(st.integers(0, 127), min_size=1, max_size=3, unique=True))
    vel = st.integers(0, 127)
    trk = st.one_of(st.none(), st.integers(0, 3))
    ch = st.integers(0, 15)
    dur = st.one_of(st.just(0), st.integers(0, 8), st.integers(1, 4), st.integers(1, 8), st.integers(1, 3))
    free = allow_overlap and draw(st.integers(0, 9)) < 4
    notes = []
    if free:
        for _ in range(n):
            notes.append([draw(st.sampled_from(pool)), draw(st.integers(0, 20)) * step, draw(dur) * step, draw(vel), draw(trk), draw(ch)])
    else:
        # per pitch a strictly sequential line: the next onset is never before the previous release
        # (and after a zero-length note never at the same time), so no equal pitches overlap
        cursor = {}
        for _ in range(n):
            p = draw(st.sampled_from(pool))
            gap = draw(st.one_of(st.just(0), st.integers(0, 6)))
            d = draw(dur)
            if p in cursor:
                last_end, last_dur = cursor[p]
                on = last_end + (max(gap, 1) if last_dur == 0 else gap)
            else:
                on = draw(st.integers(0, 8))
            cursor[p] = (on + d, d)
            notes.append([p, on * step, d * step, draw(vel), draw(trk), draw(ch)])
        notes = draw(st.permutations(notes))
    return [list(x) for x in notes]


@st.composite
def _controls(draw, step, thr, max_pedal):
    n_ped = 0 if draw(st.integers(0, 5)) == 0 else draw(st.integers(1, max_pedal))
    dup = draw(st.integers(0, 11)) == 0
    free = st.one_of(
        st.sampled_from([0, 127, thr, min(127, thr + 1), max(0, thr - 1)]),
        st.integers(0, 127),
    )
    down = st.one_of(st.sampled_from([127, min(127, thr + 1)]), st.integers(min(127, thr + 1), 127))
    up = st.one_of(st.sampled_from([0, thr]), st.integers(0, thr))
    # half of the streams alternate press/release (values on the two sides of the threshold), the others are arbitrary
    alternate = draw(st.booleans())
    phase = draw(st.integers(0, 1))
    out = []
    t = draw(st.integers(0, 10))
    for k in range(n_ped):
        if k:
            t += draw(st.integers(0 if dup else 1, 6))
        v = draw((down if (k + phase) % 2 == 0 else up) if alternate else free)
        out.append([t * step, 64, v, draw(st.one_of(st.none(), st.integers(0, 3)))])
    n_other = draw(st.one_of(st.just(0), st.integers(0, 3)))
    for _ in range(n_other):
        out.append([draw(st.integers(0, 30)) * step, draw(st.sampled_from(OTHER_CC)), draw(st.one_of(st.just(127), st.integers(0, 127))),
                    draw(st.one_of(st.none(), st.integers(0, 3)))])
    out.sort(key=lambda c: c[0])
    if draw(st.integers(0, 3)) == 0:
        out = draw(st.permutations(out))
    return [list(c) for c in out]


@st.composite
def _base(draw, tier, allow_overlap=True):
    unit = draw(st.sampled_from([8, 8, 1000, "tick"]))
    ppq = draw(st.one_of(st.sampled_from(PPQS), st.integers(1, 2000)))
    mpq = draw(st.one_of(st.sampled_from(MPQS), st.integers(10000, 5000000)))
    if draw(st.integers(0, 3)) == 0:
        ppq, mpq = 480, 500000  # the documented defaults (left out of the call when omit_defaults is drawn)
    if unit == "tick":
        step = draw(st.sampled_from([1, 1, 60, 120, 7]))
    else:
        step = draw(st.sampled_from([1, 1, 1, 3, 125 if unit == 1000 else 4]))
    thr = draw(_threshold())
    big = tier != "quick"
    return {
        "unit": unit,
        "ppq": ppq,
        "mpq": mpq,
        "thr": thr,
        "notes": draw(_notes(step, allow_overlap, 10 if big else 6)),
        "controls": draw(_controls(step, thr, 10 if big else 6)),
        "tick_keys": draw(st.booleans()),
        "pre_sound_off": draw(st.integers(0, 4)) == 0,
        # argument shapes: notes handed over as PerformedNote objects; keys / arguments with a default left out
        "note_form": draw(st.sampled_from(["dict", "dict", "PerformedNote"])),
        "omit_keys": draw(st.sampled_from([[], [], [], ["velocity"], ["channel"], ["id"], ["velocity", "channel", "id"]])),
        "omit_defaults": draw(st.booleans()),
        "controls_none": draw(st.booleans()),
        "rebuild_fields": draw(st.sampled_from(["all", "all", "mandatory", "no-id", "no-track-channel"])),
    }


@st.composite
def strat_model(draw, tier):
    spec = draw(_base(tier))
    spec["more"] = draw(st.lists(_threshold(), min_size=0, max_size=3))
    return spec


# ------------------------------------------------------------------ sub-check B: histories
@st.composite
def strat_history(draw, tier):
    spec = draw(_base(tier, allow_overlap=draw(st.integers(0, 7)) == 0))
    maxlen = 12 if tier == "quick" else 30
    thr = _threshold()
    step = 1
    ks = sorted(set([n[1] for n in spec["notes"]] + [n[1] + n[2] for n in spec["notes"]] + [c[0] for c in spec["controls"]]))
    some_time = st.one_of(st.sampled_from(ks) if ks else st.integers(0, 30), st.integers(0, 40).map(lambda x: x * step))
    op = st.one_of(
        st.tuples(st.just("set"), thr),
        st.tuples(st.just("set"), thr),
        st.tuples(st.just("set"), thr),
        st.tuples(st.just("read")),
        st.tuples(st.just("na")),
        st.tuples(st.just("rebuild"), st.booleans()),
        st.tuples(st.just("ctl"), some_time, st.sampled_from([64, 64, 64, 67]), st.one_of(st.sampled_from([0, 127]), st.integers(0, 127))),
        st.tuples(st.just("ctl"), some_time, st.just(64), st.one_of(st.sampled_from([0, 127]), st.integers(0, 127))),
        st.tuples(st.just("ctl_clear")),
        st.tuples(st.just("note_off"), st.integers(0, 9), st.integers(0, 12).map(lambda x: x * step)),
    )
    spec["ops"] = [list(x) for x in draw(st.lists(op, min_size=1, max_size=maxlen))]
    return spec


def oracle_history(spec):
    o = Outcome()
    tf = time_fn(spec)
    ppq, mpq = spec["ppq"], spec["mpq"]
    cur_notes = mk_note_dicts(spec, tf)          # note dicts describing the live part (never handed to the SUT)
    cur_ctl = mk_control_dicts(spec["controls"], tf)  # model copy of pp.controls
    thr = spec["thr"]
    try:
        pp = mk_part(spec, tf, thr)
    except SutRaised as e:
        o.add(e.kind, text=e.text, stage="construct", threshold=thr)
        o.cls("history-construction-raised")
        return o
    snap_ctl = [dict(c) for c in cur_ctl]  # controls in force at the last (re)computation
    snap_notes = [dict(d) for d in cur_notes]  # notes as they were at the last (re)computation
    seen = [(thr, read_sound_offs(pp))]    # (threshold, sound_offs) under snap_ctl
    n_set = n_mut = n_note_mut = 0
    extended_seen = False
    stale = False

    def model():
        return model_notes(snap_notes), model_controls(snap_ctl)

    mn, mc = model()
    exp = judge(o, seen[0][1], mn, mc, thr, "after construction")
    extended_seen |= any(e["extended"] for e in exp)
    for step, op in enumerate(spec["ops"]):
        if o.discs:
            break
        kind = op[0]
        where = "step %d %s" % (step, kind)
        try:
            if kind == "set":
                t = op[1]
                if stale:
                    snap_ctl = [dict(c) for c in cur_ctl]
                    o.cls("set-after-notes-changed", any(a["note_off"] != b["note_off"] for a, b in zip(snap_notes, cur_notes)))
                    snap_notes = [dict(d) for d in cur_notes]
                    seen = []
                    stale = False
                    o.cls("set-after-controls-changed")
                call(setattr, pp, "sustain_pedal_threshold", t)
                thr = t
                n_set += 1
                so = read_sound_offs(pp)
                mn, mc = model()
                exp = judge(o, so, mn, mc, thr, where)
                extended_seen |= any(e["extended"] for e in exp)
                fresh = call(PerformedPart, [dict(d) for d in cur_notes], controls=[dict(c) for c in snap_ctl],
                             sustain_pedal_threshold=t, ppq=ppq, mpq=mpq)
                so_f = read_sound_offs(fresh)
                if len(so_f) != len(so) or any(not close(a, b) for a, b in zip(so, so_f)):
                    o.add("assigned-threshold-differs-from-fresh-part", threshold=t, assigned=so, fresh=so_f, where=where)
                seen.append((t, so))
                check_monotone(o, seen, where)
                o.cls("set-lower-threshold", len(seen) > 1 and seen[-2][0] > t)
                o.cls("set-higher-threshold", len(seen) > 1 and seen[-2][0] < t)
            elif kind == "read":
                mn, mc = model()
                judge(o, read_sound_offs(pp), mn, mc, thr, where)
                if pp.sustain_pedal_threshold != thr:
                    o.add("threshold-property-not-updated", got=pp.sustain_pedal_threshold, expected=thr, where=where)
            elif kind == "na":
                check_note_array(o, pp, cur_notes, ppq, mpq, where)
            elif kind == "rebuild":
                na = check_note_array(o, pp, cur_notes, ppq, mpq, where)
                if len(na) != len(cur_notes):
                    break
                pp2 = check_rebuild(o, pp, na, cur_notes, where)
                if pp2 is not None and op[1] and not o.discs:
                    # go on with the rebuilt part: its releases are the old sounding ends, no controls
                    new_notes = []
                    for i, n2 in enumerate(pp2.notes):
                        new_notes.append(dict(midi_pitch=int(n2["midi_pitch"]), note_on=float(n2["note_on"]), note_off=float(n2["note_off"]),
                                              velocity=int(n2["velocity"]), track=int(n2["track"]), channel=int(n2["channel"]), id=str(n2["id"])))
                        if float(n2["note_off"]) != float(n2["sound_off"]):
                            o.add("rebuilt-part-release-differs-from-sounding-end", i=i, note_off=float(n2["note_off"]),
                                  sound_off=float(n2["sound_off"]), where=where)
                    pp, cur_notes, cur_ctl, snap_ctl = pp2, new_notes, [], []
                    snap_notes = [dict(d) for d in cur_notes]
                    ppq, mpq = pp2.ppq, pp2.mpq
                    thr = pp2.sustain_pedal_threshold
                    seen = [(thr, read_sound_offs(pp2))]
                    stale = False
                    o.cls("continued-with-rebuilt-part")
            elif kind == "ctl":
                c = dict(time=tf(op[1]), number=op[2], value=op[3])
                pp.controls.append(dict(c))
                cur_ctl.append(c)
                stale = True
                n_mut += 1
            elif kind == "note_off":
                # a release moved on the live part through PerformedNote.__setitem__ (as the MIDI importer does after
                # construction); the sounding ends stay as they are until the next threshold assignment
                if cur_notes:
                    i = op[1] % len(cur_notes)
                    new_off = float(cur_notes[i]["note_on"]) + float(tf(op[2])) - float(tf(0))
                    call(pp.notes[i].__setitem__, "note_off", new_off)
                    cur_notes[i] = dict(cur_notes[i], note_off=new_off)
                    cur_notes[i].pop("note_off_tick", None)
                    cur_notes[i].pop("sound_off", None)  # a fresh part computes it from the new release
                    stale = True
                    n_mut += 1
                    n_note_mut += 1
            elif kind == "ctl_clear":
                del pp.controls[:]
                cur_ctl = []
                stale = True
                n_mut += 1
        except SutRaised as e:
            # overlap / pedal are facts about the model's current notes and controls (a rebuilt part may have
            # acquired overlaps through float32 rounding of onset + duration)
            o.add(e.kind, text=e.text, stage="set-threshold" if kind == "set" else kind, where=where,
                  overlap=ref.any_overlap(model_notes(cur_notes)), pedal=any(c["number"] == 64 for c in cur_ctl))
            break
    mn = model_notes(cur_notes)
    o.cls("overlap-equal-pitch", ref.any_overlap(mn))
    o.cls("history-with-two-assignments", n_set >= 2)
    o.cls("history-mutates-controls", n_mut > n_note_mut)
    o.cls("history-moves-a-release", n_note_mut > 0)
    o.nontrivial = n_set >= 1 and extended_seen
    o.cls("history-nontrivial", o.nontrivial)
    return o


def _known_overlap_history(spec, disc):
    """Same defect in a history: the part is built from (or pedal events are appended to) notes with
    overlapping equal pitches, and the recomputation raises."""
    if disc.kind != OVERLAP_RAISE:
        return False
    d = disc["detail"]
    if d.get("stage") == "construct":
        return _is_overlap_case(spec)
    return d.get("stage") == "set-threshold" and d.get("overlap") is True and d.get("pedal") is True


# ------------------------------------------------------------------ sub-check C: Performance
@st.composite
def strat_performance(draw, tier):
    container = draw(st.sampled_from(["list", "list", "list", "tuple", "tuple", "bare"]))
    nparts = 1 if container == "bare" else draw(st.integers(1, 4))
    trk = st.one_of(st.none(), st.integers(0, 3), st.integers(0, 1))
    parts = []
    for _ in range(nparts):
        notes = draw(st.lists(st.tuples(st.integers(0, 127), st.integers(0, 20), st.integers(0, 6), st.integers(0, 127), trk, st.integers(0, 15)),
                              min_size=0, max_size=4))
        # keep equal pitches of one part apart (the known overlap defect is the other sub-checks' business)
        clean, busy = [], {}
        for (p, on, d, v, t, c) in notes:
            on = max(on, busy.get(p, 0))
            busy[p] = on + d + 1
            clean.append([p, on, d, v, t, c])
        ctl = draw(st.lists(st.tuples(st.integers(0, 30), st.sampled_from([64, 64, 67, 7]), st.integers(0, 127), trk), min_size=0, max_size=4))
        prog = draw(st.lists(st.tuples(st.integers(0, 30), st.integers(0, 127), trk), min_size=0, max_size=2))
        parts.append({"notes": clean, "controls": [list(c) for c in ctl], "programs": [list(p) for p in prog]})
    return {"unit": 8, "ppq": 480, "mpq": 500000, "parts": parts, "ensure": draw(st.integers(0, 5)) != 0,
            "thr": draw(_threshold()),
            # how the parts are handed over: list, tuple, or (one part) the bare PerformedPart as the match importer does;
            # positionally or by keyword; ensure_unique_tracks left out when True (its default)
            "container": container,
            "keyword": draw(st.booleans()),
            "omit_ensure": draw(st.booleans()),
            # renumber a second time on the finished performance
            "sanitize_again": draw(st.integers(0, 3)) == 0}


def oracle_performance(spec):
    o = Outcome()
    tf = time_fn(spec)
    pps, before = [], []
    for pi, p in enumerate(spec["parts"]):
        sub = {"unit": spec["unit"], "notes": p["notes"]}
        nd = mk_note_dicts(sub, tf)
        cd = mk_control_dicts(p["controls"], tf)
        pr = []
        for (t, prog, trk) in p["programs"]:
            d = dict(time=tf(t), program=prog, channel=0)
            if trk is not None:
                d["track"] = trk
            pr.append(d)
        pp = call(PerformedPart, nd, id="P%d" % pi, controls=cd, programs=pr, sustain_pedal_threshold=spec["thr"])
        pps.append(pp)
        before.append(dict(
            notes=[(int(n["midi_pitch"]), float(n["note_on"]), float(n["note_off"]), float(n["sound_off"]), int(n["velocity"])) for n in pp.notes],
            na=call(pp.note_array),
        ))
    old = []  # (part, kind, index, old track or None)
    for pi, p in enumerate(spec["parts"]):
        for k, n in enumerate(p["notes"]):
            old.append((pi, "note", k, 0 if n[4] is None else n[4]))  # documented default track of a note: 0
        for k, c in enumerate(p["controls"]):
            old.append((pi, "control", k, c[3]))
        for k, c in enumerate(p["programs"]):
            old.append((pi, "program", k, c[2]))
    container = spec.get("container", "list")
    if container == "bare" and len(pps) == 1:
        arg = pps[0]
        o.cls("given:bare-part")
    elif container == "tuple":
        arg = tuple(pps)
        o.cls("given:tuple")
    else:
        arg = list(pps)
        o.cls("given:list")
    kw = {}
    if not (spec["ensure"] and spec.get("omit_ensure")):
        kw["ensure_unique_tracks"] = spec["ensure"]
    else:
        o.cls("ensure_unique_tracks-omitted")
    if spec.get("keyword"):
        perf = call(Performance, performedparts=arg, id="perf", **kw)
    else:
        perf = call(Performance, arg, **kw)
    if spec.get("sanitize_again") and spec["ensure"]:
        # the renumbering applied to its own result keeps every claim (unique, parts not mixed)
        o.cls("renumbered-twice")
        call(perf.sanitize_track_numbers)
    if len(perf.performedparts) != len(pps) or any(a is not b for a, b in zip(perf.performedparts, pps)):
        o.add("performance-parts-differ-from-given-parts")
        return o

    def new_track(pi, kind, k):
        pp = perf.performedparts[pi]
        item = {"note": pp.notes, "control": pp.controls, "program": pp.programs}[kind][k]
        return item.get("track", None)

    new = [new_track(pi, kind, k) for (pi, kind, k, _) in old]
    multi = len(spec["parts"]) > 1
    o.cls("several-parts", multi)
    o.cls("same-track-number-in-two-parts", len(set((pi, t) for pi, _, _, t in old if t is not None)) >
          len(set(t for _, _, _, t in old if t is not None)))
    o.cls("items-without-track", any(t is None for _, _, _, t in old))
    o.nontrivial = multi and spec["ensure"] and len(old) > 1
    if spec["ensure"]:
        if any(t is None for t in new):
            o.add("item-without-track-after-renumbering")
        else:
            groups = {}
            done = False
            for (pi, kind, k, t), nt in zip(old, new):
                key = (pi, t)
                if key in groups and groups[key] != int(nt):
                    o.add("one-track-of-a-part-split-into-two-numbers", part=pi, old_track=t, numbers=sorted({groups[key], int(nt)}))
                    done = True
                    break
                groups[key] = int(nt)
            if not done:
                items = sorted(groups.items(), key=lambda kv: (kv[0][0], -1 if kv[0][1] is None else kv[0][1]))
                for a, (ka, va) in enumerate(items):
                    for (kb, vb) in items[a + 1:]:
                        if va != vb:
                            continue
                        if ka[0] != kb[0]:
                            o.add("two-parts-share-a-track-number", parts=[ka[0], kb[0]], old_tracks=[ka[1], kb[1]], number=va)
                            done = True
                        elif ka[1] is not None and kb[1] is not None:
                            o.add("two-tracks-of-a-part-merged", part=ka[0], old_tracks=[ka[1], kb[1]], number=va)
                            done = True
                        if done:
                            break
                    if done:
                        break
            n_explicit = len(set(k for k in groups if k[1] is not None))
            n_missing = len(set(k for k in groups if k[1] is None))
            nt = call(lambda: perf.num_tracks)
            if not (n_explicit <= nt <= n_explicit + n_missing) or (not done and nt != len(set(groups.values()))):
                o.add("num-tracks-wrong", got=nt, explicit_groups=n_explicit, groups_without_track=n_missing, distinct_numbers=len(set(groups.values())))
    else:
        for (pi, kind, k, t), nt in zip(old, new):
            if (t is None and nt is not None) or (t is not None and int(nt) != t):
                o.add("track-changed-although-renumbering-disabled", part=pi, kind=kind, old=t, new=nt)
                break
    # nothing else touched
    for pi, pp in enumerate(perf.performedparts):
        after = [(int(n["midi_pitch"]), float(n["note_on"]), float(n["note_off"]), float(n["sound_off"]), int(n["velocity"])) for n in pp.notes]
        if after != before[pi]["notes"]:
            o.add("performance-changed-notes-of-a-part", part=pi)
    # concatenated note array
    total = sum(len(b["notes"]) for b in before)
    if total:
        na = call(perf.note_array)
        if len(na) != total:
            o.add("performance-note-array-length-wrong", got=len(na), expected=total)
        else:
            rows = sorted((int(r["pitch"]), float(r["onset_sec"]), float(r["duration_sec"]), int(r["velocity"]), int(r["onset_tick"]), int(r["duration_tick"])) for r in na)
            exp_rows = sorted((int(r["pitch"]), float(r["onset_sec"]), float(r["duration_sec"]), int(r["velocity"]), int(r["onset_tick"]), int(r["duration_tick"]))
                              for b in before for r in b["na"])
            if rows != exp_rows:
                o.add("performance-note-array-rows-differ-from-parts", got=rows[:6], expected=exp_rows[:6])
            ons = [float(x) for x in na["onset_sec"]]
            if any(b < a for a, b in zip(ons, ons[1:])):
                o.add("performance-note-array-not-sorted-by-onset", onsets=ons)
            if spec["ensure"] and multi:
                # rows of different parts must carry different track numbers
                by_id = {}
                for pi, pp in enumerate(perf.performedparts):
                    for n in pp.notes:
                        by_id["P%02d_%s" % (pi, n["id"])] = int(n["track"])
                for r in na:
                    if str(r["id"]) in by_id and by_id[str(r["id"])] != int(r["track"]):
                        o.add("performance-note-array-track-differs-from-part", id=str(r["id"]), got=int(r["track"]), expected=by_id[str(r["id"])])
                        break
    return o


SUBCHECKS = [
    SubCheck(
        "sound_off_model",
        oracle_model,
        strategy=strat_model,
        budget={"quick": 1000, "thorough": 30000},
        rule="notes as dicts or PerformedNote objects, with/without the keys that have defaults; constructor arguments at their default left out; the pedal function also on plain dicts; rebuild from the full note array or a documented subset of its fields; 0-6 notes over 1-3 pitches (sequential lines per pitch or free placement with overlaps, zero-length notes, shuffled), 0-6 pedal events "
             "(values around the threshold, before/after the notes, duplicates 1/12) interleaved with other controllers, threshold + up to 3 re-assigned "
             "thresholds, ppq/mpq, seconds on a 1/8 or 1/1000 grid or derived from ticks; every sound_off compared with the independent pedal model, "
             "re-assignment == fresh part, monotone, note_array and from_note_array compared with exact arithmetic; "
             "non-trivial = a pedal-down interval covers at least one release, or equal pitches overlap",
        known={"overlap-clip": _known_overlap, "empty-rebuild": _known_empty_rebuild},
        floors={"pedal-down-covers-release": 0.15, "overlap-equal-pitch": 0.05, "event-exactly-at-release": 0.05,
                "restrike-ends-note": 0.02, "zero-length-note": 0.1, "controls-unsorted": 0.03, "threshold-127": 0.05,
                "notes-as-PerformedNote": 0.15, "note-keys-omitted": 0.2, "defaults-omitted": 0.3,
                "default-omitted:threshold": 0.03, "default-omitted:ppq-mpq": 0.04, "default-omitted:controls": 0.02,
                "pedal-function-on-plain-dicts": 0.8, "rebuild-fields:mandatory": 0.1, "rebuild-fields:no-id": 0.07,
                "rebuild-fields:no-track-channel": 0.07},
    ),
    SubCheck(
        "threshold_histories",
        oracle_history,
        strategy=strat_history,
        budget={"quick": 60, "thorough": 1500},
        rule="histories of up to 12 (30) operations on one live part: assign threshold, read sound_offs, note_array, rebuild from the note array "
             "(optionally continuing with the rebuilt part), append pedal/other control events, clear controls, move a release through PerformedNote.__setitem__; model and fresh part compared after "
             "every step; non-trivial = at least one assignment and a note extended by the pedal at some step",
        known={"overlap-clip": _known_overlap_history, "empty-rebuild": _known_empty_rebuild},
        floors={"history-with-two-assignments": 0.2, "history-moves-a-release": 0.1, "set-after-notes-changed": 0.05},
    ),
    SubCheck(
        "performance_tracks",
        oracle_performance,
        strategy=strat_performance,
        budget={"quick": 150, "thorough": 3000},
        rule="1-4 parts (list, tuple or a bare PerformedPart; positional or keyword; ensure_unique_tracks omitted; renumbering applied a second time) with notes/controls/programs on tracks 0-3 or without track; renumbering injective on (part, old track), never shared between "
             "parts, nothing else changed, num_tracks, concatenated note array is the sorted union; non-trivial = several parts with renumbering on",
        floors={"several-parts": 0.4, "given:bare-part": 0.08, "given:tuple": 0.15, "ensure_unique_tracks-omitted": 0.15, "renumbered-twice": 0.08},
    ),
]
