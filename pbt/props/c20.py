"""C20 - exports, views and analyses never modify their argument and are repeatable.

Model-based histories: a generated score (and a performance aligned to its first part) is
fixed at the start; a generated list of read-only operations (exports, arrays, maps, pretty
printing, unfolding, estimators, transposition, len / indexing / iterator steps) is applied in
order.  After EVERY operation the identity fingerprint of the argument must equal the one taken
at the start, a repeated call must return an identical result, and every live iterator must
yield each part exactly once in order however the steps interleave.
"""

import io
import os
import tempfile
from fractions import Fraction

import numpy as np
from hypothesis import strategies as st

import partitura.score as S
import partitura.performance as P
from partitura.io.exportmusicxml import save_musicxml
from partitura.io.exportmidi import save_score_midi, save_performance_midi
from partitura.io.exportmatch import save_match
from partitura.io.exportmei import save_mei
from partitura.io.exportkern import save_kern
from partitura.io.exportaudio import save_wav
from partitura.io.importmusicxml import load_musicxml
from partitura.utils.music import (compute_pianoroll, compute_pitch_class_pianoroll, transpose, note_array_from_note_list,
                                   note_array_from_part_list, ensure_notearray, slice_notearray_by_time)
from partitura.musicanalysis import estimate_key, estimate_spelling, estimate_voices
from pbt.core import Outcome, SubCheck, SutRaised, call
from pbt.gen import scorespec as G
from pbt.gen.build import build_score

PROPERTY = "C20"
ENGINES = ["hypothesis (model-based operation histories)"]
ASSUMPTIONS = [
    "the identity fingerprint covers every time point (identity, time, quarter, prev/next), every registered object (identity, class, start/end, every public attribute and the stored symbolic duration), the parts' quarter tables and beat mode, the score's part list and structure, and for performances every note/control/program dict, ppq, mpq and pedal threshold",
    "private caches that do not change any observable result (Part._number_of_staves, Part._quarter_map) and empty per-class listing buckets created by look-ups are not counted as modifications",
    "results of repeated calls are compared as bytes (exports), array equality (arrays, maps, piano rolls), strings (pretty, key) or semantic fingerprints (unfolded / transposed scores)",
]

PROFILE = G.profile(max_bars=3, max_voices=2, max_staves=2, midbar_changes=False, irregular=False, div_changes=False,
                    unique_pitch_per_time=True, missing_voice_staff=False)

SCORE_OPS = ["musicxml", "score_midi", "note_array", "part_note_array", "rest_array", "pianoroll", "maps", "pretty",
             "unfold_max", "unfold_min", "iter_unfolded", "spelling", "voices", "key", "transpose", "len_index", "save_match", "nested_iter_score", "setitem_on_new_score"]
PERF_OPS = ["perf_midi", "perf_note_array", "perf_len_index", "nested_iter_perf", "loose_midi", "loose_note_array"]
# entry points added by the generator audit (docs/audit/C20.md): other argument types of the exporters, the exporters and
# views the histories did not contain, estimators on other argument types, array arguments, path computation
AUDIT_SCORE_OPS = ["musicxml_arg", "score_midi_arg", "save_mei", "save_kern", "save_wav", "note_list_array", "part_list_array", "ensure_notearray",
                   "array_views", "pianoroll_score", "estimators_other_args", "paths", "contains_zip", "save_match_args", "object_views"]
AUDIT_PERF_OPS = ["perf_pianoroll", "perf_wav", "perf_analysis", "perf_midi_arg"]
# what the argument of the history is: the freshly built score, or the result of another operation on it
START_FROM = ["built", "built", "built", "deepcopy", "transposed", "unfolded", "musicxml-loaded"]
SEGMENT_OPS = ("unfold_max", "unfold_min", "iter_unfolded", "save_match", "save_match_args", "paths")


MARKS = ["pedal", "pedal", "pedal-line", "loud", "cresc", "dim", "words", "tempo-dir", "rit", "tempo", "fermata", "octave"]


def add_marks(part, marks):
    for kind, t, end, staff in marks:
        if kind == "pedal":
            ob = S.SustainPedalDirection(staff=staff)
        elif kind == "pedal-line":
            ob = S.SustainPedalDirection(line=True, staff=staff)
        elif kind == "loud":
            ob = S.ConstantLoudnessDirection("f", staff=staff)
        elif kind == "cresc":
            ob = S.IncreasingLoudnessDirection("crescendo", wedge=end is not None, staff=staff)
        elif kind == "dim":
            ob = S.DecreasingLoudnessDirection("diminuendo", staff=staff)
        elif kind == "words":
            ob = S.Words("dolce", staff=staff)
        elif kind == "tempo-dir":
            ob = S.ConstantTempoDirection("adagio", staff=staff)
        elif kind == "rit":
            ob = S.DecreasingTempoDirection("ritardando", staff=staff)
        elif kind == "tempo":
            ob, end = S.Tempo(96, "q"), None
        elif kind == "octave":
            ob = S.OctaveShiftDirection("down", 8, staff=staff)
        else:
            notes = [n for n in part.iter_all(S.GenericNote, include_subclasses=True, start=t, end=t + 1)]
            if not notes:
                continue
            ob, end = S.Fermata(notes[0]), None
        part.add(ob, t, end)


@st.composite
def history(draw, tier):
    n = draw(st.sampled_from([1, 1, 2, 3]))
    parts = []
    for i in range(n):
        ps = draw(G.part_spec(PROFILE, pid="P%d" % (i + 1), note_prefix="p%dn" % i))
        # a simple repeat on some scores so that unfolding has something to do
        if len(ps["measures"]) >= 2 and draw(st.integers(0, 2)) == 0:
            ps = dict(ps, repeats=[[ps["measures"][0][0], ps["measures"][0][1]]])
        # directions and marks, with and without an end (an element may be added with a start only)
        onsets = sorted(set(x["t"] for x in ps["notes"])) or [0]
        marks = []
        for _ in range(draw(st.integers(0, 4))):
            kind = draw(st.sampled_from(MARKS))
            t = draw(st.sampled_from(onsets))
            later = [x for x in onsets if x > t] + [ps["end"]]
            end = draw(st.sampled_from(later)) if draw(st.booleans()) else None
            marks.append([kind, t, end, draw(st.sampled_from([None, 1]))])
        ps = dict(ps, c20_marks=marks)
        parts.append(ps)
    maxlen = 10 if tier == "quick" else 22
    names = SCORE_OPS + PERF_OPS + AUDIT_SCORE_OPS + AUDIT_PERF_OPS + ["iter_new", "iter_new", "iter_next", "iter_next", "iter_next", "iter_next", "piter_new", "piter_new", "piter_next", "piter_next", "piter_next"]
    op = st.tuples(st.sampled_from(names), st.integers(0, 5), st.integers(0, 7))
    return {
        "parts": parts,
        "groups": draw(st.booleans()) and n >= 2,
        "ops": draw(st.lists(op, min_size=4, max_size=maxlen)),
        "two_pparts": draw(st.booleans()),
        "start_from": draw(st.sampled_from(START_FROM)),
    }


# ------------------------------------------------------------------ fingerprints
SKIP_PART_ATTRS = {"_number_of_staves", "_quarter_map"}


def _val(v):
    if isinstance(v, S.TimePoint):
        return ("tp", id(v))
    if isinstance(v, (S.TimedObject, S.Part, S.PartGroup)):
        return ("obj", id(v))
    if isinstance(v, np.ndarray):
        return ("nd", v.dtype.str, v.shape, v.tobytes())
    if isinstance(v, dict):
        return ("dict", tuple(sorted((repr(k), _val(x)) for k, x in v.items())))
    if isinstance(v, (list, tuple)):
        return (type(v).__name__, tuple(_val(x) for x in v))
    if isinstance(v, (set, frozenset)):
        return ("set", tuple(sorted(repr(_val(x)) for x in v)))
    if isinstance(v, (int, float, str, bool, type(None), Fraction)):
        return v
    if hasattr(v, "__dict__"):
        return (type(v).__name__, tuple(sorted((k, repr(_val(x))) for k, x in vars(v).items())))
    return repr(v)


def part_fingerprint(p, skip_segments=False):
    """skip_segments: the same fingerprint as if no Segment object were registered in the part - Segment objects, their
    per-class listing buckets and the time points that hold nothing but Segments are left out, and the prev / next
    links are taken over the remaining points."""
    fp = [("attrs", tuple(sorted((k, repr(_val(v))) for k, v in vars(p).items() if k not in SKIP_PART_ATTRS and k != "_points")))]
    pts = []

    def bucket(table):
        return tuple(sorted((cls.__name__, tuple(id(o) for o in oo)) for cls, oo in table.items()
                            if len(oo) and not (skip_segments and issubclass(cls, S.Segment))))

    kept = []
    for tp in p._points:
        st_, en_ = bucket(tp.starting_objects), bucket(tp.ending_objects)
        if skip_segments and not st_ and not en_ and (any(len(oo) for oo in tp.starting_objects.values()) or any(len(oo) for oo in tp.ending_objects.values())):
            continue  # exists only because of Segments
        kept.append((tp, st_, en_))
    for i, (tp, st_, en_) in enumerate(kept):
        if skip_segments:
            prev = id(kept[i - 1][0]) if i > 0 else None
            nxt = id(kept[i + 1][0]) if i + 1 < len(kept) else None
        else:
            prev = id(tp.prev) if tp.prev is not None else None
            nxt = id(tp.next) if tp.next is not None else None
        pts.append((id(tp), tp.t, tp.quarter, prev, nxt, st_, en_))
        for oo in list(tp.starting_objects.values()) + list(tp.ending_objects.values()):
            for o in oo:
                if skip_segments and isinstance(o, S.Segment):
                    continue
                fp.append((id(o), type(o).__name__, tuple(sorted((k, repr(_val(v))) for k, v in vars(o).items()))))
    fp.append(("points", tuple(pts)))
    return fp


def score_fingerprint(score, skip_segments=False):
    fp = [("score-attrs", tuple(sorted((k, repr(_val(v))) for k, v in vars(score).items() if k not in ("parts", "part_structure", "iter_idx"))))]
    fp.append(("parts", tuple(id(p) for p in score.parts)))

    def tree(nodes):
        return tuple((id(x), tree(x.children)) if isinstance(x, S.PartGroup) else id(x) for x in nodes)

    fp.append(("structure", tree(score.part_structure)))
    for p in score.parts:
        fp.append(("part", id(p), part_fingerprint(p, skip_segments)))
    return fp


def perf_fingerprint(perf):
    fp = [("pparts", tuple(id(pp) for pp in perf.performedparts))]
    for pp in perf.performedparts:
        fp.append((
            id(pp), pp.id, pp.part_name, pp.ppq, pp.mpq, pp.sustain_pedal_threshold,
            tuple((id(n), tuple(sorted((k, repr(v)) for k, v in dict(n.pnote_dict if hasattr(n, "pnote_dict") else n).items()))) for n in pp.notes),
            tuple(tuple(sorted((k, repr(v)) for k, v in c.items())) for c in pp.controls),
            tuple(tuple(sorted((k, repr(v)) for k, v in c.items())) for c in pp.programs),
        ))
    return fp


def diff_fp(a, b):
    """First difference between two fingerprints, for the report."""
    if len(a) != len(b):
        return "fingerprint length %d -> %d (objects added or removed)" % (len(a), len(b))
    for x, y in zip(a, b):
        if x != y:
            sx, sy = repr(x), repr(y)
            i = next((k for k in range(min(len(sx), len(sy))) if sx[k] != sy[k]), 0)
            return "...%s  ->  ...%s" % (sx[max(0, i - 80): i + 60], sy[max(0, i - 80): i + 60])
    return "?"


def semantic(score_or_part):
    parts = score_or_part.parts if isinstance(score_or_part, S.Score) else [score_or_part]
    out = []
    for p in parts:
        out.append((
            p.id,
            tuple((int(a), int(b)) for a, b in p.quarter_durations()),
            tuple(sorted(((type(o).__name__, o.start.t if o.start else None, o.end.t if o.end else None, getattr(o, "id", None), getattr(o, "step", None), getattr(o, "alter", None), getattr(o, "octave", None), getattr(o, "voice", None), getattr(o, "staff", None)) for o in p.iter_all(S.TimedObject, include_subclasses=True) if not isinstance(o, S.Segment)), key=repr) if True else ()),
        ))
    return repr(out)


def _res_equal(a, b):
    if isinstance(a, np.ndarray) and isinstance(b, np.ndarray):
        if a.dtype == object or b.dtype == object:
            # arrays of Python objects (the text cells save_kern returns): compare the objects, not their addresses
            return a.dtype == b.dtype and a.shape == b.shape and a.tolist() == b.tolist()
        return a.dtype == b.dtype and a.shape == b.shape and a.tobytes() == b.tobytes()
    if isinstance(a, (list, tuple)) and isinstance(b, (list, tuple)):
        return len(a) == len(b) and all(_res_equal(x, y) for x, y in zip(a, b))
    return a == b


# ------------------------------------------------------------------ building the performance
def build_perf(parts_spec, score, two):
    ps = parts_spec[0]
    ref = G.PartRef(ps)
    notes = []
    alignment = []
    k = 0
    for (t, dur, pitch, hid, ids) in ref.sounding_notes():
        on = float(ref.quarter(t)) * 0.5 + 0.01 * (k % 3)
        off = on + max(0.05, float(ref.quarter(t + dur) - ref.quarter(t)) * 0.45)
        if k % 5 == 4:
            alignment.append({"label": "deletion", "score_id": hid})
        else:
            notes.append(dict(id="pn%d" % k, midi_pitch=pitch, note_on=on, note_off=off, velocity=40 + (k * 7) % 60, track=0, channel=0))
            alignment.append({"label": "match", "score_id": hid, "performance_id": "pn%d" % k})
        k += 1
    notes.append(dict(id="pnx", midi_pitch=50, note_on=0.3, note_off=0.4, velocity=50, track=0, channel=0))
    alignment.append({"label": "insertion", "performance_id": "pnx"})
    controls = [dict(number=64, time=0.2, value=100, track=0, channel=0), dict(number=64, time=0.9, value=0, track=0, channel=0)]
    pps = [P.PerformedPart(notes=notes, controls=controls, id="PP1", part_name="perf")]
    if two:
        pps.append(P.PerformedPart(notes=[dict(id="q0", midi_pitch=60, note_on=0.0, note_off=0.5, velocity=64, track=0, channel=1)], id="PP2"))
    return P.Performance(performedparts=pps, id="perf"), alignment


def build_loose():
    """Performed parts that do not belong to a Performance, on tracks that are not 0..k-1."""
    a = P.PerformedPart(notes=[dict(id="l0", midi_pitch=62, note_on=0.0, note_off=0.4, velocity=70, track=2, channel=0),
                               dict(id="l1", midi_pitch=65, note_on=0.5, note_off=0.9, velocity=71, track=2, channel=0)],
                        controls=[dict(number=64, time=0.1, value=90, track=2, channel=0)], id="L1")
    b = P.PerformedPart(notes=[dict(id="m0", midi_pitch=50, note_on=0.2, note_off=0.7, velocity=60, track=0, channel=1)], id="L2")
    c = P.PerformedPart(notes=[dict(id="k0", midi_pitch=40, note_on=0.0, note_off=1.0, velocity=50, track=0, channel=2)],
                        programs=[dict(program=5, time=0.0, track=0, channel=2)], id="L3")
    return [a, b, c]


class _Loose(object):
    """Presents the loose parts to perf_fingerprint."""

    def __init__(self, pps):
        self.performedparts = pps


# ------------------------------------------------------------------ the operations
def _protocol_consistent(r):
    """len / indexing / iteration / .parts of a Score agree (True for anything that is not a Score)."""
    if not isinstance(r, S.Score):
        return True
    n = call(len, r)
    by_index = [id(call(lambda i=i: r[i])) for i in range(n)]
    by_iter = [id(x) for x in call(lambda: list(r))]
    return by_index == by_iter == [id(x) for x in r.parts]


def _unchanged_array(side, name, arr, copy):
    """An array handed to a view / estimator must come back byte for byte."""
    if not (arr.dtype == copy.dtype and arr.shape == copy.shape and arr.tobytes() == copy.tobytes()):
        side.append(("array-argument-modified-by:" + name, {}))


def _try(fn, *args, **kw):
    """Result of an exporter whose output belongs to another property (MEI, kern: C19) or to none (audio synthesis): its text / array, or the error it raises
    (the same call must then raise the same error again and still leave the argument alone)."""
    try:
        return call(fn, *args, **kw)
    except SutRaised as e:
        return ("raised", e.kind)


def _cmp(x):
    """Comparable form of sparse matrices, tuples of arrays, ..."""
    if hasattr(x, "toarray"):
        return x.toarray()
    if isinstance(x, (tuple, list)):
        return [_cmp(y) for y in x]
    return x


def run_audit_op(name, a, b, part, score, perf, alignment, tmp, loose, side):
    """The entry points added by the generator audit; None if `name` is not one of them."""
    has_notes = bool(part.notes)
    if name == "musicxml_arg":
        # the other documented argument types (Part, list of parts, list of parts and groups), returned or written to a file
        kind = a % 3
        arg = [part, list(score.parts), list(score.part_structure)][kind]
        key = ("musicxml_arg", kind or id(part), b & 1)
        if b & 1:
            path = os.path.join(tmp, "x.musicxml")
            call(save_musicxml, arg, path)
            return key, open(path, "rb").read()
        return key, call(save_musicxml, arg)
    if name == "score_midi_arg":
        kind = a % 3
        arg = [part, list(score.parts), list(score.part_structure)][kind]
        if not (has_notes if kind == 0 else any(p.notes for p in score.parts)):
            return ("score_midi_arg", "skipped-no-notes", kind or id(part)), None
        path = os.path.join(tmp, "sa.mid")
        call(save_score_midi, arg, path, part_voice_assign_mode=b % 6)
        return ("score_midi_arg", kind or id(part), b % 6), open(path, "rb").read()
    if name == "save_mei":
        arg = score if a & 1 else part
        key = ("save_mei", (a & 1) or id(part), b & 1)
        if b & 1:
            path = os.path.join(tmp, "x.mei")
            r = _try(save_mei, arg, path)
            return key, (r, open(path, "rb").read() if os.path.exists(path) else None)
        return key, _try(save_mei, arg)
    if name == "save_kern":
        if b % 3:
            # save_kern costs about half a second: a third of the draws call it
            return ("save_kern", "not-called"), None
        arg = score if a & 1 else part
        r = _try(save_kern, arg)
        return ("save_kern", (a & 1) or id(part)), r
    if name == "save_wav":
        kind = a % 3
        arg = [part, score, list(score.parts)][kind]
        if not (has_notes if kind == 0 else any(p.notes for p in score.parts)):
            return ("save_wav", "skipped-no-notes", kind or id(part)), None
        kw = dict(samplerate=[2000, 4000][b & 1], bpm=[60, 120][(b >> 1) & 1], harmonic_dist=[None, 2][(b >> 2) & 1])
        return ("save_wav", kind or id(part), tuple(sorted(kw.items(), key=repr))), _try(save_wav, arg, **kw)
    if name == "note_list_array":
        notes = list(part.notes_tied if a & 1 else part.notes)
        if not notes:
            return ("note_list_array", "skipped-no-notes", id(part)), None
        ids = [id(x) for x in notes]
        kw = dict(include_pitch_spelling=bool(b & 1), include_grace_notes=bool(b & 2), include_staff=bool(b & 4))
        if a & 2:
            kw.update(beat_map=part.beat_map, quarter_map=part.quarter_map, time_signature_map=part.time_signature_map, key_signature_map=part.key_signature_map)
        r = call(note_array_from_note_list, notes, **kw)
        if [id(x) for x in notes] != ids:
            side.append(("note-list-argument-modified-by:note_list_array", {}))
        return ("note_list_array", id(part), a & 3, b & 7), r
    if name == "part_list_array":
        plist = list(score.parts)
        kw = dict(unique_id_per_part=bool(a & 1), include_pitch_spelling=bool(b & 1), include_staff=bool(b & 2), include_divs_per_quarter=bool(b & 4))
        r = call(note_array_from_part_list, plist, **kw)
        if [id(x) for x in plist] != [id(x) for x in score.parts]:
            side.append(("part-list-argument-modified-by:part_list_array", {}))
        return ("part_list_array", tuple(sorted(kw.items()))), r
    if name == "ensure_notearray":
        kind = a % 3
        if kind == 2 and not has_notes:
            return ("ensure_notearray", "skipped-no-notes", id(part)), None
        if kind == 2:
            na = call(part.note_array)
            copy = na.copy()
            r = call(ensure_notearray, na)
            _unchanged_array(side, name, na, copy)
            return ("ensure_notearray", 2, id(part)), r
        arg = [part, score][kind]
        kw = dict(include_pitch_spelling=bool(b & 1), include_time_signature=bool(b & 2))
        return ("ensure_notearray", kind or id(part), tuple(sorted(kw.items()))), call(ensure_notearray, arg, **kw)
    if name == "array_views":
        # views of a note array: the array that is handed in must not change
        if not has_notes:
            return ("array_views", "skipped-no-notes", id(part)), None
        na = call(part.note_array, include_pitch_spelling=True)
        copy = na.copy()
        on = float(na["onset_beat"].min())
        off = float((na["onset_beat"] + na["duration_beat"]).max())
        mid = on + (off - on) * [0.25, 0.5, 0.75][b % 3]
        res = [_cmp(call(compute_pianoroll, na, time_div=[1, 4][a & 1], onset_only=bool(a & 2), return_idxs=bool(a & 4))),
               _cmp(call(compute_pitch_class_pianoroll, na, time_div=[1, 4][a & 1], normalize=bool(b & 4))),
               call(slice_notearray_by_time, na, on, mid, clip_onset_duration=bool(b & 1)),
               call(slice_notearray_by_time, na, mid, off + 1, clip_onset_duration=bool(b & 1))]
        for fn in (estimate_key, estimate_spelling, estimate_voices):
            res.append(call(fn, na))
        _unchanged_array(side, name, na, copy)
        return ("array_views", id(part), a & 7, b & 7), res
    if name == "pianoroll_score":
        if not any(p.notes for p in score.parts):
            return ("pianoroll_score", "skipped-no-notes"), None
        kw = dict(time_div=[1, 2, 4, 8][b % 4], piano_range=bool(a & 1), binary=bool(a & 2), note_separation=bool(a & 4))
        return ("pianoroll_score", tuple(sorted(kw.items()))), [_cmp(call(compute_pianoroll, score, **kw)), _cmp(call(compute_pitch_class_pianoroll, part if has_notes else score, time_div=kw["time_div"]))]
    if name == "estimators_other_args":
        # Score argument (merged internally) instead of a Part
        if not any(p.notes for p in score.parts):
            return ("estimators_other_args", "skipped-no-notes"), None
        fn = [estimate_key, estimate_spelling, estimate_voices][a % 3]
        arg = [score, list(score.parts)][b & 1]
        return ("estimators_other_args", a % 3, b & 1), call(fn, arg)
    if name == "paths":
        paths = call(S.get_paths, part, no_repeats=bool(a & 1), all_repeats=bool(a & 2), ignore_leap_info=not (b & 1))
        segs = call(lambda: part.segments)
        return ("paths", id(part), a & 3, b & 1), ([str(x) for x in paths], sorted(str(sg.id) for sg in segs))
    if name == "contains_zip":
        parts = list(score.parts)
        inside = call(lambda: [(p in score) for p in score])
        zipped = call(lambda: [(id(x), id(y)) for x, y in zip(score, score)])
        enum = call(lambda: [(i, id(x)) for i, x in enumerate(score) if x in score])
        neg = call(lambda: score[-1]) is parts[-1] and call(lambda: score[-len(parts)]) is parts[0]
        try:
            call(lambda: score[len(parts)])
            beyond = False
        except SutRaised as e:
            beyond = "IndexError" in e.kind
        ok = inside == [True] * len(parts) and zipped == [(id(x), id(x)) for x in parts] and enum == [(i, id(x)) for i, x in enumerate(parts)] and neg and beyond
        if not ok:
            side.append(("container-protocol-inconsistent", dict(inside=inside, zipped_ok=zipped == [(id(x), id(x)) for x in parts], negative_index_ok=neg, index_beyond_len_raises=beyond)))
        return ("contains_zip",), ok
    if name == "save_match_args":
        if not score.parts[0].notes or score.parts[0] is None:
            return ("save_match_args", "skipped-empty-part"), None
        path = os.path.join(tmp, "b.match")
        pa = [perf, [perf.performedparts[0]], perf.performedparts[0]][a % 3]
        sa = [score, [score.parts[0]], list(score.parts)][b % 3]
        call(save_match, alignment, pa, sa, path, assume_unfolded=bool(b & 4))
        return ("save_match_args", a % 3, b % 3, bool(b & 4)), open(path).read()
    if name == "object_views":
        # properties and look-ups that only read: lists of objects, counts, bounds
        r = (tuple(id(x) for x in part.notes), tuple(id(x) for x in part.notes_tied), tuple(id(x) for x in part.rests), tuple(id(x) for x in part.measures),
             tuple(id(x) for x in part.iter_all(S.GenericNote, include_subclasses=True)), call(lambda: part.number_of_staves), int(part.first_point.t), int(part.last_point.t),
             call(lambda: [list(map(int, x)) for x in part.quarter_durations()]), tuple(id(x) for x in call(lambda: list(score.part_structure))),
             call(str, part), call(repr, score) is not None)
        return ("object_views", id(part)), r
    if name == "perf_pianoroll":
        arg = perf if a & 1 else perf.performedparts[0]
        kw = dict(time_div=[10, 20][b & 1], onset_only=bool(b & 2), piano_range=bool(b & 4))
        return ("perf_pianoroll", a & 1, tuple(sorted(kw.items()))), _cmp(call(compute_pianoroll, arg, **kw))
    if name == "perf_wav":
        arg = [perf, perf.performedparts[0], loose[0]][a % 3]
        # (what the synthesiser computes, or that it fails for some note lengths, belongs to no part of this property)
        return ("perf_wav", a % 3, b & 1), _try(save_wav, arg, samplerate=[2000, 4000][b & 1])
    if name == "perf_analysis":
        pp = perf.performedparts[0]
        fn = [estimate_key, estimate_spelling, estimate_voices][a % 3]
        if b & 1:
            na = call(pp.note_array)
            copy = na.copy()
            r = call(fn, na)
            _unchanged_array(side, name, na, copy)
            return ("perf_analysis", a % 3, 1), r
        return ("perf_analysis", a % 3, 0), call(fn, pp)
    if name == "perf_midi_arg":
        # a Performance handed over as the list of its parts / as its first part
        arg = [list(perf.performedparts), perf.performedparts[0]][a & 1]
        path = os.path.join(tmp, "pa.mid")
        call(save_performance_midi, arg, path, ppq=[96, 480][b & 1], merge_tracks_save=bool(b & 2))
        return ("perf_midi_arg", a & 1, b & 3), open(path, "rb").read()
    return None


def run_op(name, a, b, score, perf, alignment, tmp, loose=None, side=None):
    """Returns (result key, comparable result)."""
    side = side if side is not None else []
    if name == "loose_midi":
        # a bare PerformedPart / a list of PerformedParts as argument (not wrapped in a Performance)
        arg = [loose[0], [loose[0]], [loose[1], loose[2]], list(loose), loose[2]][a % 5]
        path = os.path.join(tmp, "l.mid")
        kw = dict(ppq=[96, 480][b % 2], merge_tracks_save=bool(b & 2))
        call(save_performance_midi, arg, path, **kw)
        return ("loose_midi", a % 5, tuple(sorted(kw.items()))), open(path, "rb").read()
    if name == "loose_note_array":
        return ("loose_note_array", a % 3), call(loose[a % 3].note_array)
    part = score.parts[a % len(score.parts)]
    r = run_audit_op(name, a, b, part, score, perf, alignment, tmp, loose, side)
    if r is not None:
        return r
    if name in ("pianoroll", "spelling", "voices", "key") and not part.notes:
        # these raise "Note array is empty" / are undefined for a part without notes (documented)
        return (name, "skipped-empty-part", id(part)), None
    if name == "musicxml":
        return ("musicxml",), call(save_musicxml, score)
    if name == "score_midi":
        if not any(p.notes for p in score.parts):
            return ("score_midi", "skipped-score-without-notes"), None
        mode = a % 6
        anac = ["shift", "pad_bar", "time_sig_change"][b % 3]
        path = os.path.join(tmp, "s.mid")
        call(save_score_midi, score, path, part_voice_assign_mode=mode, anacrusis_behavior=anac)
        return ("score_midi", mode, anac), open(path, "rb").read()
    if name == "note_array":
        kw = dict(include_pitch_spelling=bool(b & 1), include_key_signature=bool(b & 2), include_time_signature=bool(b & 4), include_staff=bool(a & 1), include_grace_notes=bool(a & 2))
        return ("note_array", tuple(sorted(kw.items()))), call(score.note_array, **kw)
    if name == "part_note_array":
        kw = dict(include_metrical_position=bool(b & 1), include_pitch_spelling=bool(b & 2), include_divs_per_quarter=bool(b & 4))
        return ("part_note_array", id(part), tuple(sorted(kw.items()))), call(part.note_array, **kw)
    if name == "rest_array":
        kw = dict(include_time_signature=bool(b & 1), collapse=bool(b & 2))
        return ("rest_array", id(part), tuple(sorted(kw.items()))), call(part.rest_array, **kw)
    if name == "pianoroll":
        kw = dict(time_div=[1, 2, 4, 8][b % 4], onset_only=bool(a & 1), return_idxs=bool(a & 2))
        r = call(compute_pianoroll, part, **kw)
        if isinstance(r, tuple):
            return ("pianoroll", id(part), tuple(sorted(kw.items()))), [r[0].toarray(), r[1]]
        return ("pianoroll", id(part), tuple(sorted(kw.items()))), r.toarray()
    if name == "maps":
        ts = np.arange(0, max(1, part.last_point.t), max(1, part.last_point.t // 7 or 1))
        res = [np.asarray(call(m, ts)) for m in (part.beat_map, part.quarter_map, part.time_signature_map, part.key_signature_map, part.measure_map, part.measure_number_map, part.quarter_duration_map)]
        res.append(np.asarray(call(part.inv_beat_map, res[0])))
        res.append(np.asarray(call(part.clef_map, ts)))
        if len(list(part.iter_all(S.Measure))) >= 2:
            res.append(np.asarray(call(part.metrical_position_map, ts)))
        return ("maps", id(part)), res
    if name == "pretty":
        return ("pretty", id(part)), (call(part.pretty), call(score.parts[0].pretty))
    if name == "unfold_max":
        r = call(S.unfold_part_maximal, score if b & 1 else part, update_ids=bool(a & 1))
        return ("unfold_max", (b & 1) or id(part), bool(a & 1)), (semantic(r), _protocol_consistent(r))
    if name == "unfold_min":
        r = call(S.unfold_part_minimal, score if b & 1 else part)
        return ("unfold_min", (b & 1) or id(part)), (semantic(r), _protocol_consistent(r))
    if name == "setitem_on_new_score":
        # assignment by index on a second Score over the same parts (the argument itself is not assigned to)
        sc2 = call(S.Score, list(score.parts))
        newp = S.Part("NEW", quarter_duration=1)
        call(sc2.__setitem__, a % len(sc2.parts), newp)
        return ("setitem_on_new_score", a % len(sc2.parts)), (None, _protocol_consistent(sc2) and call(lambda: sc2[a % len(sc2.parts)]) is newp)
    if name == "iter_unfolded":
        r = call(lambda: list(S.iter_unfolded_parts(part, update_ids=bool(a & 1))))
        return ("iter_unfolded", id(part), bool(a & 1)), [semantic(x) for x in r]
    if name == "spelling":
        return ("spelling", id(part)), call(estimate_spelling, part)
    if name == "voices":
        return ("voices", id(part), bool(b & 1)), call(estimate_voices, part, monophonic_voices=bool(b & 1))
    if name == "key":
        return ("key", id(part)), call(estimate_key, part)
    if name == "transpose":
        iv = [S.Interval(2, "M"), S.Interval(3, "m", "down"), S.Interval(5, "P"), S.Interval(1, "A")][b % 4]
        r = call(transpose, score if a & 1 else part, iv)
        return ("transpose", (a & 1) or id(part), b % 4), semantic(r)
    if name == "len_index":
        n = call(len, score)
        got = [call(lambda i=i: score[i]) for i in range(n)]
        return ("len_index",), (n, tuple(id(p) for p in got), tuple(id(p) for p in score.parts))
    if name in ("nested_iter_score", "nested_iter_perf"):
        cont = score if name == "nested_iter_score" else perf
        items = score.parts if name == "nested_iter_score" else perf.performedparts
        pairs = call(lambda: [(id(x), id(y)) for x in cont for y in cont])
        triple = call(lambda: [id(x) for x in cont for _ in cont for _ in cont])
        return (name,), (pairs == [(id(x), id(y)) for x in items for y in items], len(triple) == len(items) ** 3, call(len, cont) == len(list(cont)))
    if name == "save_match":
        if not score.parts[0].notes:
            return ("save_match", "skipped-empty-part"), None  # an alignment needs score notes
        path = os.path.join(tmp, "a.match")
        call(save_match, alignment, perf.performedparts[0], score.parts[0], path, assume_unfolded=bool(b & 1))
        return ("save_match", bool(b & 1)), open(path).read()
    if name == "perf_midi":
        path = os.path.join(tmp, "p.mid")
        kw = dict(ppq=[96, 480][a % 2], merge_tracks_save=bool(b & 1))
        call(save_performance_midi, perf, path, **kw)
        return ("perf_midi", tuple(sorted(kw.items()))), open(path, "rb").read()
    if name == "perf_note_array":
        return ("perf_note_array",), call(perf.note_array)
    if name == "perf_len_index":
        n = call(len, perf)
        return ("perf_len_index",), (n, tuple(id(call(lambda i=i: perf[i])) for i in range(n)), tuple(id(p) for p in perf.performedparts))
    raise ValueError(name)


def oracle(spec):
    o = Outcome()
    groups = [{"symbol": "brace", "name": "G", "number": 1, "children": list(range(len(spec["parts"])))}] if spec["groups"] else None
    score, parts, _ = build_score({"parts": spec["parts"], "groups": groups})
    for ps, p in zip(spec["parts"], parts):
        for (a, b) in ps.get("repeats", []):
            p.add(S.Repeat(), a, b)
        add_marks(p, ps.get("c20_marks", []))
    start_from = spec.get("start_from", "built")
    derived_ok = True
    if start_from != "built":
        # the argument of the history is the result of another operation on the built score
        try:
            if start_from == "deepcopy":
                import copy as _copy
                import sys as _sys
                lim = _sys.getrecursionlimit()
                _sys.setrecursionlimit(10000)
                try:
                    score = _copy.deepcopy(score)
                finally:
                    _sys.setrecursionlimit(lim)
            elif start_from == "transposed":
                score = call(transpose, score, S.Interval(2, "M"))
            elif start_from == "unfolded":
                score = call(S.unfold_part_maximal, score, update_ids=True)
            elif start_from == "musicxml-loaded":
                score = call(load_musicxml, io.BytesIO(call(save_musicxml, score)))
        except SutRaised:
            derived_ok = False  # what the deriving operation itself does is judged elsewhere (as an operation of a history, C03, C09, C16)
        if not isinstance(score, S.Score) or not score.parts:
            derived_ok = False
        if not derived_ok:
            o.excluded.append("argument-could-not-be-derived:" + start_from)
            return o
    o.cls("start-from:" + start_from)
    perf, alignment = build_perf(spec["parts"], score, spec["two_pparts"])
    if start_from in ("unfolded", "musicxml-loaded"):
        # note ids are not the generated ones any more: the alignment of the generated ids does not apply
        alignment = None
    loose = build_loose()
    fp_s = score_fingerprint(score)
    fp_s_noseg = score_fingerprint(score, skip_segments=True)
    segments_reported = False
    fp_p = perf_fingerprint(perf)
    fp_l = perf_fingerprint(_Loose(loose))
    fp_al = repr(alignment)
    alignment0 = [dict(x) for x in alignment] if alignment is not None else None
    alignment_reported = False
    alignment0 = [dict(x) for x in alignment] if alignment is not None else None
    alignment_reported = False
    results = {}
    iters, piters = [], []  # [iterator, expected remaining ids]
    kinds = set()
    repeated = False
    with tempfile.TemporaryDirectory() as tmp:
        for step, (name, a, b) in enumerate(spec["ops"]):
            where = "step %d %s" % (step, name)
            try:
                if name == "iter_new":
                    iters.append([call(iter, score), [id(p) for p in score.parts]])
                elif name == "piter_new":
                    piters.append([call(iter, perf), [id(p) for p in perf.performedparts]])
                elif name in ("iter_next", "piter_next"):
                    pool = iters if name == "iter_next" else piters
                    if not pool:
                        continue
                    rec = pool[a % len(pool)]
                    try:
                        got = id(call(next, rec[0]))
                    except SutRaised as e:
                        if "StopIteration" in e.kind:
                            got = None
                        else:
                            raise
                    exp = rec[1].pop(0) if rec[1] else None
                    if got != exp:
                        o.add("interleaved-iteration-wrong-element", where=where, live_iterators=len(pool), expected_index=None if exp is None else "part", got_none=got is None)
                        break
                    if exp is None:
                        pool.remove(rec)
                else:
                    if alignment is None and name in ("save_match", "save_match_args"):
                        continue
                    side = []
                    key, res = run_op(name, a, b, score, perf, alignment, tmp, loose, side)
                    kinds.add(name)
                    if side:
                        for kind_, det in side:
                            o.add(kind_, where=where, **det)
                        break
                    if name in ("unfold_max", "unfold_min", "setitem_on_new_score") and not res[1]:
                        o.add("len-indexing-iteration-disagree-after:" + name, where=where)
                        break
                    if name.startswith("nested_iter") and res != (True, True, True):
                        o.add("nested-iteration-does-not-visit-every-pair", where=where, checks=list(res))
                        break
                    if key in results:
                        repeated = True
                        if not _res_equal(results[key], res):
                            o.add("repeated-call-differs:" + name, where=where)
                            break
                    else:
                        results[key] = res
            except SutRaised as e:
                o.add(e.kind, text=e.text, where=where)
                break
            now = score_fingerprint(score)
            if now != fp_s:
                # does the difference consist of added Segment objects only (and of what exists only because of them)?
                only_segments = score_fingerprint(score, skip_segments=True) == fp_s_noseg
                if only_segments and name in SEGMENT_OPS:
                    # the registered finding: report it once, then go on with the Segments as part of the argument
                    if not segments_reported:
                        o.add("score-modified-by:" + name, where=where, first_difference=diff_fp(fp_s, now)[:400], only_segments_added=True)
                        segments_reported = True
                    fp_s = now
                    results.clear()  # views of the argument (pretty, iter_all) now show the Segment objects as well
                else:
                    o.add("score-modified-by:" + name, where=where, first_difference=diff_fp(fp_s, now)[:400], only_segments_added=only_segments)
                    break
            nowp = perf_fingerprint(perf)
            if nowp != fp_p:
                o.add("performance-modified-by:" + name, where=where, first_difference=diff_fp(fp_p, nowp)[:400])
                break
            nowl = perf_fingerprint(_Loose(loose))
            if nowl != fp_l:
                o.add("performed-part-argument-modified-by:" + name, where=where, first_difference=diff_fp(fp_l, nowl)[:400])
                break
            if repr(alignment) != fp_al:
                # the registered finding: every score_id got the suffix "-1" and nothing else changed
                suffix_only = (alignment is not None and len(alignment) == len(alignment0)
                               and all(set(x) == set(y) and all(x[k] == (y[k] + "-1" if k == "score_id" else y[k]) for k in y) for x, y in zip(alignment, alignment0)))
                if not suffix_only or not alignment_reported:
                    o.add("alignment-modified-by:" + name, where=where, only_score_id_suffix_added=suffix_only)
                if not suffix_only:
                    break
                alignment_reported = True
                # undo the known damage (the renamed ids match no note of the score any more) and go on
                alignment[:] = [dict(x) for x in alignment0]
    o.cls("segments-finding-passed-and-history-continued", segments_reported)
    exporters = kinds & {"musicxml", "score_midi", "save_match", "perf_midi", "loose_midi", "musicxml_arg", "score_midi_arg", "save_mei", "save_kern", "save_wav",
                         "save_match_args", "perf_wav", "perf_midi_arg"}
    live2 = sum(1 for x in spec["ops"] if x[0] == "iter_new") >= 2 or sum(1 for x in spec["ops"] if x[0] == "piter_new") >= 2
    o.nontrivial = (len(exporters) >= 2 and repeated) or live2
    o.cls("two-exporters-and-repeat", len(exporters) >= 2 and repeated)
    o.cls("two-live-iterators", live2)
    o.cls("repeated-call", repeated)
    o.cls("open-ended-mark", any(m[2] is None and m[0] not in ("tempo", "fermata") for ps in spec["parts"] for m in ps.get("c20_marks", [])))
    o.cls("open-ended-pedal-and-musicxml", "musicxml" in kinds and any(m[2] is None and m[0].startswith("pedal") for ps in spec["parts"] for m in ps.get("c20_marks", [])))
    for k in kinds:
        o.cls("op:" + k)
    return o


def known_segments(spec, d):
    """Path computation registers Segment objects in the part it is given (C09 finding).  Only when the whole
    difference consists of added Segment objects: anything else an unfolding entry point does to its argument is reported."""
    return d.kind in tuple("score-modified-by:" + n for n in SEGMENT_OPS) and d["detail"].get("only_segments_added") is True


def known_save_kern(spec, d):
    """save_kern works on the argument itself: fill_rests on a Part, merge_parts (which consumes its input) on a Score."""
    return d.kind == "score-modified-by:save_kern"


def known_alignment(spec, d):
    """matchfile_from_alignment(assume_part_unfolded=False) lets unfold_part_alignment append "-1" to every score_id of the caller's alignment."""
    return d.kind in ("alignment-modified-by:save_match", "alignment-modified-by:save_match_args") and d["detail"].get("only_score_id_suffix_added") is True


SUBCHECKS = [
    SubCheck(
        "readonly_histories",
        oracle,
        strategy=lambda tier: history(tier),
        budget={"quick": 200, "thorough": 1500},
        rule="generated score (1-3 parts, optional group, optional repeat) + aligned performance; generated histories of 2-10 (thorough 22) read-only operations incl. iterator creation/steps; identity fingerprint compared after every step, repeated calls compared; non-trivial = >=2 different exporters and a repeated call, or >=2 live iterators",
        known={"segments-left-in-argument": known_segments, "save-kern-works-on-its-argument": known_save_kern,
               "save-match-renames-alignment-score-ids": known_alignment},
        floors={"two-live-iterators": 0.01, "repeated-call": 0.05,
                # shapes added by the generator audit
                "start-from:deepcopy": 0.04, "start-from:transposed": 0.04, "start-from:unfolded": 0.02, "start-from:musicxml-loaded": 0.04,
                "op:array_views": 0.02, "op:musicxml_arg": 0.03, "op:save_match_args": 0.02, "op:save_mei": 0.01, "op:save_wav": 0.02,
                "op:perf_pianoroll": 0.02, "op:estimators_other_args": 0.03, "op:contains_zip": 0.01,
                "segments-finding-passed-and-history-continued": 0.05},
        time_budget={"quick": 120.0, "thorough": 2400.0},
    ),
]
