"""C20 - exports, views and analyses never modify their argument and are repeatable.

Model-based histories: a generated score (and a performance aligned to its first part) is
fixed at the start; a generated list of read-only operations (exports, arrays, maps, pretty
printing, unfolding, estimators, transposition, len / indexing / iterator steps) is applied in
order.  After EVERY operation the identity fingerprint of the argument must equal the one taken
at the start, a repeated call must return an identical result, and every live iterator must
yield each part exactly once in order however the steps interleave.
"""

import io
import os
import tempfile
from fractions import Fraction

import numpy as np
from hypothesis import strategies as st

import partitura.score as S
import partitura.performance as P
from partitura.io.exportmusicxml import save_musicxml
from partitura.io.exportmidi import save_score_midi, save_performance_midi
from partitura.io.exportmatch import save_match
from partitura.utils.music import compute_pianoroll, transpose
from partitura.musicanalysis import estimate_key, estimate_spelling, estimate_voices
from pbt.core import Outcome, SubCheck, SutRaised, call
from pbt.gen import scorespec as G
from pbt.gen.build import build_score

PROPERTY = "C20"
ENGINES = ["hypothesis (model-based operation histories)"]
ASSUMPTIONS = [
    "the identity fingerprint covers every time point (identity, time, quarter, prev/next), every registered object (identity, class, start/end, every public attribute and the stored symbolic duration), the parts' quarter tables and beat mode, the score's part list and structure, and for performances every note/control/program dict, ppq, mpq and pedal threshold",
    "private caches that do not change any observable result (Part._number_of_staves, Part._quarter_map) and empty per-class listing buckets created by look-ups are not counted as modifications",
    "results of repeated calls are compared as bytes (exports), array equality (arrays, maps, piano rolls), strings (pretty, key) or semantic fingerprints (unfolded / transposed scores)",
]

PROFILE = G.profile(max_bars=3, max_voices=2, max_staves=2, midbar_changes=False, irregular=False, div_changes=False,
                    unique_pitch_per_time=True, missing_voice_staff=False)

SCORE_OPS = ["musicxml", "score_midi", "note_array", "part_note_array", "rest_array", "pianoroll", "maps", "pretty",
             "unfold_max", "unfold_min", "iter_unfolded", "spelling", "voices", "key", "transpose", "len_index", "save_match", "nested_iter_score", "setitem_on_new_score"]
PERF_OPS = ["perf_midi", "perf_note_array", "perf_len_index", "nested_iter_perf", "loose_midi", "loose_note_array"]


MARKS = ["pedal", "pedal", "pedal-line", "loud", "cresc", "dim", "words", "tempo-dir", "rit", "tempo", "fermata", "octave"]


def add_marks(part, marks):
    for kind, t, end, staff in marks:
        if kind == "pedal":
            ob = S.SustainPedalDirection(staff=staff)
        elif kind == "pedal-line":
            ob = S.SustainPedalDirection(line=True, staff=staff)
        elif kind == "loud":
            ob = S.ConstantLoudnessDirection("f", staff=staff)
        elif kind == "cresc":
            ob = S.IncreasingLoudnessDirection("crescendo", wedge=end is not None, staff=staff)
        elif kind == "dim":
            ob = S.DecreasingLoudnessDirection("diminuendo", staff=staff)
        elif kind == "words":
            ob = S.Words("dolce", staff=staff)
        elif kind == "tempo-dir":
            ob = S.ConstantTempoDirection("adagio", staff=staff)
        elif kind == "rit":
            ob = S.DecreasingTempoDirection("ritardando", staff=staff)
        elif kind == "tempo":
            ob, end = S.Tempo(96, "q"), None
        elif kind == "octave":
            ob = S.OctaveShiftDirection("down", 8, staff=staff)
        else:
            notes = [n for n in part.iter_all(S.GenericNote, include_subclasses=True, start=t, end=t + 1)]
            if not notes:
                continue
            ob, end = S.Fermata(notes[0]), None
        part.add(ob, t, end)


@st.composite
def history(draw, tier):
    n = draw(st.sampled_from([1, 1, 2, 3]))
    parts = []
    for i in range(n):
        ps = draw(G.part_spec(PROFILE, pid="P%d" % (i + 1), note_prefix="p%dn" % i))
        # a simple repeat on some scores so that unfolding has something to do
        if len(ps["measures"]) >= 2 and draw(st.integers(0, 2)) == 0:
            ps = dict(ps, repeats=[[ps["measures"][0][0], ps["measures"][0][1]]])
        # directions and marks, with and without an end (an element may be added with a start only)
        onsets = sorted(set(x["t"] for x in ps["notes"])) or [0]
        marks = []
        for _ in range(draw(st.integers(0, 4))):
            kind = draw(st.sampled_from(MARKS))
            t = draw(st.sampled_from(onsets))
            later = [x for x in onsets if x > t] + [ps["end"]]
            end = draw(st.sampled_from(later)) if draw(st.booleans()) else None
            marks.append([kind, t, end, draw(st.sampled_from([None, 1]))])
        ps = dict(ps, c20_marks=marks)
        parts.append(ps)
    maxlen = 10 if tier == "quick" else 22
    names = SCORE_OPS + PERF_OPS + ["iter_new", "iter_new", "iter_next", "iter_next", "iter_next", "iter_next", "piter_new", "piter_new", "piter_next", "piter_next", "piter_next"]
    op = st.tuples(st.sampled_from(names), st.integers(0, 5), st.integers(0, 7))
    return {
        "parts": parts,
        "groups": draw(st.booleans()) and n >= 2,
        "ops": draw(st.lists(op, min_size=4, max_size=maxlen)),
        "two_pparts": draw(st.booleans()),
    }


# ------------------------------------------------------------------ fingerprints
SKIP_PART_ATTRS = {"_number_of_staves", "_quarter_map"}


def _val(v):
    if isinstance(v, S.TimePoint):
        return ("tp", id(v))
    if isinstance(v, (S.TimedObject, S.Part, S.PartGroup)):
        return ("obj", id(v))
    if isinstance(v, np.ndarray):
        return ("nd", v.dtype.str, v.shape, v.tobytes())
    if isinstance(v, dict):
        return ("dict", tuple(sorted((repr(k), _val(x)) for k, x in v.items())))
    if isinstance(v, (list, tuple)):
        return (type(v).__name__, tuple(_val(x) for x in v))
    if isinstance(v, (set, frozenset)):
        return ("set", tuple(sorted(repr(_val(x)) for x in v)))
    if isinstance(v, (int, float, str, bool, type(None), Fraction)):
        return v
    if hasattr(v, "__dict__"):
        return (type(v).__name__, tuple(sorted((k, repr(_val(x))) for k, x in vars(v).items())))
    return repr(v)


def part_fingerprint(p):
    fp = [("attrs", tuple(sorted((k, repr(_val(v))) for k, v in vars(p).items() if k not in SKIP_PART_ATTRS and k != "_points")))]
    pts = []
    for tp in p._points:
        st_ = tuple(sorted((cls.__name__, tuple(id(o) for o in oo)) for cls, oo in tp.starting_objects.items() if len(oo)))
        en_ = tuple(sorted((cls.__name__, tuple(id(o) for o in oo)) for cls, oo in tp.ending_objects.items() if len(oo)))
        pts.append((id(tp), tp.t, tp.quarter, id(tp.prev) if tp.prev is not None else None, id(tp.next) if tp.next is not None else None, st_, en_))
        for oo in list(tp.starting_objects.values()) + list(tp.ending_objects.values()):
            for o in oo:
                fp.append((id(o), type(o).__name__, tuple(sorted((k, repr(_val(v))) for k, v in vars(o).items()))))
    fp.append(("points", tuple(pts)))
    return fp


def score_fingerprint(score):
    fp = [("score-attrs", tuple(sorted((k, repr(_val(v))) for k, v in vars(score).items() if k not in ("parts", "part_structure", "iter_idx"))))]
    fp.append(("parts", tuple(id(p) for p in score.parts)))

    def tree(nodes):
        return tuple((id(x), tree(x.children)) if isinstance(x, S.PartGroup) else id(x) for x in nodes)

    fp.append(("structure", tree(score.part_structure)))
    for p in score.parts:
        fp.append(("part", id(p), part_fingerprint(p)))
    return fp


def perf_fingerprint(perf):
    fp = [("pparts", tuple(id(pp) for pp in perf.performedparts))]
    for pp in perf.performedparts:
        fp.append((
            id(pp), pp.id, pp.part_name, pp.ppq, pp.mpq, pp.sustain_pedal_threshold,
            tuple((id(n), tuple(sorted((k, repr(v)) for k, v in dict(n.pnote_dict if hasattr(n, "pnote_dict") else n).items()))) for n in pp.notes),
            tuple(tuple(sorted((k, repr(v)) for k, v in c.items())) for c in pp.controls),
            tuple(tuple(sorted((k, repr(v)) for k, v in c.items())) for c in pp.programs),
        ))
    return fp


def diff_fp(a, b):
    """First difference between two fingerprints, for the report."""
    if len(a) != len(b):
        return "fingerprint length %d -> %d (objects added or removed)" % (len(a), len(b))
    for x, y in zip(a, b):
        if x != y:
            sx, sy = repr(x), repr(y)
            i = next((k for k in range(min(len(sx), len(sy))) if sx[k] != sy[k]), 0)
            return "...%s  ->  ...%s" % (sx[max(0, i - 80): i + 60], sy[max(0, i - 80): i + 60])
    return "?"


def semantic(score_or_part):
    parts = score_or_part.parts if isinstance(score_or_part, S.Score) else [score_or_part]
    out = []
    for p in parts:
        out.append((
            p.id,
            tuple((int(a), int(b)) for a, b in p.quarter_durations()),
            tuple(sorted(((type(o).__name__, o.start.t if o.start else None, o.end.t if o.end else None, getattr(o, "id", None), getattr(o, "step", None), getattr(o, "alter", None), getattr(o, "octave", None), getattr(o, "voice", None), getattr(o, "staff", None)) for o in p.iter_all(S.TimedObject, include_subclasses=True) if not isinstance(o, S.Segment)), key=repr) if True else ()),
        ))
    return repr(out)


def _res_equal(a, b):
    if isinstance(a, np.ndarray) and isinstance(b, np.ndarray):
        return a.dtype == b.dtype and a.shape == b.shape and a.tobytes() == b.tobytes()
    if isinstance(a, (list, tuple)) and isinstance(b, (list, tuple)):
        return len(a) == len(b) and all(_res_equal(x, y) for x, y in zip(a, b))
    return a == b


# ------------------------------------------------------------------ building the performance
def build_perf(parts_spec, score, two):
    ps = parts_spec[0]
    ref = G.PartRef(ps)
    notes = []
    alignment = []
    k = 0
    for (t, dur, pitch, hid, ids) in ref.sounding_notes():
        on = float(ref.quarter(t)) * 0.5 + 0.01 * (k % 3)
        off = on + max(0.05, float(ref.quarter(t + dur) - ref.quarter(t)) * 0.45)
        if k % 5 == 4:
            alignment.append({"label": "deletion", "score_id": hid})
        else:
            notes.append(dict(id="pn%d" % k, midi_pitch=pitch, note_on=on, note_off=off, velocity=40 + (k * 7) % 60, track=0, channel=0))
            alignment.append({"label": "match", "score_id": hid, "performance_id": "pn%d" % k})
        k += 1
    notes.append(dict(id="pnx", midi_pitch=50, note_on=0.3, note_off=0.4, velocity=50, track=0, channel=0))
    alignment.append({"label": "insertion", "performance_id": "pnx"})
    controls = [dict(number=64, time=0.2, value=100, track=0, channel=0), dict(number=64, time=0.9, value=0, track=0, channel=0)]
    pps = [P.PerformedPart(notes=notes, controls=controls, id="PP1", part_name="perf")]
    if two:
        pps.append(P.PerformedPart(notes=[dict(id="q0", midi_pitch=60, note_on=0.0, note_off=0.5, velocity=64, track=0, channel=1)], id="PP2"))
    return P.Performance(performedparts=pps, id="perf"), alignment


def build_loose():
    """Performed parts that do not belong to a Performance, on tracks that are not 0..k-1."""
    a = P.PerformedPart(notes=[dict(id="l0", midi_pitch=62, note_on=0.0, note_off=0.4, velocity=70, track=2, channel=0),
                               dict(id="l1", midi_pitch=65, note_on=0.5, note_off=0.9, velocity=71, track=2, channel=0)],
                        controls=[dict(number=64, time=0.1, value=90, track=2, channel=0)], id="L1")
    b = P.PerformedPart(notes=[dict(id="m0", midi_pitch=50, note_on=0.2, note_off=0.7, velocity=60, track=0, channel=1)], id="L2")
    c = P.PerformedPart(notes=[dict(id="k0", midi_pitch=40, note_on=0.0, note_off=1.0, velocity=50, track=0, channel=2)],
                        programs=[dict(program=5, time=0.0, track=0, channel=2)], id="L3")
    return [a, b, c]


class _Loose(object):
    """Presents the loose parts to perf_fingerprint."""

    def __init__(self, pps):
        self.performedparts = pps


# ------------------------------------------------------------------ the operations
def _protocol_consistent(r):
    """len / indexing / iteration / .parts of a Score agree (True for anything that is not a Score)."""
    if not isinstance(r, S.Score):
        return True
    n = call(len, r)
    by_index = [id(call(lambda i=i: r[i])) for i in range(n)]
    by_iter = [id(x) for x in call(lambda: list(r))]
    return by_index == by_iter == [id(x) for x in r.parts]


def run_op(name, a, b, score, perf, alignment, tmp, loose=None):
    """Returns (result key, comparable result)."""
    if name == "loose_midi":
        # a bare PerformedPart / a list of PerformedParts as argument (not wrapped in a Performance)
        arg = [loose[0], [loose[0]], [loose[1], loose[2]], list(loose), loose[2]][a % 5]
        path = os.path.join(tmp, "l.mid")
        kw = dict(ppq=[96, 480][b % 2], merge_tracks_save=bool(b & 2))
        call(save_performance_midi, arg, path, **kw)
        return ("loose_midi", a % 5, tuple(sorted(kw.items()))), open(path, "rb").read()
    if name == "loose_note_array":
        return ("loose_note_array", a % 3), call(loose[a % 3].note_array)
    part = score.parts[a % len(score.parts)]
    if name in ("pianoroll", "spelling", "voices", "key") and not part.notes:
        # these raise "Note array is empty" / are undefined for a part without notes (documented)
        return (name, "skipped-empty-part", id(part)), None
    if name == "musicxml":
        return ("musicxml",), call(save_musicxml, score)
    if name == "score_midi":
        if not any(p.notes for p in score.parts):
            return ("score_midi", "skipped-score-without-notes"), None
        mode = a % 6
        anac = ["shift", "pad_bar", "time_sig_change"][b % 3]
        path = os.path.join(tmp, "s.mid")
        call(save_score_midi, score, path, part_voice_assign_mode=mode, anacrusis_behavior=anac)
        return ("score_midi", mode, anac), open(path, "rb").read()
    if name == "note_array":
        kw = dict(include_pitch_spelling=bool(b & 1), include_key_signature=bool(b & 2), include_time_signature=bool(b & 4), include_staff=bool(a & 1), include_grace_notes=bool(a & 2))
        return ("note_array", tuple(sorted(kw.items()))), call(score.note_array, **kw)
    if name == "part_note_array":
        kw = dict(include_metrical_position=bool(b & 1), include_pitch_spelling=bool(b & 2), include_divs_per_quarter=bool(b & 4))
        return ("part_note_array", id(part), tuple(sorted(kw.items()))), call(part.note_array, **kw)
    if name == "rest_array":
        kw = dict(include_time_signature=bool(b & 1), collapse=bool(b & 2))
        return ("rest_array", id(part), tuple(sorted(kw.items()))), call(part.rest_array, **kw)
    if name == "pianoroll":
        kw = dict(time_div=[1, 2, 4, 8][b % 4], onset_only=bool(a & 1), return_idxs=bool(a & 2))
        r = call(compute_pianoroll, part, **kw)
        if isinstance(r, tuple):
            return ("pianoroll", id(part), tuple(sorted(kw.items()))), [r[0].toarray(), r[1]]
        return ("pianoroll", id(part), tuple(sorted(kw.items()))), r.toarray()
    if name == "maps":
        ts = np.arange(0, max(1, part.last_point.t), max(1, part.last_point.t // 7 or 1))
        res = [np.asarray(call(m, ts)) for m in (part.beat_map, part.quarter_map, part.time_signature_map, part.key_signature_map, part.measure_map, part.measure_number_map, part.quarter_duration_map)]
        res.append(np.asarray(call(part.inv_beat_map, res[0])))
        res.append(np.asarray(call(part.clef_map, ts)))
        if len(list(part.iter_all(S.Measure))) >= 2:
            res.append(np.asarray(call(part.metrical_position_map, ts)))
        return ("maps", id(part)), res
    if name == "pretty":
        return ("pretty", id(part)), (call(part.pretty), call(score.parts[0].pretty))
    if name == "unfold_max":
        r = call(S.unfold_part_maximal, score if b & 1 else part, update_ids=bool(a & 1))
        return ("unfold_max", (b & 1) or id(part), bool(a & 1)), (semantic(r), _protocol_consistent(r))
    if name == "unfold_min":
        r = call(S.unfold_part_minimal, score if b & 1 else part)
        return ("unfold_min", (b & 1) or id(part)), (semantic(r), _protocol_consistent(r))
    if name == "setitem_on_new_score":
        # assignment by index on a second Score over the same parts (the argument itself is not assigned to)
        sc2 = call(S.Score, list(score.parts))
        newp = S.Part("NEW", quarter_duration=1)
        call(sc2.__setitem__, a % len(sc2.parts), newp)
        return ("setitem_on_new_score", a % len(sc2.parts)), (None, _protocol_consistent(sc2) and call(lambda: sc2[a % len(sc2.parts)]) is newp)
    if name == "iter_unfolded":
        r = call(lambda: list(S.iter_unfolded_parts(part, update_ids=bool(a & 1))))
        return ("iter_unfolded", id(part), bool(a & 1)), [semantic(x) for x in r]
    if name == "spelling":
        return ("spelling", id(part)), call(estimate_spelling, part)
    if name == "voices":
        return ("voices", id(part), bool(b & 1)), call(estimate_voices, part, monophonic_voices=bool(b & 1))
    if name == "key":
        return ("key", id(part)), call(estimate_key, part)
    if name == "transpose":
        iv = [S.Interval(2, "M"), S.Interval(3, "m", "down"), S.Interval(5, "P"), S.Interval(1, "A")][b % 4]
        r = call(transpose, score if a & 1 else part, iv)
        return ("transpose", (a & 1) or id(part), b % 4), semantic(r)
    if name == "len_index":
        n = call(len, score)
        got = [call(lambda i=i: score[i]) for i in range(n)]
        return ("len_index",), (n, tuple(id(p) for p in got), tuple(id(p) for p in score.parts))
    if name in ("nested_iter_score", "nested_iter_perf"):
        cont = score if name == "nested_iter_score" else perf
        items = score.parts if name == "nested_iter_score" else perf.performedparts
        pairs = call(lambda: [(id(x), id(y)) for x in cont for y in cont])
        triple = call(lambda: [id(x) for x in cont for _ in cont for _ in cont])
        return (name,), (pairs == [(id(x), id(y)) for x in items for y in items], len(triple) == len(items) ** 3, call(len, cont) == len(list(cont)))
    if name == "save_match":
        if not score.parts[0].notes:
            return ("save_match", "skipped-empty-part"), None  # an alignment needs score notes
        path = os.path.join(tmp, "a.match")
        call(save_match, alignment, perf.performedparts[0], score.parts[0], path, assume_unfolded=bool(b & 1))
        return ("save_match", bool(b & 1)), open(path).read()
    if name == "perf_midi":
        path = os.path.join(tmp, "p.mid")
        kw = dict(ppq=[96, 480][a % 2], merge_tracks_save=bool(b & 1))
        call(save_performance_midi, perf, path, **kw)
        return ("perf_midi", tuple(sorted(kw.items()))), open(path, "rb").read()
    if name == "perf_note_array":
        return ("perf_note_array",), call(perf.note_array)
    if name == "perf_len_index":
        n = call(len, perf)
        return ("perf_len_index",), (n, tuple(id(call(lambda i=i: perf[i])) for i in range(n)), tuple(id(p) for p in perf.performedparts))
    raise ValueError(name)


def oracle(spec):
    o = Outcome()
    groups = [{"symbol": "brace", "name": "G", "number": 1, "children": list(range(len(spec["parts"])))}] if spec["groups"] else None
    score, parts, _ = build_score({"parts": spec["parts"], "groups": groups})
    for ps, p in zip(spec["parts"], parts):
        for (a, b) in ps.get("repeats", []):
            p.add(S.Repeat(), a, b)
        add_marks(p, ps.get("c20_marks", []))
    perf, alignment = build_perf(spec["parts"], score, spec["two_pparts"])
    loose = build_loose()
    fp_s = score_fingerprint(score)
    fp_p = perf_fingerprint(perf)
    fp_l = perf_fingerprint(_Loose(loose))
    fp_al = repr(alignment)
    results = {}
    iters, piters = [], []  # [iterator, expected remaining ids]
    kinds = set()
    repeated = False
    with tempfile.TemporaryDirectory() as tmp:
        for step, (name, a, b) in enumerate(spec["ops"]):
            where = "step %d %s" % (step, name)
            try:
                if name == "iter_new":
                    iters.append([call(iter, score), [id(p) for p in score.parts]])
                elif name == "piter_new":
                    piters.append([call(iter, perf), [id(p) for p in perf.performedparts]])
                elif name in ("iter_next", "piter_next"):
                    pool = iters if name == "iter_next" else piters
                    if not pool:
                        continue
                    rec = pool[a % len(pool)]
                    try:
                        got = id(call(next, rec[0]))
                    except SutRaised as e:
                        if "StopIteration" in e.kind:
                            got = None
                        else:
                            raise
                    exp = rec[1].pop(0) if rec[1] else None
                    if got != exp:
                        o.add("interleaved-iteration-wrong-element", where=where, live_iterators=len(pool), expected_index=None if exp is None else "part", got_none=got is None)
                        break
                    if exp is None:
                        pool.remove(rec)
                else:
                    key, res = run_op(name, a, b, score, perf, alignment, tmp, loose)
                    kinds.add(name)
                    if name in ("unfold_max", "unfold_min", "setitem_on_new_score") and not res[1]:
                        o.add("len-indexing-iteration-disagree-after:" + name, where=where)
                        break
                    if name.startswith("nested_iter") and res != (True, True, True):
                        o.add("nested-iteration-does-not-visit-every-pair", where=where, checks=list(res))
                        break
                    if key in results:
                        repeated = True
                        if not _res_equal(results[key], res):
                            o.add("repeated-call-differs:" + name, where=where)
                            break
                    else:
                        results[key] = res
            except SutRaised as e:
                o.add(e.kind, text=e.text, where=where)
                break
            now = score_fingerprint(score)
            if now != fp_s:
                o.add("score-modified-by:" + name, where=where, first_difference=diff_fp(fp_s, now)[:400])
                break
            nowp = perf_fingerprint(perf)
            if nowp != fp_p:
                o.add("performance-modified-by:" + name, where=where, first_difference=diff_fp(fp_p, nowp)[:400])
                break
            nowl = perf_fingerprint(_Loose(loose))
            if nowl != fp_l:
                o.add("performed-part-argument-modified-by:" + name, where=where, first_difference=diff_fp(fp_l, nowl)[:400])
                break
            if repr(alignment) != fp_al:
                o.add("alignment-modified-by:" + name, where=where)
                break
    exporters = kinds & {"musicxml", "score_midi", "save_match", "perf_midi", "loose_midi"}
    live2 = sum(1 for x in spec["ops"] if x[0] == "iter_new") >= 2 or sum(1 for x in spec["ops"] if x[0] == "piter_new") >= 2
    o.nontrivial = (len(exporters) >= 2 and repeated) or live2
    o.cls("two-exporters-and-repeat", len(exporters) >= 2 and repeated)
    o.cls("two-live-iterators", live2)
    o.cls("repeated-call", repeated)
    o.cls("open-ended-mark", any(m[2] is None and m[0] not in ("tempo", "fermata") for ps in spec["parts"] for m in ps.get("c20_marks", [])))
    o.cls("open-ended-pedal-and-musicxml", "musicxml" in kinds and any(m[2] is None and m[0].startswith("pedal") for ps in spec["parts"] for m in ps.get("c20_marks", [])))
    for k in kinds:
        o.cls("op:" + k)
    return o


def known_segments(spec, d):
    """Path computation registers Segment objects in the part it is given (C09 finding)."""
    return d.kind.startswith("score-modified-by:unfold") or d.kind == "score-modified-by:iter_unfolded" or d.kind == "score-modified-by:save_match"


SUBCHECKS = [
    SubCheck(
        "readonly_histories",
        oracle,
        strategy=lambda tier: history(tier),
        budget={"quick": 200, "thorough": 1500},
        rule="generated score (1-3 parts, optional group, optional repeat) + aligned performance; generated histories of 2-10 (thorough 22) read-only operations incl. iterator creation/steps; identity fingerprint compared after every step, repeated calls compared; non-trivial = >=2 different exporters and a repeated call, or >=2 live iterators",
        known={"segments-left-in-argument": known_segments},
        floors={"two-live-iterators": 0.01, "repeated-call": 0.05},
        time_budget={"quick": 120.0, "thorough": 2400.0},
    ),
]
