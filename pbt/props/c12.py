"""C12 - pitch, key, duration and time-unit conversions are mutually consistent.

Finite domains are enumerated completely (exhaustive); tick/second conversion and
frequency conversion over floats are sampled with Hypothesis.
The reference side is plain integer / Fraction arithmetic written here; none of
partitura's tables are used to compute expected values.
"""

import itertools
import math
import warnings
from fractions import Fraction

import numpy as np
from hypothesis import strategies as st

from pbt.core import Disc, Outcome, SubCheck, call, SutRaised

PROPERTY = "C12"
ENGINES = ["exhaustive enumeration", "hypothesis"]
ASSUMPTIONS = [
    "expected values come from twelve-tone / circle-of-fifths / Fraction arithmetic written in the check",
    "exact .5 tick ties accept either neighbouring integer (numpy rounds half to even)",
]

import partitura.utils.music as M
import partitura.utils.globals as G
import partitura.score as S

BASE = {"C": 0, "D": 2, "E": 4, "F": 5, "G": 7, "A": 9, "B": 11}
STEPS = "CDEFGAB"
FIFTHS_LINE = "FCGDAEB"


def _acc(n):
    return "#" * n if n >= 0 else "b" * (-n)


def ref_key_name(fifths, minor):
    idx = fifths + (4 if minor else 1)
    return FIFTHS_LINE[idx % 7] + _acc(idx // 7) + ("m" if minor else "")


# ---------------------------------------------------------------- spelling -> midi
def enum_spelling(tier):
    out = []
    for step in STEPS:
        for alter in [None, -3, -2, -1, 0, 1, 2, 3]:
            for octave in range(-1, 10):
                for lower in (False, True):
                    out.append({"step": step.lower() if lower else step, "alter": alter, "octave": octave})
                    # the same spelling as it comes out of a structured note array (numpy str / integer scalars)
                    out.append({"step": step.lower() if lower else step, "alter": alter, "octave": octave, "form": "np"})
    return out


def _acc_value(sign):
    """Semitones of an accidental string written with # b x, or None when other characters occur."""
    if not isinstance(sign, str) or any(c not in "#bx" for c in sign):
        return None
    return sum({"#": 1, "b": -1, "x": 2}[c] for c in sign)


def oracle_spelling(spec):
    o = Outcome(nontrivial=spec["alter"] not in (None, 0))
    step, alter, octave = spec["step"], spec["alter"], spec["octave"]
    exp = 12 * (octave + 1) + BASE[step.upper()] + (alter or 0)
    form = spec.get("form", "py")
    o.cls("form:" + form)
    if form == "np":
        a_step, a_alter, a_octave = np.str_(step), (None if alter is None else np.int64(alter)), np.int32(octave)
    else:
        a_step, a_alter, a_octave = step, alter, octave
    got = call(M.pitch_spelling_to_midi_pitch, a_step, a_alter, a_octave)
    if got != exp:
        o.add("spelling-to-midi-wrong", got=int(got), expected=exp)
    # Note documents that a lower case step is converted to upper case
    o.cls("note-lower-case-step", step.islower())
    n = call(S.Note, step=a_step, octave=a_octave, alter=a_alter)
    if n.step != step.upper():
        o.add("note-step-not-upper-case", got=str(n.step))
    if n.midi_pitch != exp:
        o.add("note-midi-pitch-wrong", got=int(n.midi_pitch), expected=exp)
    if alter is None:
        # alter defaults to None (unaltered)
        o.cls("note-default-alter")
        n2 = call(S.Note, a_step, a_octave)
        if n2.midi_pitch != exp or n2.alter is not None:
            o.add("note-default-alter-wrong", got=int(n2.midi_pitch), expected=exp)
    # the accidental sign of the note: its characters add up to the alteration, and step + sign + octave
    # (the text Note.__str__ prints) is a note name that reads back as the same spelling
    sign = call(lambda: n.alter_sign)
    if _acc_value(sign) != (alter or 0):
        o.add("alter-sign-wrong", alter=alter, got=repr(sign))
    elif octave >= 0:
        o.cls("alter-sign-read-back")
        back = call(M.note_name_to_pitch_spelling, "%s%s%d" % (n.step, sign, octave))
        if tuple(back) != (step.upper(), alter or 0, octave):
            o.add("alter-sign-name-not-read-back", alter=alter, sign=sign, back=list(back))
    # the MIDI pitch of a Note follows its spelling: the library respells notes in place (utils.music.transpose assigns
    # step, alter and octave of existing notes), so a value read before must not survive a change of any one field
    o.cls("note-respelled-in-place")
    cur = {"step": step.upper(), "alter": alter, "octave": octave}
    si = STEPS.index(step.upper())
    for field, value in (("alter", (alter or 0) + 1 if (alter or 0) < 3 else (alter or 0) - 1), ("octave", octave + 1 if octave < 9 else octave - 1),
                         ("alter", None), ("step", STEPS[(si + 3) % 7]), ("alter", -1), ("alter", 1), ("octave", octave)):
        setattr(n, field, value)
        cur[field] = value
        exp2 = 12 * (cur["octave"] + 1) + BASE[cur["step"]] + (cur["alter"] or 0)
        got2 = call(lambda: n.midi_pitch)
        if got2 != exp2:
            o.add("note-midi-pitch-stale-after-respelling", changed=field, spelling=[cur["step"], cur["alter"], cur["octave"]], got=int(got2), expected=exp2)
            break
    if step.isupper() and alter is not None:
        pc = call(M.step2pc, a_step, a_alter)
        if pc != exp % 12:
            o.add("step2pc-wrong", got=int(pc), expected=exp % 12)
    return o


# ---------------------------------------------------------------- ensure_pitch_spelling_format
# accidental spellings of the match file formats (n natural, s/# sharp, f/b flat, x double sharp, - none):
# the value is the sum of the signs; this list is the documented table, the values are computed here
SIGN_STRINGS = ["n", "ns", "nf", "#", "s", "ss", "x", "##", "###", "b", "f", "bb", "ff", "bbb", "-"]
BAD_SIGN_STRINGS = ["q", "N", "natural", " ", "#b", "sss", "fff", "xx", "sf", "--"]
SIGN_UNIT = {"n": 0, "s": 1, "#": 1, "f": -1, "b": -1, "x": 2}
FORMAT_STEPS = list(STEPS) + list(STEPS.lower()) + ["r", "R", "H", "h", "X", ""]
# (kind, value): how the alteration is handed over
FORMAT_ALTERS = (
    [["int", a] for a in range(-3, 4)]
    + [["npint", a] for a in range(-3, 4)]
    + [["none", None]]
    + [["str", t] for t in SIGN_STRINGS + BAD_SIGN_STRINGS]
)
FORMAT_OCTAVES = [["int", -1], ["int", 4], ["int", 9], ["npint", 5], ["str", "0"], ["str", "4"], ["str", "10"], ["str", "-"], ["none", None], ["str", "x"]]


def enum_format(tier):
    return [
        {"fstep": s, "falter": a, "foctave": oc}
        for s in FORMAT_STEPS
        for a in FORMAT_ALTERS
        for oc in FORMAT_OCTAVES
    ]


def _typed(kind, value):
    return np.int64(value) if kind == "npint" else value


def oracle_format(spec):
    step = spec["fstep"]
    (ak, av), (ok, ov) = spec["falter"], spec["foctave"]
    o = Outcome(nontrivial=ak == "str" or ok == "str")
    o.cls("alter:" + ak)
    o.cls("octave:" + ok)
    o.cls("rest-step", step in ("r", "R"))
    step_ok = step.lower() in ("c", "d", "e", "f", "g", "a", "b", "r") and step != ""
    alter_ok, octave_ok = True, True
    may_sum = None
    if ak == "str":
        if av in SIGN_STRINGS:
            exp_alter = None if av == "-" else sum(SIGN_UNIT[c] for c in av)
        else:
            alter_ok = False
            exp_alter = None
            if av and all(c in SIGN_UNIT for c in av):
                may_sum = sum(SIGN_UNIT[c] for c in av)
    else:
        exp_alter = av
    if ok == "str":
        if ov == "-":
            exp_octave = None
        elif ov.isdigit():
            exp_octave = int(ov)
        else:
            octave_ok = False
            exp_octave = None
    else:
        exp_octave = ov
    valid = step_ok and alter_ok and octave_ok
    o.cls("valid-format-input", valid)
    o.cls("invalid-step", not step_ok)
    o.cls("invalid-alter-string", not alter_ok)
    try:
        got = M.ensure_pitch_spelling_format(step, _typed(ak, av), _typed(ok, ov))
        raised = None
    except ValueError as e:
        raised = e
    if valid:
        if raised is not None:
            o.add("spelling-format-valid-rejected", spec=spec, exc=repr(raised)[:200])
            return o
        g_step, g_alter, g_octave = got
        if g_step != step.upper():
            o.add("spelling-format-step-wrong", spec=spec, got=repr(g_step))
        if g_alter != exp_alter or isinstance(g_alter, bool) or not (g_alter is None or isinstance(g_alter, (int, np.integer))):
            o.add("spelling-format-alter-wrong", alter=av, got=repr(g_alter), expected=exp_alter)
        if g_octave != exp_octave or not (g_octave is None or isinstance(g_octave, (int, np.integer))):
            o.add("spelling-format-octave-wrong", octave=ov, got=repr(g_octave), expected=exp_octave)
        if step_ok and step.lower() != "r" and exp_alter is not None and exp_octave is not None:
            # the normalised spelling sounds what the signs say
            mp = call(M.pitch_spelling_to_midi_pitch, g_step, g_alter, g_octave)
            if mp != 12 * (exp_octave + 1) + BASE[step.upper()] + exp_alter:
                o.add("spelling-format-midi-wrong", spec=spec, got=int(mp))
    elif raised is None:
        # an accidental text outside the table may be read by the sum of its signs, never as something else
        if step_ok and octave_ok and may_sum is not None and got[1] == may_sum:
            return o
        o.add("spelling-format-invalid-accepted", spec=spec, got=repr(got))
    return o


# ---------------------------------------------------------------- midi -> spelling -> midi
def enum_midi(tier):
    # Python ints and the integer scalars that come out of note arrays ("pitch" is an i4 column)
    return [{"midi": p} for p in range(128)] + [{"midi": p, "form": f} for p in range(128) for f in ("int32", "int64")]


def oracle_midi(spec):
    p = spec["midi"]
    o = Outcome(nontrivial=p % 12 in (1, 3, 6, 8, 10))
    form = spec.get("form", "py")
    o.cls("form:" + form)
    arg = p if form == "py" else np.dtype(form).type(p)
    step, alter, octave = call(M.midi_pitch_to_pitch_spelling, arg)
    if step not in STEPS or not isinstance(step, str):
        o.add("midi-to-spelling-bad-step", got=step)
        return o
    if alter not in (0, 1, -1, None):
        o.add("midi-to-spelling-bad-alter", got=alter)
    back = 12 * (int(octave) + 1) + BASE[step] + (alter or 0)
    if back != p:
        o.add("midi-spelling-roundtrip", midi=p, got=[step, alter, octave])
    if call(M.pitch_spelling_to_midi_pitch, step, alter, octave) != p:
        o.add("midi-spelling-roundtrip-sut", midi=p)
    return o


# ---------------------------------------------------------------- note names
ACC_STRINGS = {"": 0, "#": 1, "##": 2, "x": 2, "###": 3, "b": -1, "bb": -2, "bbb": -3}
# every other string over the accidental alphabet of the grammar up to three signs, and two longer ones
MIXED = [
    "".join(t) for n in (1, 2, 3) for t in itertools.product("#bx", repeat=n) if "".join(t) not in ACC_STRINGS
] + ["####", "bbbb"]


# strings that contain no <pitch class>(alteration)<octave> anywhere: the parser documents ValueError for them
OUTSIDE_GRAMMAR = (
    [s.lower() + a + "4" for s in STEPS for a in ("", "#", "b")]
    + [s + a for s in STEPS for a in ("", "#", "b", "x", "-1", "#-1", " 4", "n4", "s4", "f4", "-", ".5")]
    + ["", "4", "44", "#4", "b", "H4", "h4", "R4", "r", "S#3", "4#", " ", "#", "x", "-1"]
)


def enum_names(tier):
    out = []
    for step in STEPS:
        for acc in list(ACC_STRINGS) + MIXED:
            for octave in list(range(0, 11)) + [12, 15]:
                out.append({"name": "%s%s%d" % (step, acc, octave), "step": step, "acc": acc, "octave": octave})
    out += [{"outside": t} for t in OUTSIDE_GRAMMAR]
    # formatting a spelling whose alteration is None (unaltered, the default of score.Note)
    out += [{"format_none": [step, octave]} for step in STEPS for octave in (0, 4, 9)]
    return out


def known_note_name_alter_none(spec, d):
    return "format_none" in spec and d.kind.startswith("sut-raised:TypeError@utils/music.py:pitch_spelling_to_note_name")


def oracle_names(spec):
    if "outside" in spec:
        o = Outcome(nontrivial=True, classes=["outside-grammar"])
        for fn in (M.note_name_to_pitch_spelling, M.note_name_to_midi_pitch):
            try:
                got = fn(spec["outside"])
            except ValueError:
                continue
            o.add("note-name-outside-grammar-accepted", name=spec["outside"], fn=fn.__name__, got=repr(got))
        return o
    if "format_none" in spec:
        o = Outcome(nontrivial=True, classes=["format-alter-none"])
        step, octave = spec["format_none"]
        text = call(M.pitch_spelling_to_note_name, step, None, octave)
        if text != "%s%d" % (step, octave):
            o.add("note-name-alter-none-wrong", got=text)
        return o
    acc = spec["acc"]
    o = Outcome(nontrivial=acc != "")
    name = spec["name"]
    if acc in ACC_STRINGS:
        exp = (spec["step"], ACC_STRINGS[acc], spec["octave"])
        got = call(M.note_name_to_pitch_spelling, name)
        if tuple(got) != exp:
            o.add("note-name-parse-wrong", name=name, got=list(got), expected=list(exp))
        mp = call(M.note_name_to_midi_pitch, name)
        if mp != 12 * (exp[2] + 1) + BASE[exp[0]] + exp[1]:
            o.add("note-name-midi-wrong", name=name, got=mp)
        # inverse where one exists: format then parse gives the same spelling
        text = call(M.pitch_spelling_to_note_name, exp[0], exp[1], exp[2])
        back = call(M.note_name_to_pitch_spelling, text)
        if tuple(back) != exp:
            o.add("note-name-format-parse", spelling=list(exp), text=text, back=list(back))
        if acc in ("", "#", "x", "b", "bb", "###", "bbb") and text != name:
            # canonical accidental strings are reproduced
            o.add("note-name-not-canonical", name=name, text=text)
        # a lower case step is written in upper case
        if call(M.pitch_spelling_to_note_name, exp[0].lower(), exp[1], exp[2]) != text:
            o.add("note-name-lower-case-step-differs", spelling=list(exp))
    else:
        o.cls("mixed-accidental-string")
        # not in the table of accidental spellings: must be rejected or summed, never mis-read
        total = sum({"#": 1, "b": -1, "x": 2}[c] for c in acc)
        try:
            got = M.note_name_to_pitch_spelling(name)
        except ValueError:
            return o
        except Exception as e:  # noqa
            o.add("note-name-bad-exception", name=name, exc=type(e).__name__)
            return o
        if tuple(got) != (spec["step"], total, spec["octave"]):
            o.add("note-name-mixed-misread", name=name, got=list(got))
    return o


# ---------------------------------------------------------------- keys
MODES = ["major", "minor", None, "none", 1, -1]
BAD_MODES = ["dorian", "Major", "MINOR", 0, 2, "", "maj"]


def enum_keys(tier):
    out = []
    for f in range(-12, 13):
        for m in range(len(MODES) + len(BAD_MODES)):
            out.append({"fifths": f, "mode_index": m})
            # as read from the ks_fifths / ks_mode columns of a note array (i4), by keyword
            out.append({"fifths": f, "mode_index": m, "form": "np32"})
        # mode omitted: documented default None = major
        out.append({"fifths": f, "mode_index": None})
    for f in range(-7, 8):
        for minor in (False, True):
            out.append({"name": ref_key_name(f, minor), "fifths": f, "minor": minor})
    # names beyond the thirty (the docstring's own example is E#): the parser continues the circle of fifths
    for f in list(range(-14, -7)) + list(range(8, 15)):
        for minor in (False, True):
            out.append({"name": ref_key_name(f, minor), "fifths": f, "minor": minor})
    return out


def oracle_keys(spec):
    if "name" in spec:
        o = Outcome(nontrivial=True, classes=["name->fifths"])
        o.cls("name-beyond-the-thirty", abs(spec["fifths"]) > 7)
        f, mode = call(M.key_name_to_fifths_mode, spec["name"])
        if (f, mode) != (spec["fifths"], "minor" if spec["minor"] else "major"):
            o.add("key-name-parse-wrong", name=spec["name"], got=[f, mode])
        return o
    f = spec["fifths"]
    mi = spec["mode_index"]
    allm = MODES + BAD_MODES
    default_mode = mi is None
    mode = None if default_mode else allm[mi]
    good_mode = default_mode or mi < len(MODES)
    form = spec.get("form", "py")
    o = Outcome(nontrivial=(abs(f) > 7 or not good_mode or mode in ("minor", -1)))
    o.cls("out-of-range-fifths", abs(f) > 7)
    o.cls("unknown-mode", not good_mode)
    o.cls("mode-omitted", default_mode)
    o.cls("form:" + form)
    minor = mode in ("minor", -1)
    if form == "np32":
        a_f = np.int32(f)
        a_mode = np.int32(mode) if isinstance(mode, int) and not isinstance(mode, bool) else mode
        fns = (
            ("fifths_mode_to_key_name", lambda: M.fifths_mode_to_key_name(fifths=a_f, mode=a_mode)),
            ("KeySignature.name", lambda: S.KeySignature(fifths=a_f, mode=a_mode).name),
        )
    elif default_mode:
        fns = (("fifths_mode_to_key_name", lambda: M.fifths_mode_to_key_name(f)),)
    else:
        fns = (
            ("fifths_mode_to_key_name", lambda: M.fifths_mode_to_key_name(f, mode)),
            ("KeySignature.name", lambda: S.KeySignature(f, mode).name),
        )
    for label, fn in fns:
        try:
            name = fn()
            raised = None
        except Exception as e:  # rejection is the documented behaviour outside the domain
            name = None
            raised = e
        if abs(f) <= 7 and good_mode:
            if raised is not None:
                o.add("key-valid-rejected", fn=label, fifths=f, mode=mode, exc=repr(raised)[:200])
                continue
            exp = ref_key_name(f, minor)
            if name != exp:
                o.add("key-name-wrong", fn=label, fifths=f, mode=mode, got=name, expected=exp)
                continue
            back = call(M.key_name_to_fifths_mode, name)
            if tuple(back) != (f, "minor" if minor else "major"):
                o.add("key-name-roundtrip", fifths=f, mode=mode, name=name, back=list(back))
        else:
            if raised is None:
                kind = "key-out-of-range-accepted" if abs(f) > 7 else "key-unknown-mode-accepted"
                o.add(kind, fn=label, fifths=f, mode=repr(mode), got=name)
    return o


def known_fifths_wrap(spec, d):
    return d.kind == "key-out-of-range-accepted" and spec.get("fifths", 0) < -7


# ---------------------------------------------------------------- mode / clef codes
def enum_codes(tier):
    out = [{"mode": i} for i in range(len(MODES) + len(BAD_MODES))]
    out += [{"clef": s} for s in ["G", "F", "C", "percussion", "TAB", "jianpu", "none"]]
    out += [{"clef_int": i} for i in range(0, 7)]
    # codes as they come out of Part.clef_map / note feature arrays (numpy integers), modes from i4 columns
    out += [{"clef_int": i, "form": "np"} for i in range(0, 7)]
    out += [{"mode": i, "form": "np"} for i, m in enumerate(MODES + BAD_MODES) if isinstance(m, int)]
    return out


def oracle_codes(spec):
    o = Outcome(nontrivial=True)
    if "mode" in spec:
        allm = MODES + BAD_MODES
        mode = allm[spec["mode"]]
        if spec.get("form") == "np":
            o.cls("mode:numpy-int")
            mode = np.int32(mode)
        good = spec["mode"] < len(MODES)
        minor = mode in ("minor", -1)
        for fn, exp in ((M.key_mode_to_int, -1 if minor else 1), (M.key_int_to_mode, "minor" if minor else "major")):
            try:
                got = fn(mode)
                raised = False
            except ValueError:
                raised = True
            if good and (raised or got != exp):
                o.add("mode-code-wrong", fn=fn.__name__, mode=repr(mode), got=None if raised else got)
            if not good and not raised:
                o.add("mode-code-unknown-accepted", fn=fn.__name__, mode=repr(mode), got=got)
        if good:
            # decode(encode(x)) == canonical x, encode(decode(code)) == code
            if call(M.key_int_to_mode, call(M.key_mode_to_int, mode)) != ("minor" if minor else "major"):
                o.add("mode-code-roundtrip", mode=repr(mode))
            if call(M.key_mode_to_int, call(M.key_int_to_mode, mode)) != (-1 if minor else 1):
                o.add("mode-code-roundtrip", mode=repr(mode))
    elif "clef" in spec:
        code = call(M.clef_sign_to_int, spec["clef"])
        if not isinstance(code, (int, np.integer)):
            o.add("clef-code-not-int", clef=spec["clef"], got=repr(code))
        elif call(M.clef_int_to_sign, code) != spec["clef"]:
            o.add("clef-code-roundtrip", clef=spec["clef"], code=code)
    else:
        code = spec["clef_int"]
        if spec.get("form") == "np":
            o.cls("clef-code:numpy-int")
            code = np.int64(code)
        sign = call(M.clef_int_to_sign, code)
        if sign not in ["G", "F", "C", "percussion", "TAB", "jianpu", "none"]:
            o.add("clef-code-decodes-to-undocumented-sign", code=spec["clef_int"], sign=repr(sign))
        if call(M.clef_sign_to_int, sign) != spec["clef_int"]:
            o.add("clef-code-roundtrip", code=spec["clef_int"], sign=sign)
    return o


# ---------------------------------------------------------------- symbolic durations, tempo units
TYPES = {
    "long": Fraction(16),
    "breve": Fraction(8),
    "whole": Fraction(4),
    "half": Fraction(2),
    "quarter": Fraction(1),
    "eighth": Fraction(1, 2),
    "16th": Fraction(1, 4),
    "32nd": Fraction(1, 8),
    "64th": Fraction(1, 16),
    "128th": Fraction(1, 32),
    "256th": Fraction(1, 64),
    "h": Fraction(2),
    "q": Fraction(1),
    "e": Fraction(1, 2),
}
RATIOS = [None, (3, 2), (5, 4), (6, 4), (7, 4), (7, 8), (2, 3), (4, 3), (9, 8), (5, 2), (10, 8), (11, 8), (13, 8), (15, 16)]
DIVS = [1, 2, 3, 4, 5, 6, 7, 8, 10, 12, 16, 24, 48, 96, 120, 480, 960]


def dotmul(d):
    return 2 - Fraction(1, 2 ** d)


def enum_durs(tier):
    out = []
    for t in TYPES:
        for dots in range(4):
            for ri in range(len(RATIOS)):
                out.append({"type": t, "dots": dots, "ratio": ri})
    # all symbolic types on both sides of the ratio, and a tuplet without types (both None, the default)
    for at in list(TYPES) + [None]:
        for nt in list(TYPES) if at is not None else [None]:
            for (a, n) in RATIOS[1:]:
                out.append({"tuplet": [a, n, at, nt]})
    for unit in TYPES:
        for dots in range(4):
            for bpm in (1, 40, 60, 90.5, 120, 333):
                out.append({"unit": unit, "udots": dots, "bpm": bpm})
            # unit strings with surrounding blanks (to_quarter_tempo strips them)
            for pad in (1, 2, 3):
                out.append({"unit": unit, "udots": dots, "bpm": 72, "pad": pad})
    # Tempo without a unit (default None = quarters)
    for bpm in (1, 40, 60, 90.5, 120, 333):
        out.append({"tempo_default_unit": bpm})
    return out


def oracle_durs(spec):
    o = Outcome()
    if "tuplet" in spec:
        a, n, at, nt = spec["tuplet"]
        o.nontrivial = at != nt
        o.cls("tuplet-types-differ", at != nt)
        o.cls("tuplet-without-types", at is None)
        if at is None:
            tup = call(S.Tuplet, actual_notes=a, normal_notes=n)
            exp = Fraction(n, a)
        else:
            tup = call(S.Tuplet, actual_notes=a, normal_notes=n, actual_type=at, normal_type=nt)
            exp = Fraction(n, a) * TYPES[nt] / TYPES[at]
        got = call(lambda: tup.duration_multiplier)
        if Fraction(got) != exp:
            o.add("tuplet-multiplier-wrong", spec=spec["tuplet"], got=str(got), expected=str(exp))
        return o
    if "tempo_default_unit" in spec:
        bpm = spec["tempo_default_unit"]
        o.nontrivial = True
        o.cls("tempo-default-unit")
        for tempo in (call(S.Tempo, bpm), call(S.Tempo, bpm, None)):
            mpq = call(lambda: tempo.microseconds_per_quarter)
            e = Fraction(60 * 10 ** 6) / Fraction(bpm)
            if not isinstance(mpq, (int, np.integer)) or abs(Fraction(int(mpq)) - e) > Fraction(1, 2) + Fraction(1, 10 ** 6):
                o.add("tempo-mpq-wrong", unit=None, bpm=bpm, got=repr(mpq), expected=float(e))
        return o
    if "unit" in spec:
        unit = spec["unit"] + "." * spec["udots"]
        pad = spec.get("pad", 0)
        o.cls("unit-with-blanks", pad > 0)
        unit = (" " if pad & 1 else "") + unit + (" " if pad & 2 else "")
        o.nontrivial = spec["udots"] > 0 or spec["unit"] not in ("q", "quarter")
        exp = Fraction(spec["bpm"]) * dotmul(spec["udots"]) * TYPES[spec["unit"]]
        got = call(M.to_quarter_tempo, unit, spec["bpm"])
        if abs(Fraction(got) - exp) > Fraction(1, 10 ** 9) * (1 + exp):
            o.add("tempo-unit-wrong", unit=unit, bpm=spec["bpm"], got=got, expected=float(exp))
        if True:  # every unit string is a unit of score.Tempo as well
            o.cls("tempo-object-long-unit-name", spec["unit"] not in ("q", "h", "e"))
            tempo = call(S.Tempo, spec["bpm"], unit)
            mpq = call(lambda: tempo.microseconds_per_quarter)
            e = Fraction(60 * 10 ** 6) / exp
            if not isinstance(mpq, (int, np.integer)) or abs(Fraction(int(mpq)) - e) > Fraction(1, 2) + Fraction(1, 10 ** 6):
                o.add("tempo-mpq-wrong", unit=unit, bpm=spec["bpm"], got=repr(mpq), expected=float(e))
        if spec["udots"] == 0 and spec["bpm"] == 60:
            tempo = call(S.Tempo, spec["bpm"], None)
            if call(lambda: tempo.microseconds_per_quarter) != 1000000 and spec["unit"] == "q":
                o.add("tempo-mpq-default-unit-wrong")
        return o
    ratio = RATIOS[spec["ratio"]]
    o.nontrivial = spec["dots"] > 0 or ratio is not None
    sd = {"type": spec["type"], "dots": spec["dots"]}
    value = TYPES[spec["type"]] * dotmul(spec["dots"])
    if ratio is not None:
        sd["actual_notes"], sd["normal_notes"] = ratio
        value = value * Fraction(ratio[1], ratio[0])
    for divs in DIVS:
        got = call(M.symbolic_to_numeric_duration, dict(sd), divs)
        exp = value * divs
        if abs(Fraction(got) - exp) > Fraction(1, 10 ** 9) * (1 + exp):
            o.add("symbolic-to-numeric-wrong", sd=sd, divs=divs, got=got, expected=float(exp))
            break
    if spec["dots"] == 0 and ratio is None:
        # without an explicit dots key the value is the undotted one
        got = call(M.symbolic_to_numeric_duration, {"type": spec["type"]}, 4)
        if Fraction(got) != TYPES[spec["type"]] * 4:
            o.add("symbolic-to-numeric-wrong", sd={"type": spec["type"]}, divs=4, got=got)
    text = call(M.format_symbolic_duration, dict(sd))
    exp_text = spec["type"] + "." * spec["dots"] + ("_%d/%d" % ratio if ratio else "")
    if text != exp_text:
        o.add("symbolic-format-wrong", sd=sd, got=text, expected=exp_text)
    return o


# ---------------------------------------------------------------- intervals
MAJ_SEMI = [0, 2, 4, 5, 7, 9, 11]
Q_PERFECT = {"dd": -2, "d": -1, "P": 0, "A": 1, "AA": 2}
Q_MAJOR = {"dd": -3, "d": -2, "m": -1, "M": 0, "A": 1, "AA": 2}
ALL_Q = ["dd", "d", "m", "M", "P", "A", "AA", "X", ""]


def enum_intervals(tier):
    out = []
    for n in range(1, 8):
        for q in ALL_Q:
            for d in ("up", "down", "sideways", None):  # None: direction omitted (default "up")
                out.append({"number": n, "quality": q, "direction": d})
    # compound numbers (the docstring lists "1, 2, ..., 7, ..." and validate reduces them to a class)
    for n in range(8, 16):
        for q in ALL_Q:
            out.append({"number": n, "quality": q, "direction": "up"})
    return out


def oracle_intervals(spec):
    n, q, d = spec["number"], spec["quality"], spec["direction"]
    simple = (n - 1) % 7 + 1
    table = Q_PERFECT if simple in (1, 4, 5) else Q_MAJOR
    valid = q in table and d in ("up", "down", None)
    o = Outcome(nontrivial=valid and q not in ("P", "M"))
    o.cls("valid-interval-class", valid and n <= 7)
    o.cls("direction-omitted", d is None)
    o.cls("compound-number", n > 7)
    try:
        iv = S.Interval(n, q) if d is None else S.Interval(n, q, d)
        raised = False
    except AssertionError:
        raised = True
    if valid and n > 7:
        # a compound interval is not one of the interval classes of the quantifier: its construction is
        # not demanded; if a size is reported it has to be the class size plus the octaves
        if raised:
            o.excluded.append("compound-interval-rejected")
            return o
        try:
            got = iv.semitones
        except KeyError:
            o.excluded.append("compound-interval-has-no-size")
            return o
        exp = 12 * ((n - 1) // 7) + MAJ_SEMI[simple - 1] + table[q]
        if got != exp:
            o.add("interval-semitones-wrong", spec=spec, got=got, expected=exp)
        return o
    if valid:
        if raised:
            o.add("interval-valid-rejected", spec=spec)
            return o
        if d is None and iv.direction != "up":
            o.add("interval-default-direction-wrong", got=repr(iv.direction))
        exp = MAJ_SEMI[n - 1] + table[q]
        got = call(lambda: iv.semitones)
        if got != exp:
            o.add("interval-semitones-wrong", spec=spec, got=got, expected=exp)
        if "%s%d" % (q, n) not in G.INTERVALCLASSES:
            o.add("interval-class-missing-from-table", spec=spec)
    elif not raised:
        o.add("interval-invalid-accepted", spec=spec)
    return o


# ---------------------------------------------------------------- table agreement
def enum_tables(tier):
    return [{"step": s} for s in STEPS] + [{"alt": a} for a in range(-2, 3)] + [{"count": 1}]


def oracle_tables(spec):
    o = Outcome(nontrivial=True)
    if "step" in spec:
        s = spec["step"]
        vals = {
            "MIDI_BASE_CLASS": G.MIDI_BASE_CLASS.get(s.lower()),
            "BASE_PC": G.BASE_PC.get(s),
            "ref": BASE[s],
        }
        if len(set(vals.values())) != 1:
            o.add("base-class-tables-disagree", step=s, values=vals)
        i = STEPS.index(s)
        if G.STEPS.get(s) != i or G.STEPS.get(i) != s:
            o.add("steps-table-wrong", step=s)
        d = [k for k, v in G.DUMMY_PS_BASE_CLASS.items() if v == (s.lower(), 0)]
        if d != [BASE[s]]:
            o.add("dummy-spelling-table-wrong", step=s, got=d)
    elif "alt" in spec:
        a = spec["alt"]
        txt = G.INT_TO_ALT.get(a)
        if txt is None or G.ALT_TO_INT.get(txt) != a:
            o.add("alt-tables-not-inverse", alter=a, text=txt)
    else:
        if len(G.INTERVALCLASSES) != 39 or len(set(G.INTERVALCLASSES)) != 39:
            o.add("interval-class-count", got=len(G.INTERVALCLASSES))
        for pc, (st_, al) in G.DUMMY_PS_BASE_CLASS.items():
            if (BASE[st_.upper()] + al) % 12 != pc:
                o.add("dummy-spelling-table-wrong", pc=pc)
    return o


# ---------------------------------------------------------------- seconds <-> ticks (sampled)
def strat_ticks(tier):
    ppq = st.one_of(st.sampled_from([1, 24, 96, 120, 384, 480, 960, 1000]), st.integers(1, 10000))
    mpq = st.one_of(st.sampled_from([500000, 250000, 1000000, 600000, 333333]), st.integers(1000, 4000000))
    # times: exact tick images, half-tick neighbourhoods and arbitrary floats
    t = st.one_of(
        st.floats(0, 4000, allow_nan=False, allow_infinity=False),
        st.integers(0, 10 ** 6).map(lambda k: k / 1024.0),
        st.integers(0, 10 ** 5).map(float),
        st.floats(-100, 0, allow_nan=False),
    )
    return st.fixed_dictionaries(
        {
            "ppq": ppq,
            "mpq": mpq,
            "times": st.lists(t, min_size=1, max_size=6),
            "tick_k": st.lists(st.integers(0, 10 ** 7), min_size=1, max_size=4),
            "dtype": st.sampled_from(["float64", "float32", "int64", "int32", "pyint", "pyfloat"]),
            # how the arguments are handed over: positionally, by keyword, with the deprecated keyword t=,
            # or with mpq and ppq omitted (documented defaults 500000 and 480)
            "call": st.sampled_from(["positional", "positional", "keyword", "alias_t", "defaults"]),
            # mpq as an int, as the float 60e6/bpm of the MIDI importers (also non-integral), or numpy scalars
            "params": st.sampled_from(["int", "int", "mpq_float", "mpq_bpm", "numpy"]),
            "bpm": st.one_of(st.sampled_from([60, 90, 100, 120, 132]), st.integers(20, 300), st.floats(20, 300, allow_nan=False)),
            # the array argument: one-dimensional, empty, or a two-column (onset, offset) matrix
            "shape": st.sampled_from(["1d", "1d", "empty", "2d"]),
            "tick_i4": st.booleans(),
            "tick_f": st.lists(st.floats(0, 10 ** 6, allow_nan=False), min_size=1, max_size=3),
        }
    )


def _exact_ticks(t, ppq, mpq):
    return Fraction(t) * ppq * 10 ** 6 / Fraction(mpq)


def oracle_ticks(spec):
    ppq, mpq = spec["ppq"], spec["mpq"]
    dt = spec["dtype"]
    how = spec.get("call", "positional")
    params = spec.get("params", "int")
    shape = spec.get("shape", "1d")
    if how == "defaults":
        ppq, mpq = 480, 500000
        a_ppq, a_mpq = ppq, mpq
    elif params == "mpq_float":
        mpq = mpq + 0.25
        a_ppq, a_mpq = ppq, mpq
    elif params == "mpq_bpm":
        mpq = 60 * (10 ** 6 / spec.get("bpm", 120))
        a_ppq, a_mpq = ppq, mpq
    elif params == "numpy":
        a_ppq, a_mpq = np.int64(ppq), np.int64(mpq)
    else:
        a_ppq, a_mpq = ppq, mpq
    o = Outcome(nontrivial=(dt not in ("pyfloat",)) or (ppq, mpq) != (480, 500000))
    o.cls("dtype:" + dt)
    o.cls("call:" + how)
    if how != "defaults":
        o.cls("params:" + params)

    def s2t(x):
        if how == "defaults":
            return call(M.seconds_to_midi_ticks, x)
        if how == "keyword":
            return call(M.seconds_to_midi_ticks, time_in_seconds=x, ppq=a_ppq, mpq=a_mpq)
        if how == "alias_t":
            with warnings.catch_warnings():
                warnings.simplefilter("ignore")
                return call(M.seconds_to_midi_ticks, t=x, mpq=a_mpq, ppq=a_ppq)
        return call(M.seconds_to_midi_ticks, x, a_mpq, a_ppq)

    def t2s(x):
        if how == "defaults":
            return call(M.midi_ticks_to_seconds, x)
        if how in ("keyword", "alias_t"):
            return call(M.midi_ticks_to_seconds, midi_ticks=x, ppq=a_ppq, mpq=a_mpq)
        return call(M.midi_ticks_to_seconds, x, a_mpq, a_ppq)

    times = list(spec["times"])
    if dt in ("int64", "int32", "pyint"):
        times = [int(t) for t in times]
    elif dt == "float32":
        times = [float(np.float32(t)) for t in times]
    # scalar path
    scal = []
    for t in times:
        arg = int(t) if dt in ("pyint",) else (float(t) if dt == "pyfloat" else np.dtype(dt if dt not in ("pyint", "pyfloat") else "float64").type(t))
        got = s2t(arg)
        exact = _exact_ticks(t, ppq, mpq)
        if isinstance(got, bool) or not isinstance(got, (int, np.integer)):
            o.add("ticks-not-integer", t=t, got=repr(got))
            continue
        # float32 input is converted in double precision too (repaired after C14's thorough tier met a
        # rebuilt part whose float32 onset rounded to the neighbouring tick)
        rel = Fraction(1, 10 ** 9)
        tol = Fraction(1, 2) + rel * (1 + abs(exact))
        if abs(Fraction(int(got)) - exact) > tol:
            o.add("ticks-not-nearest", t=t, ppq=ppq, mpq=mpq, got=int(got), exact=float(exact))
        scal.append(int(got))
        back = t2s(got)
        half_tick = Fraction(mpq) / (2 * 10 ** 6 * ppq)
        if abs(Fraction(float(back)) - Fraction(t)) > 2 * half_tick * tol + Fraction(1, 10 ** 9) * (1 + abs(Fraction(t))):
            o.add("ticks-seconds-not-inverse", t=t, ppq=ppq, mpq=mpq, ticks=int(got), back=float(back))
    # array path
    if dt not in ("pyint", "pyfloat"):
        o.cls("array-shape:" + shape)
        if shape == "empty":
            arr = np.array([], dtype=dt)
            flat = []
        elif shape == "2d":
            arr = np.array([times, times[::-1]], dtype=dt).T
            flat = [x for pair in zip(scal, scal[::-1]) for x in pair] if len(scal) == len(times) else None
        else:
            arr = np.array(times, dtype=dt)
            flat = scal if len(scal) == len(times) else None
        got = s2t(arr)
        if not isinstance(got, np.ndarray) or got.shape != arr.shape or not np.issubdtype(got.dtype, np.integer):
            o.add("ticks-array-bad-result", got=repr(got)[:100])
        elif flat is not None and [int(x) for x in got.ravel()] != flat:
            o.add("ticks-array-scalar-disagree", times=times, array=[int(x) for x in got.ravel()], scalar=flat)
    # exact tick images come back unchanged: seconds(k) -> k (stated for integral mpq)
    ks = spec["tick_k"]
    for k in ks:
        sec = t2s(k)
        k2 = s2t(sec)
        if int(k2) != k:
            o.add("tick-roundtrip-not-identity", k=k, ppq=ppq, mpq=mpq, sec=float(sec), back=int(k2))
    karr = np.array(ks, dtype=np.int64)
    sec = t2s(karr)
    if not isinstance(sec, np.ndarray) or sec.shape != karr.shape:
        o.add("seconds-array-bad-result")
    else:
        exp = [float(Fraction(k) * Fraction(mpq) / (10 ** 6 * ppq)) for k in ks]
        if not np.allclose(sec, exp, rtol=1e-12, atol=0):
            o.add("seconds-array-wrong", ks=ks, got=[float(x) for x in sec])
    # ticks as they are stored in the tick columns of a performance note array (i4): scalars and arrays
    if spec.get("tick_i4"):
        o.cls("ticks-int32")
        o.cls("ticks-int32-product-beyond-2^31", any(k * mpq >= 2 ** 31 for k in ks))
        exp = [float(Fraction(k) * Fraction(mpq) / (10 ** 6 * ppq)) for k in ks]
        with warnings.catch_warnings():
            warnings.simplefilter("ignore")
            got = [float(t2s(np.int32(k))) for k in ks]
            gota = t2s(np.array(ks, dtype=np.int32))
        if not np.allclose(got, exp, rtol=1e-12, atol=0):
            o.add("seconds-from-int32-ticks-wrong", how="scalar", ks=ks, mpq=mpq, ppq=ppq, got=got, expected=exp)
        if not isinstance(gota, np.ndarray) or gota.shape != (len(ks),) or not np.allclose(gota, exp, rtol=1e-12, atol=0):
            o.add("seconds-from-int32-ticks-wrong", how="array", ks=ks, mpq=mpq, ppq=ppq, got=repr(gota)[:100], expected=exp)
    # ticks given as floats (scalar and array) and an empty tick array
    fs = spec.get("tick_f", [])
    if fs:
        exp = [float(Fraction(k) * Fraction(mpq) / (10 ** 6 * ppq)) for k in fs]
        got = [float(t2s(k)) for k in fs]
        # (atol: a relative bound cannot be met in the subnormal range, e.g. 5e-324 ticks)
        if not np.allclose(got, exp, rtol=1e-12, atol=1e-300):
            o.add("seconds-from-float-ticks-wrong", ticks=fs, got=got, expected=exp)
        got = t2s(np.array(fs, dtype=float))
        if not isinstance(got, np.ndarray) or got.shape != (len(fs),) or not np.allclose(got, exp, rtol=1e-12, atol=1e-300):
            o.add("seconds-array-wrong", ks=fs, got=repr(got)[:100])
        got = t2s(np.array([], dtype=np.int64))
        if not isinstance(got, np.ndarray) or got.shape != (0,):
            o.add("seconds-array-bad-result", got=repr(got)[:100])
    return o


def known_ticks_int32(spec, d):
    if d.kind != "seconds-from-int32-ticks-wrong":
        return False
    mpq = d["detail"]["mpq"]
    numpy_mpq = spec.get("params") == "numpy" and spec.get("call") != "defaults"  # an int64 mpq widens the product
    return isinstance(mpq, int) and not numpy_mpq and any(k * mpq >= 2 ** 31 for k in d["detail"]["ks"])


# ---------------------------------------------------------------- frequency <-> midi
def enum_freq(tier):
    # a4 None: argument omitted (documented default 440 Hz)
    return [{"p": p, "a4": a} for p in range(128) for a in (440.0, 415.0, 430.54, 442, 466.16, 432, None)]


def known_freq_float32_none(spec, d):
    return d.kind == "frequency-midi-not-inverse" and d["detail"].get("form") == "float32" and d["detail"].get("back") == "None"


def oracle_freq(spec):
    p, a4 = spec["p"], spec["a4"]
    o = Outcome(nontrivial=a4 != 440.0)
    o.cls("a4-omitted", a4 is None)
    if a4 is None:
        a4 = 440.0
        m2f = lambda x: call(M.midi_pitch_to_frequency, x)
        f2m = lambda x: call(M.frequency_to_midi_pitch, x)
    else:
        m2f = lambda x: call(M.midi_pitch_to_frequency, x, a4)
        f2m = lambda x: call(M.frequency_to_midi_pitch, x, a4)
    f = m2f(p)
    exp = a4 * 2.0 ** ((p - 69) / 12.0)
    if not math.isclose(float(f), exp, rel_tol=1e-12):
        o.add("frequency-wrong", p=p, a4=a4, got=float(f), expected=exp)
    back = f2m(f)
    if back is None or isinstance(back, np.ndarray) or int(back) != p:
        o.add("frequency-midi-not-inverse", p=p, a4=a4, back=repr(back))
    # the frequency as the other scalar types a caller holds: Python float, numpy double and single
    # (an element of a float32 f0 track), Python int where the frequency is integral
    forms = [("pyfloat", float(f)), ("float64", np.float64(f)), ("float32", np.float32(f))]
    if float(f) == int(f):
        forms.append(("pyint", int(f)))
    for form, val in forms:
        back = f2m(val)
        if back is None or isinstance(back, (bool, np.ndarray)) or not isinstance(back, (int, np.integer)) or int(back) != p:
            o.add("frequency-midi-not-inverse", p=p, a4=a4, form=form, back=repr(back))
    # pitches as numpy integers and as fractional (detuned) values: documented "int, float or ndarray"
    fq = m2f(np.int32(p))
    if not math.isclose(float(fq), exp, rel_tol=1e-12):
        o.add("frequency-wrong", p=p, a4=a4, form="int32", got=float(fq), expected=exp)
    for det in (0.25, -0.25):
        fq = m2f(p + det)
        e = a4 * 2.0 ** ((p + det - 69) / 12.0)
        if not math.isclose(float(fq), e, rel_tol=1e-12):
            o.add("frequency-wrong", p=p + det, a4=a4, got=float(fq), expected=e)
        elif int(f2m(fq)) != p:
            o.add("frequency-midi-not-nearest", p=p, a4=a4, detune=det)
    if p % 16 == 0:
        arr = np.arange(p, min(p + 16, 128))
        fa = m2f(arr)
        ba = f2m(fa)
        if not isinstance(ba, np.ndarray) or list(map(int, ba)) != list(map(int, arr)):
            o.add("frequency-midi-array-not-inverse", p=p, a4=a4)
        # quarter-tone detuned frequencies still map to the nearest pitch
        ba = f2m(fa * 2 ** (0.4 / 12))
        if list(map(int, ba)) != list(map(int, arr)):
            o.add("frequency-midi-not-nearest", p=p, a4=a4)
        # single precision and two-dimensional frequency arrays
        for label, arg in (("float32", fa.astype(np.float32)), ("2d", fa.reshape(2, -1))):
            ba = f2m(arg)
            if not isinstance(ba, np.ndarray) or ba.shape != arg.shape or not np.issubdtype(ba.dtype, np.integer) or list(map(int, ba.ravel())) != list(map(int, arr)):
                o.add("frequency-midi-array-not-inverse", p=p, a4=a4, form=label)
    return o


SUBCHECKS = [
    SubCheck("spelling_to_midi", oracle_spelling, enumerate=enum_spelling, shards=2, floors={'form:np': 0.4, 'note-respelled-in-place': 0.9, 'note-lower-case-step': 0.4, 'alter-sign-read-back': 0.8, 'note-default-alter': 0.1}, rule="all steps x alter None,-3..3 x octave -1..9 x letter case x (Python / numpy scalars); Note, its default alter, its accidental sign and its MIDI pitch after each of seven in-place respellings (one field at a time); non-trivial = altered"),
    SubCheck(
        "spelling_format",
        oracle_format,
        enumerate=enum_format,
        shards=2,
        floors={'alter:str': 0.5, 'alter:npint': 0.1, 'octave:str': 0.3, 'valid-format-input': 0.4, 'rest-step': 0.05}, rule="ensure_pitch_spelling_format: steps (upper, lower, rest, invalid) x alterations (ints, numpy ints, None, all accidental texts of the table, invalid texts) x octaves (int, numpy int, text, '-', None, invalid); non-trivial = text input",
    ),
    SubCheck("midi_to_spelling", oracle_midi, enumerate=enum_midi, shards=1, floors={'form:int32': 0.3, 'form:int64': 0.3}, rule="all MIDI pitches 0..127 as Python int, int32, int64; non-trivial = black key"),
    SubCheck(
        "note_names",
        oracle_names,
        enumerate=enum_names,
        shards=2,
        floors={'outside-grammar': 0.02}, rule="all [A-G] x accidental strings x octaves; strings outside the grammar; alteration None; non-trivial = with accidental",
        known={"note-name-alter-none": known_note_name_alter_none},
    ),
    SubCheck(
        "keys",
        oracle_keys,
        enumerate=enum_keys,
        shards=1,
        floors={'form:np32': 0.3, 'mode-omitted': 0.02, 'name-beyond-the-thirty': 0.03}, rule="fifths -12..12 x (6 accepted + 7 unknown mode spellings, mode omitted) x (Python values positionally / int32 by keyword), the 30 key names and the 28 names of 8..14 sharps or flats; non-trivial = minor, out of range or unknown mode",
        known={"fifths-below-minus-7-wrap": known_fifths_wrap},
    ),
    SubCheck("mode_clef_codes", oracle_codes, enumerate=enum_codes, shards=1, rule="all mode spellings and clef signs/codes, codes also as numpy integers"),
    SubCheck("durations_tempo_units", oracle_durs, enumerate=enum_durs, shards=4, floors={'tuplet-types-differ': 0.5, 'unit-with-blanks': 0.03, 'tempo-object-long-unit-name': 0.08}, rule="types x dots 0..3 x tuplet ratios x 17 divisions; tuplet multipliers for all type pairs and without types; tempo units x dots (also with blanks, as Tempo objects, Tempo without unit); non-trivial = dotted/tuplet/non-quarter unit"),
    SubCheck("intervals", oracle_intervals, enumerate=enum_intervals, shards=1, floors={'direction-omitted': 0.15, 'compound-number': 0.15}, rule="numbers 1..7 x qualities (valid and invalid) x directions (also omitted), compound numbers 8..15; non-trivial = valid and not P/M"),
    SubCheck("tables", oracle_tables, enumerate=enum_tables, shards=1, rule="agreement of the independent pitch tables"),
    SubCheck(
        "frequency",
        oracle_freq,
        enumerate=enum_freq,
        shards=2,
        floors={'a4-omitted': 0.1}, rule="MIDI 0..127 x six A4 values and the default, scalars of every numeric type and arrays; non-trivial = A4 != 440",
        known={"frequency-float32-scalar-none": known_freq_float32_none},
    ),
    SubCheck(
        "seconds_ticks",
        oracle_ticks,
        strategy=strat_ticks,
        budget={"quick": 1500, "thorough": 20000},
        rule="(ppq, mpq, times, dtype, calling convention, parameter types, array shape) sampled; non-trivial = numpy scalar/array input or non-default ppq/mpq",
        floors={
            "dtype:float64": 0.05,
            "dtype:int64": 0.05,
            "call:defaults": 0.08,
            "call:keyword": 0.08,
            "call:alias_t": 0.08,
            "params:mpq_bpm": 0.05,
            "params:numpy": 0.05,
            "array-shape:empty": 0.05,
            "array-shape:2d": 0.05,
            "ticks-int32-product-beyond-2^31": 0.1,
        },
        known={"ticks-int32-overflow": known_ticks_int32},
    ),
]
