"""C12 - pitch, key, duration and time-unit conversions are mutually consistent.

Finite domains are enumerated completely (exhaustive); tick/second conversion and
frequency conversion over floats are sampled with Hypothesis.
The reference side is plain integer / Fraction arithmetic written here; none of
partitura's tables are used to compute expected values.
"""

import itertools
import math
from fractions import Fraction

import numpy as np
from hypothesis import strategies as st

from pbt.core import Disc, Outcome, SubCheck, call, SutRaised

PROPERTY = "C12"
ENGINES = ["exhaustive enumeration", "hypothesis"]
ASSUMPTIONS = [
    "expected values come from twelve-tone / circle-of-fifths / Fraction arithmetic written in the check",
    "exact .5 tick ties accept either neighbouring integer (numpy rounds half to even)",
]

import partitura.utils.music as M
import partitura.utils.globals as G
import partitura.score as S

BASE = {"C": 0, "D": 2, "E": 4, "F": 5, "G": 7, "A": 9, "B": 11}
STEPS = "CDEFGAB"
FIFTHS_LINE = "FCGDAEB"


def _acc(n):
    return "#" * n if n >= 0 else "b" * (-n)


def ref_key_name(fifths, minor):
    idx = fifths + (4 if minor else 1)
    return FIFTHS_LINE[idx % 7] + _acc(idx // 7) + ("m" if minor else "")


# ---------------------------------------------------------------- spelling -> midi
def enum_spelling(tier):
    out = []
    for step in STEPS:
        for alter in [None, -3, -2, -1, 0, 1, 2, 3]:
            for octave in range(-1, 10):
                for lower in (False, True):
                    out.append({"step": step.lower() if lower else step, "alter": alter, "octave": octave})
    return out


def oracle_spelling(spec):
    o = Outcome(nontrivial=spec["alter"] not in (None, 0))
    step, alter, octave = spec["step"], spec["alter"], spec["octave"]
    exp = 12 * (octave + 1) + BASE[step.upper()] + (alter or 0)
    got = call(M.pitch_spelling_to_midi_pitch, step, alter, octave)
    if got != exp:
        o.add("spelling-to-midi-wrong", got=got, expected=exp)
    if step.isupper():
        n = call(S.Note, step=step, octave=octave, alter=alter)
        if n.midi_pitch != exp:
            o.add("note-midi-pitch-wrong", got=n.midi_pitch, expected=exp)
        if alter is not None and -2 <= alter <= 2:
            pc = call(M.step2pc, step, alter)
            if pc != exp % 12:
                o.add("step2pc-wrong", got=pc, expected=exp % 12)
    return o


# ---------------------------------------------------------------- midi -> spelling -> midi
def enum_midi(tier):
    return [{"midi": p} for p in range(128)]


def oracle_midi(spec):
    p = spec["midi"]
    o = Outcome(nontrivial=p % 12 in (1, 3, 6, 8, 10))
    step, alter, octave = call(M.midi_pitch_to_pitch_spelling, p)
    if step not in STEPS or not isinstance(step, str):
        o.add("midi-to-spelling-bad-step", got=step)
        return o
    if alter not in (0, 1, -1, None):
        o.add("midi-to-spelling-bad-alter", got=alter)
    back = 12 * (int(octave) + 1) + BASE[step] + (alter or 0)
    if back != p:
        o.add("midi-spelling-roundtrip", midi=p, got=[step, alter, octave])
    if call(M.pitch_spelling_to_midi_pitch, step, alter, octave) != p:
        o.add("midi-spelling-roundtrip-sut", midi=p)
    return o


# ---------------------------------------------------------------- note names
ACC_STRINGS = {"": 0, "#": 1, "##": 2, "x": 2, "###": 3, "b": -1, "bb": -2, "bbb": -3}
MIXED = ["x#", "#b", "b#", "xb", "xx", "#x", "bx", "####", "bbbb"]


def enum_names(tier):
    out = []
    for step in STEPS:
        for acc in list(ACC_STRINGS) + MIXED:
            for octave in list(range(0, 11)) + [12, 15]:
                out.append({"name": "%s%s%d" % (step, acc, octave), "step": step, "acc": acc, "octave": octave})
    return out


def oracle_names(spec):
    acc = spec["acc"]
    o = Outcome(nontrivial=acc != "")
    name = spec["name"]
    if acc in ACC_STRINGS:
        exp = (spec["step"], ACC_STRINGS[acc], spec["octave"])
        got = call(M.note_name_to_pitch_spelling, name)
        if tuple(got) != exp:
            o.add("note-name-parse-wrong", name=name, got=list(got), expected=list(exp))
        mp = call(M.note_name_to_midi_pitch, name)
        if mp != 12 * (exp[2] + 1) + BASE[exp[0]] + exp[1]:
            o.add("note-name-midi-wrong", name=name, got=mp)
        # inverse where one exists: format then parse gives the same spelling
        text = call(M.pitch_spelling_to_note_name, exp[0], exp[1], exp[2])
        back = call(M.note_name_to_pitch_spelling, text)
        if tuple(back) != exp:
            o.add("note-name-format-parse", spelling=list(exp), text=text, back=list(back))
        if acc in ("", "#", "x", "b", "bb", "###", "bbb") and text != name:
            # canonical accidental strings are reproduced
            o.add("note-name-not-canonical", name=name, text=text)
    else:
        o.cls("mixed-accidental-string")
        # not in the table of accidental spellings: must be rejected or summed, never mis-read
        total = sum({"#": 1, "b": -1, "x": 2}[c] for c in acc)
        try:
            got = M.note_name_to_pitch_spelling(name)
        except ValueError:
            return o
        except Exception as e:  # noqa
            o.add("note-name-bad-exception", name=name, exc=type(e).__name__)
            return o
        if tuple(got) != (spec["step"], total, spec["octave"]):
            o.add("note-name-mixed-misread", name=name, got=list(got))
    return o


# ---------------------------------------------------------------- keys
MODES = ["major", "minor", None, "none", 1, -1]
BAD_MODES = ["dorian", "Major", "MINOR", 0, 2, "", "maj"]


def enum_keys(tier):
    out = []
    for f in range(-12, 13):
        for m in range(len(MODES) + len(BAD_MODES)):
            out.append({"fifths": f, "mode_index": m})
    for f in range(-7, 8):
        for minor in (False, True):
            out.append({"name": ref_key_name(f, minor), "fifths": f, "minor": minor})
    return out


def oracle_keys(spec):
    if "name" in spec:
        o = Outcome(nontrivial=True, classes=["name->fifths"])
        f, mode = call(M.key_name_to_fifths_mode, spec["name"])
        if (f, mode) != (spec["fifths"], "minor" if spec["minor"] else "major"):
            o.add("key-name-parse-wrong", name=spec["name"], got=[f, mode])
        return o
    f = spec["fifths"]
    mi = spec["mode_index"]
    allm = MODES + BAD_MODES
    mode = allm[mi]
    good_mode = mi < len(MODES)
    o = Outcome(nontrivial=(abs(f) > 7 or not good_mode or mode in ("minor", -1)))
    o.cls("out-of-range-fifths", abs(f) > 7)
    o.cls("unknown-mode", not good_mode)
    minor = mode in ("minor", -1)
    for label, fn in (
        ("fifths_mode_to_key_name", lambda: M.fifths_mode_to_key_name(f, mode)),
        ("KeySignature.name", lambda: S.KeySignature(f, mode).name),
    ):
        try:
            name = fn()
            raised = None
        except Exception as e:  # rejection is the documented behaviour outside the domain
            name = None
            raised = e
        if abs(f) <= 7 and good_mode:
            if raised is not None:
                o.add("key-valid-rejected", fn=label, fifths=f, mode=mode, exc=repr(raised)[:200])
                continue
            exp = ref_key_name(f, minor)
            if name != exp:
                o.add("key-name-wrong", fn=label, fifths=f, mode=mode, got=name, expected=exp)
                continue
            back = call(M.key_name_to_fifths_mode, name)
            if tuple(back) != (f, "minor" if minor else "major"):
                o.add("key-name-roundtrip", fifths=f, mode=mode, name=name, back=list(back))
        else:
            if raised is None:
                kind = "key-out-of-range-accepted" if abs(f) > 7 else "key-unknown-mode-accepted"
                o.add(kind, fn=label, fifths=f, mode=repr(mode), got=name)
    return o


def known_fifths_wrap(spec, d):
    return d.kind == "key-out-of-range-accepted" and spec.get("fifths", 0) < -7


# ---------------------------------------------------------------- mode / clef codes
def enum_codes(tier):
    out = [{"mode": i} for i in range(len(MODES) + len(BAD_MODES))]
    out += [{"clef": s} for s in ["G", "F", "C", "percussion", "TAB", "jianpu", "none"]]
    out += [{"clef_int": i} for i in range(0, 7)]
    return out


def oracle_codes(spec):
    o = Outcome(nontrivial=True)
    if "mode" in spec:
        allm = MODES + BAD_MODES
        mode = allm[spec["mode"]]
        good = spec["mode"] < len(MODES)
        minor = mode in ("minor", -1)
        for fn, exp in ((M.key_mode_to_int, -1 if minor else 1), (M.key_int_to_mode, "minor" if minor else "major")):
            try:
                got = fn(mode)
                raised = False
            except ValueError:
                raised = True
            if good and (raised or got != exp):
                o.add("mode-code-wrong", fn=fn.__name__, mode=repr(mode), got=None if raised else got)
            if not good and not raised:
                o.add("mode-code-unknown-accepted", fn=fn.__name__, mode=repr(mode), got=got)
        if good:
            # decode(encode(x)) == canonical x, encode(decode(code)) == code
            if call(M.key_int_to_mode, call(M.key_mode_to_int, mode)) != ("minor" if minor else "major"):
                o.add("mode-code-roundtrip", mode=repr(mode))
            if call(M.key_mode_to_int, call(M.key_int_to_mode, mode)) != (-1 if minor else 1):
                o.add("mode-code-roundtrip", mode=repr(mode))
    elif "clef" in spec:
        code = call(M.clef_sign_to_int, spec["clef"])
        if not isinstance(code, (int, np.integer)):
            o.add("clef-code-not-int", clef=spec["clef"], got=repr(code))
        elif call(M.clef_int_to_sign, code) != spec["clef"]:
            o.add("clef-code-roundtrip", clef=spec["clef"], code=code)
    else:
        sign = call(M.clef_int_to_sign, spec["clef_int"])
        if call(M.clef_sign_to_int, sign) != spec["clef_int"]:
            o.add("clef-code-roundtrip", code=spec["clef_int"], sign=sign)
    return o


# ---------------------------------------------------------------- symbolic durations, tempo units
TYPES = {
    "long": Fraction(16),
    "breve": Fraction(8),
    "whole": Fraction(4),
    "half": Fraction(2),
    "quarter": Fraction(1),
    "eighth": Fraction(1, 2),
    "16th": Fraction(1, 4),
    "32nd": Fraction(1, 8),
    "64th": Fraction(1, 16),
    "128th": Fraction(1, 32),
    "256th": Fraction(1, 64),
    "h": Fraction(2),
    "q": Fraction(1),
    "e": Fraction(1, 2),
}
RATIOS = [None, (3, 2), (5, 4), (6, 4), (7, 4), (7, 8), (2, 3), (4, 3), (9, 8), (5, 2), (10, 8), (11, 8), (13, 8), (15, 16)]
DIVS = [1, 2, 3, 4, 5, 6, 7, 8, 10, 12, 16, 24, 48, 96, 120, 480, 960]


def dotmul(d):
    return 2 - Fraction(1, 2 ** d)


def enum_durs(tier):
    out = []
    for t in TYPES:
        for dots in range(4):
            for ri in range(len(RATIOS)):
                out.append({"type": t, "dots": dots, "ratio": ri})
    for at in ("quarter", "eighth", "16th", "half"):
        for nt in ("quarter", "eighth", "16th", "half"):
            for (a, n) in RATIOS[1:]:
                out.append({"tuplet": [a, n, at, nt]})
    for unit in TYPES:
        for dots in range(4):
            for bpm in (1, 40, 60, 90.5, 120, 333):
                out.append({"unit": unit, "udots": dots, "bpm": bpm})
    return out


def oracle_durs(spec):
    o = Outcome()
    if "tuplet" in spec:
        a, n, at, nt = spec["tuplet"]
        o.nontrivial = at != nt
        tup = call(S.Tuplet, actual_notes=a, normal_notes=n, actual_type=at, normal_type=nt)
        got = call(lambda: tup.duration_multiplier)
        exp = Fraction(n, a) * TYPES[nt] / TYPES[at]
        if Fraction(got) != exp:
            o.add("tuplet-multiplier-wrong", spec=spec["tuplet"], got=str(got), expected=str(exp))
        return o
    if "unit" in spec:
        unit = spec["unit"] + "." * spec["udots"]
        o.nontrivial = spec["udots"] > 0 or spec["unit"] not in ("q", "quarter")
        exp = Fraction(spec["bpm"]) * dotmul(spec["udots"]) * TYPES[spec["unit"]]
        got = call(M.to_quarter_tempo, unit, spec["bpm"])
        if abs(Fraction(got) - exp) > Fraction(1, 10 ** 9) * (1 + exp):
            o.add("tempo-unit-wrong", unit=unit, bpm=spec["bpm"], got=got, expected=float(exp))
        if spec["unit"] in ("q", "h", "e"):
            tempo = call(S.Tempo, spec["bpm"], unit)
            mpq = call(lambda: tempo.microseconds_per_quarter)
            e = Fraction(60 * 10 ** 6) / exp
            if not isinstance(mpq, (int, np.integer)) or abs(Fraction(int(mpq)) - e) > Fraction(1, 2) + Fraction(1, 10 ** 6):
                o.add("tempo-mpq-wrong", unit=unit, bpm=spec["bpm"], got=repr(mpq), expected=float(e))
        if spec["udots"] == 0 and spec["bpm"] == 60:
            tempo = call(S.Tempo, spec["bpm"], None)
            if call(lambda: tempo.microseconds_per_quarter) != 1000000 and spec["unit"] == "q":
                o.add("tempo-mpq-default-unit-wrong")
        return o
    ratio = RATIOS[spec["ratio"]]
    o.nontrivial = spec["dots"] > 0 or ratio is not None
    sd = {"type": spec["type"], "dots": spec["dots"]}
    value = TYPES[spec["type"]] * dotmul(spec["dots"])
    if ratio is not None:
        sd["actual_notes"], sd["normal_notes"] = ratio
        value = value * Fraction(ratio[1], ratio[0])
    for divs in DIVS:
        got = call(M.symbolic_to_numeric_duration, dict(sd), divs)
        exp = value * divs
        if abs(Fraction(got) - exp) > Fraction(1, 10 ** 9) * (1 + exp):
            o.add("symbolic-to-numeric-wrong", sd=sd, divs=divs, got=got, expected=float(exp))
            break
    if spec["dots"] == 0 and ratio is None:
        # without an explicit dots key the value is the undotted one
        got = call(M.symbolic_to_numeric_duration, {"type": spec["type"]}, 4)
        if Fraction(got) != TYPES[spec["type"]] * 4:
            o.add("symbolic-to-numeric-wrong", sd={"type": spec["type"]}, divs=4, got=got)
    text = call(M.format_symbolic_duration, dict(sd))
    exp_text = spec["type"] + "." * spec["dots"] + ("_%d/%d" % ratio if ratio else "")
    if text != exp_text:
        o.add("symbolic-format-wrong", sd=sd, got=text, expected=exp_text)
    return o


# ---------------------------------------------------------------- intervals
MAJ_SEMI = [0, 2, 4, 5, 7, 9, 11]
Q_PERFECT = {"dd": -2, "d": -1, "P": 0, "A": 1, "AA": 2}
Q_MAJOR = {"dd": -3, "d": -2, "m": -1, "M": 0, "A": 1, "AA": 2}
ALL_Q = ["dd", "d", "m", "M", "P", "A", "AA", "X", ""]


def enum_intervals(tier):
    out = []
    for n in range(1, 8):
        for q in ALL_Q:
            for d in ("up", "down", "sideways"):
                out.append({"number": n, "quality": q, "direction": d})
    return out


def oracle_intervals(spec):
    n, q, d = spec["number"], spec["quality"], spec["direction"]
    table = Q_PERFECT if n in (1, 4, 5) else Q_MAJOR
    valid = q in table and d in ("up", "down")
    o = Outcome(nontrivial=valid and q not in ("P", "M"))
    o.cls("valid-interval-class", valid)
    try:
        iv = S.Interval(n, q, d)
        raised = False
    except AssertionError:
        raised = True
    if valid:
        if raised:
            o.add("interval-valid-rejected", spec=spec)
            return o
        exp = MAJ_SEMI[n - 1] + table[q]
        got = call(lambda: iv.semitones)
        if got != exp:
            o.add("interval-semitones-wrong", spec=spec, got=got, expected=exp)
        if "%s%d" % (q, n) not in G.INTERVALCLASSES:
            o.add("interval-class-missing-from-table", spec=spec)
    elif not raised:
        o.add("interval-invalid-accepted", spec=spec)
    return o


# ---------------------------------------------------------------- table agreement
def enum_tables(tier):
    return [{"step": s} for s in STEPS] + [{"alt": a} for a in range(-2, 3)] + [{"count": 1}]


def oracle_tables(spec):
    o = Outcome(nontrivial=True)
    if "step" in spec:
        s = spec["step"]
        vals = {
            "MIDI_BASE_CLASS": G.MIDI_BASE_CLASS.get(s.lower()),
            "BASE_PC": G.BASE_PC.get(s),
            "ref": BASE[s],
        }
        if len(set(vals.values())) != 1:
            o.add("base-class-tables-disagree", step=s, values=vals)
        i = STEPS.index(s)
        if G.STEPS.get(s) != i or G.STEPS.get(i) != s:
            o.add("steps-table-wrong", step=s)
        d = [k for k, v in G.DUMMY_PS_BASE_CLASS.items() if v == (s.lower(), 0)]
        if d != [BASE[s]]:
            o.add("dummy-spelling-table-wrong", step=s, got=d)
    elif "alt" in spec:
        a = spec["alt"]
        txt = G.INT_TO_ALT.get(a)
        if txt is None or G.ALT_TO_INT.get(txt) != a:
            o.add("alt-tables-not-inverse", alter=a, text=txt)
    else:
        if len(G.INTERVALCLASSES) != 39 or len(set(G.INTERVALCLASSES)) != 39:
            o.add("interval-class-count", got=len(G.INTERVALCLASSES))
        for pc, (st_, al) in G.DUMMY_PS_BASE_CLASS.items():
            if (BASE[st_.upper()] + al) % 12 != pc:
                o.add("dummy-spelling-table-wrong", pc=pc)
    return o


# ---------------------------------------------------------------- seconds <-> ticks (sampled)
def strat_ticks(tier):
    ppq = st.one_of(st.sampled_from([1, 24, 96, 120, 384, 480, 960, 1000]), st.integers(1, 10000))
    mpq = st.one_of(st.sampled_from([500000, 250000, 1000000, 600000, 333333]), st.integers(1000, 4000000))
    # times: exact tick images, half-tick neighbourhoods and arbitrary floats
    t = st.one_of(
        st.floats(0, 4000, allow_nan=False, allow_infinity=False),
        st.integers(0, 10 ** 6).map(lambda k: k / 1024.0),
        st.integers(0, 10 ** 5).map(float),
        st.floats(-100, 0, allow_nan=False),
    )
    return st.fixed_dictionaries(
        {
            "ppq": ppq,
            "mpq": mpq,
            "times": st.lists(t, min_size=1, max_size=6),
            "tick_k": st.lists(st.integers(0, 10 ** 7), min_size=1, max_size=4),
            "dtype": st.sampled_from(["float64", "float32", "int64", "int32", "pyint", "pyfloat"]),
        }
    )


def _exact_ticks(t, ppq, mpq):
    return Fraction(t) * ppq * 10 ** 6 / mpq


def oracle_ticks(spec):
    ppq, mpq = spec["ppq"], spec["mpq"]
    dt = spec["dtype"]
    o = Outcome(nontrivial=(dt not in ("pyfloat",)) or (ppq, mpq) != (480, 500000))
    o.cls("dtype:" + dt)
    times = list(spec["times"])
    if dt in ("int64", "int32", "pyint"):
        times = [int(t) for t in times]
    elif dt == "float32":
        times = [float(np.float32(t)) for t in times]
    # scalar path
    scal = []
    for t in times:
        arg = int(t) if dt in ("pyint",) else (float(t) if dt == "pyfloat" else np.dtype(dt if dt not in ("pyint", "pyfloat") else "float64").type(t))
        got = call(M.seconds_to_midi_ticks, arg, mpq, ppq)
        exact = _exact_ticks(t, ppq, mpq)
        if isinstance(got, bool) or not isinstance(got, (int, np.integer)):
            o.add("ticks-not-integer", t=t, got=repr(got))
            continue
        # float32 input is converted in double precision too (repaired after C14's thorough tier met a
        # rebuilt part whose float32 onset rounded to the neighbouring tick)
        rel = Fraction(1, 10 ** 9)
        tol = Fraction(1, 2) + rel * (1 + abs(exact))
        if abs(Fraction(int(got)) - exact) > tol:
            o.add("ticks-not-nearest", t=t, ppq=ppq, mpq=mpq, got=int(got), exact=float(exact))
        scal.append(int(got))
        back = call(M.midi_ticks_to_seconds, got, mpq, ppq)
        half_tick = Fraction(mpq, 2 * 10 ** 6 * ppq)
        if abs(Fraction(float(back)) - Fraction(t)) > 2 * half_tick * tol + Fraction(1, 10 ** 9) * (1 + abs(Fraction(t))):
            o.add("ticks-seconds-not-inverse", t=t, ppq=ppq, mpq=mpq, ticks=int(got), back=float(back))
    # array path
    if dt not in ("pyint", "pyfloat"):
        arr = np.array(times, dtype=dt)
        got = call(M.seconds_to_midi_ticks, arr, mpq, ppq)
        if not isinstance(got, np.ndarray) or got.shape != arr.shape or not np.issubdtype(got.dtype, np.integer):
            o.add("ticks-array-bad-result", got=repr(got)[:100])
        elif len(scal) == len(times) and [int(x) for x in got] != scal:
            o.add("ticks-array-scalar-disagree", times=times, array=[int(x) for x in got], scalar=scal)
    # exact tick images come back unchanged: seconds(k) -> k
    ks = spec["tick_k"]
    for k in ks:
        sec = call(M.midi_ticks_to_seconds, k, mpq, ppq)
        k2 = call(M.seconds_to_midi_ticks, sec, mpq, ppq)
        if int(k2) != k:
            o.add("tick-roundtrip-not-identity", k=k, ppq=ppq, mpq=mpq, sec=float(sec), back=int(k2))
    karr = np.array(ks, dtype=np.int64)
    sec = call(M.midi_ticks_to_seconds, karr, mpq, ppq)
    if not isinstance(sec, np.ndarray) or sec.shape != karr.shape:
        o.add("seconds-array-bad-result")
    else:
        exp = [float(Fraction(k * mpq, 10 ** 6 * ppq)) for k in ks]
        if not np.allclose(sec, exp, rtol=1e-12, atol=0):
            o.add("seconds-array-wrong", ks=ks, got=[float(x) for x in sec])
    return o


# ---------------------------------------------------------------- frequency <-> midi
def enum_freq(tier):
    return [{"p": p, "a4": a} for p in range(128) for a in (440.0, 415.0, 430.54, 442, 466.16, 432)]


def oracle_freq(spec):
    p, a4 = spec["p"], spec["a4"]
    o = Outcome(nontrivial=a4 != 440.0)
    f = call(M.midi_pitch_to_frequency, p, a4)
    exp = a4 * 2.0 ** ((p - 69) / 12.0)
    if not math.isclose(float(f), exp, rel_tol=1e-12):
        o.add("frequency-wrong", p=p, a4=a4, got=float(f), expected=exp)
    back = call(M.frequency_to_midi_pitch, f, a4)
    if back is None or isinstance(back, np.ndarray) or int(back) != p:
        o.add("frequency-midi-not-inverse", p=p, a4=a4, back=repr(back))
    if p % 16 == 0:
        arr = np.arange(p, min(p + 16, 128))
        fa = call(M.midi_pitch_to_frequency, arr, a4)
        ba = call(M.frequency_to_midi_pitch, fa, a4)
        if not isinstance(ba, np.ndarray) or list(map(int, ba)) != list(map(int, arr)):
            o.add("frequency-midi-array-not-inverse", p=p, a4=a4)
        # quarter-tone detuned frequencies still map to the nearest pitch
        ba = call(M.frequency_to_midi_pitch, fa * 2 ** (0.4 / 12), a4)
        if list(map(int, ba)) != list(map(int, arr)):
            o.add("frequency-midi-not-nearest", p=p, a4=a4)
    return o


SUBCHECKS = [
    SubCheck("spelling_to_midi", oracle_spelling, enumerate=enum_spelling, shards=2, rule="all steps x alter None,-3..3 x octave -1..9 x letter case; non-trivial = altered"),
    SubCheck("midi_to_spelling", oracle_midi, enumerate=enum_midi, shards=1, rule="all MIDI pitches 0..127; non-trivial = black key"),
    SubCheck("note_names", oracle_names, enumerate=enum_names, shards=2, rule="all [A-G] x accidental strings x octaves; non-trivial = with accidental"),
    SubCheck(
        "keys",
        oracle_keys,
        enumerate=enum_keys,
        shards=1,
        rule="fifths -12..12 x 6 accepted + 7 unknown mode spellings, and the 30 key names; non-trivial = minor, out of range or unknown mode",
        known={"fifths-below-minus-7-wrap": known_fifths_wrap},
    ),
    SubCheck("mode_clef_codes", oracle_codes, enumerate=enum_codes, shards=1, rule="all mode spellings and clef signs/codes"),
    SubCheck("durations_tempo_units", oracle_durs, enumerate=enum_durs, shards=4, rule="types x dots 0..3 x tuplet ratios x 17 divisions; tuplet multipliers; tempo units x dots; non-trivial = dotted/tuplet/non-quarter unit"),
    SubCheck("intervals", oracle_intervals, enumerate=enum_intervals, shards=1, rule="numbers 1..7 x qualities (valid and invalid) x directions; non-trivial = valid and not P/M"),
    SubCheck("tables", oracle_tables, enumerate=enum_tables, shards=1, rule="agreement of the independent pitch tables"),
    SubCheck("frequency", oracle_freq, enumerate=enum_freq, shards=2, rule="MIDI 0..127 x six A4 values, scalar and array; non-trivial = A4 != 440"),
    SubCheck(
        "seconds_ticks",
        oracle_ticks,
        strategy=strat_ticks,
        budget={"quick": 1500, "thorough": 20000},
        rule="(ppq, mpq, times, dtype) sampled; non-trivial = numpy scalar/array input or non-default ppq/mpq",
        floors={"dtype:float64": 0.05, "dtype:int64": 0.05},
    ),
]
