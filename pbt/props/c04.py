"""C04 - score -> MIDI -> score preserves every note's timing and pitch exactly.

Oracle A reads the written file with an independent absolute-tick interpreter
(plain mido message iteration + FIFO pairing) and compares with exact integer
ticks computed from the abstract score (Fractions).  Oracle B re-imports the file
with load_score_midi (same mode) and load_performance_midi and compares note
multisets and the grouping of notes into parts/voices.
"""

import os
import tempfile
from collections import Counter, defaultdict
from fractions import Fraction
from math import gcd

import mido
import numpy as np
from hypothesis import strategies as st

import partitura.score as S
from partitura.io.exportmidi import save_score_midi
from partitura.io.importmidi import load_performance_midi, load_score_midi
from pbt.core import Outcome, SubCheck, SutRaised, call
from pbt.gen import scorespec as G
from pbt.gen.build import build_score

PROPERTY = "C04"
ENGINES = ["hypothesis"]
ASSUMPTIONS = [
    "no two sounding notes of equal pitch overlap across different (part, voice) pairs anywhere in the score (so the precondition holds for all six modes); in two thirds of the cases they do not touch either, in one third a note may start exactly where an equal pitch of another voice or part ends; in one third of the cases equal pitches of voices / parts that the mode of the case writes to different tracks or channels overlap freely; touching equal pitches inside one voice are always allowed; a grace note never touches an equal pitch",
    "parts of one score share the metrical structure (measures, signatures, pickup) in musical time and differ in divisions and notes",
    "time-signature meta events are compared for anacrusis behaviours 'shift' and 'pad_bar'; under 'time_sig_change' the library deliberately rewrites signatures and only notes, keys and tempi are compared",
    "tempo marks are placed in the first part only (tempo is global in a MIDI file)",
    "scores whose lcm of divisions (after doubling) exceeds 32767 are excluded: the MIDI header cannot store it",
    "import modes 2 and 4 do not mirror export modes 2 and 4 by documentation (single part): only the note multiset is compared there",
]

PROFILE = G.profile(max_bars=3, max_voices=3, max_staves=1, midbar_changes=False, irregular=False, clefs=False, key_changes=True,
                    missing_voice_staff=False)
ANACRUSIS = ["shift", "pad_bar", "time_sig_change"]


def lcm(a, b):
    return a * b // gcd(a, b)


# ------------------------------------------------------------------ generator
def _scale_part(ps, k, pid, prefix, keep):
    """Copy of the structure scaled by k (divisions x k); `keep` selects which sounding notes stay."""
    q = dict(ps)
    q["id"] = pid
    q["divs"] = [[t * k, d * k] for t, d in ps["divs"]]
    q["measures"] = [[a * k, b * k, n, nm] for a, b, n, nm in ps["measures"]]
    q["timesigs"] = [[t * k, b, bt] for t, b, bt in ps["timesigs"]]
    q["keysigs"] = [[t * k, f, m] for t, f, m in ps["keysigs"]]
    q["clefs"] = []
    q["end"] = ps["end"] * k
    q["pickup"] = None if ps["pickup"] is None else ps["pickup"] * k
    byid = {n["id"]: n for n in ps["notes"]}
    heads = [n for n in ps["notes"] if n["kind"] in ("note", "grace") and not n.get("tie_prev")]
    dropped = set()
    for i, h in enumerate(heads):
        if not keep[i % len(keep)]:
            cur = h
            while cur is not None:
                dropped.add(cur["id"])
                cur = byid.get(cur.get("tie_next"))
    # a grace note whose main note is dropped is dropped too (and vice versa the chain stays consistent)
    for n in ps["notes"]:
        if n["kind"] == "grace" and n.get("grace_next") in dropped:
            dropped.add(n["id"])
    changed = True
    while changed:
        changed = False
        for n in ps["notes"]:
            if n["kind"] == "grace" and n["id"] not in dropped and n.get("grace_next") in dropped:
                dropped.add(n["id"])
                changed = True
    notes = []
    for n in ps["notes"]:
        m = dict(n)
        m["id"] = prefix + n["id"]
        m["t"] = n["t"] * k
        m["dur"] = n["dur"] * k
        for key in ("tie_next", "tie_prev", "grace_next"):
            if m.get(key):
                m[key] = prefix + m[key]
        if n["id"] in dropped:
            if n["kind"] == "grace":
                continue
            m = {"id": m["id"], "kind": "rest", "t": m["t"], "dur": m["dur"], "voice": n.get("voice"), "staff": n.get("staff"), "sym": n.get("sym")}
        notes.append(m)
    q["notes"] = notes
    q["tuplets"] = []
    return q


def _make_disjoint(parts, touch=None, overlap=None, same_channel=None):
    """Deterministically re-pitch sounding notes so that equal pitches never overlap across different
    (part, voice) pairs and never overlap inside one.  touch=None: they do not touch across pairs either;
    touch=[bool, ...]: touching is allowed (the precondition of the property only excludes overlap), and
    for every note whose flag (cyclically) is set, the pitch of a note of another pair that ends exactly
    where it starts is tried first.  Grace notes never touch an equal pitch."""
    items = []
    for pi, ps in enumerate(parts):
        byid = {n["id"]: n for n in ps["notes"]}
        d0 = None
        ref = G.PartRef(ps)
        for n in ps["notes"]:
            if n["kind"] not in ("note", "grace") or n.get("tie_prev"):
                continue
            chain = [n]
            cur = n
            while cur.get("tie_next"):
                cur = byid[cur["tie_next"]]
                chain.append(cur)
            on = ref.quarter(n["t"])
            off = ref.quarter(chain[-1]["t"] + chain[-1]["dur"])
            items.append([on, off, pi, n.get("voice"), chain, n["kind"] == "grace"])
    items.sort(key=lambda x: (x[0], x[1], x[2], str(x[3])))
    placed = []  # (on, off, pi, voice, pitch)
    cands = []
    for octave in (4, 3, 5, 2, 6, 1, 7):
        for step in "CDEFGAB":
            for alter in (0, 1, -1):
                cands.append((step, alter, octave))
    spelled = {}
    for idx, it in enumerate(items):
        on, off, pi, voice, chain, grace = it
        head = chain[0]
        want = (head["step"], head["alter"], head["octave"])
        first = []
        if overlap and overlap[idx % len(overlap)] and not grace:
            first = [spelled[pl] for pl in placed if pl[0] <= on < pl[1] and not same_channel((pl[2], pl[3]), (pi, voice)) and pl in spelled]
        if touch and touch[idx % len(touch)] and not grace:
            first += [spelled[pl] for pl in placed if pl[1] == on and pl[0] < pl[1] and (pl[2], pl[3]) != (pi, voice) and pl in spelled]
        for (step, alter, octave) in first + [want] + cands:
            p = G.midi_pitch(step, alter, octave)
            if not (21 <= p <= 108):
                continue
            clash = False
            for (a, b, pj, vj, pp) in placed:
                if pp != p:
                    continue
                same_voice = (pj == pi and vj == voice)
                if overlap is not None and not same_voice and not same_channel((pj, vj), (pi, voice)):
                    continue  # another track or channel: no constraint
                if same_voice and not grace:
                    if a < off and on < b:  # overlap (touching allowed)
                        clash = True
                    if a == on:  # simultaneous start (e.g. grace note before this note)
                        clash = True
                elif touch is not None and not grace and a < b:
                    if a < off and on < b:  # overlap (touching allowed)
                        clash = True
                    if a == on:
                        clash = True
                else:
                    if a <= off and on <= b:  # overlap or touch
                        clash = True
                if clash:
                    break
            if not clash:
                for c in chain:
                    c["step"], c["alter"], c["octave"] = step, alter, octave
                placed.append((on, off, pi, voice, p))
                spelled[(on, off, pi, voice, p)] = (step, alter, octave)
                break
        else:
            raise AssertionError("no free pitch")


@st.composite
def group_tree(draw, n):
    """Any nesting of part groups over parts 0..n-1 (in order)."""
    counter = [0]

    def level(lo, hi, depth):
        out = []
        i = lo
        while i < hi:
            j = draw(st.integers(i + 1, hi))
            if depth < 3 and (j - i >= 2 or draw(st.integers(0, 2)) == 0) and not (depth > 0 and (i, j) == (lo, hi) and draw(st.booleans())):
                counter[0] += 1
                out.append({"symbol": "bracket", "name": "G%d" % counter[0], "number": counter[0], "children": level(i, j, depth + 1)})
                i = j
            else:
                out.append(i)
                i += 1
        return out

    tree = level(0, n, 0)
    return None if all(isinstance(x, int) for x in tree) else tree


@st.composite
def score_spec(draw, tier):
    prof = dict(PROFILE)
    if tier == "thorough":
        prof["max_bars"] = 5
    # division changes inside a measure / measures that are shorter or longer than their signature
    shape = draw(st.sampled_from(["plain", "plain", "plain", "midbar", "irregular", "both"]))
    prof["midbar_changes"] = shape in ("midbar", "both")
    prof["irregular"] = shape in ("irregular", "both")
    p0 = draw(G.part_spec(prof, pid="P1", note_prefix="a"))
    nparts = draw(st.sampled_from([1, 1, 2, 2, 3]))
    parts = [p0]
    for i in range(1, nparts):
        k = draw(st.sampled_from([1, 2, 3, 5]))
        keep = draw(st.lists(st.booleans(), min_size=1, max_size=6))
        # (a part that keeps no note at all: it gets no track)
        if not any(keep) and draw(st.integers(0, 2)) != 0:
            keep[0] = True
        parts.append(_scale_part(p0, k, "P%d" % (i + 1), "bcd"[i - 1], keep))
    parts = [dict(p, notes=[dict(n) for n in p["notes"]]) for p in parts]
    # voice labels: any distinct numbers (0, gaps, > 16), one voice without number
    for ps in parts:
        voices = sorted(set(n["voice"] for n in ps["notes"]))
        if draw(st.integers(0, 2)) == 0:
            labels = draw(st.lists(st.sampled_from([None, 0, 1, 2, 3, 4, 5, 7, 9, 17, 40]), min_size=len(voices), max_size=len(voices), unique=True))
            vmap = dict(zip(voices, labels))
            for n in ps["notes"]:
                n["voice"] = vmap[n["voice"]]
    groups = None
    if nparts >= 2:
        gk = draw(st.sampled_from(["none", "all", "first-two", "tree", "tree"])) if nparts == 3 else draw(st.sampled_from(["none", "all", "tree"]))
        if gk == "all":
            groups = [{"symbol": "bracket", "name": "G1", "number": 1, "children": list(range(nparts))}]
        elif gk == "first-two":
            groups = [{"symbol": "brace", "name": "G1", "number": 1, "children": [0, 1]}, 2]
        elif gk == "tree":
            groups = draw(group_tree(nparts))
    mode = draw(st.integers(0, 5))
    touch = None
    if draw(st.integers(0, 2)) == 0:
        touch = draw(st.lists(st.booleans(), min_size=1, max_size=5))
    overlap = None
    if mode != 4 and draw(st.integers(0, 2)) == 0:
        overlap = draw(st.lists(st.booleans(), min_size=1, max_size=5))
    exp_tc = expected_track_channel(parts, groups, mode)
    _make_disjoint(parts, touch, overlap, lambda a, b: exp_tc.get(a) == exp_tc.get(b))
    if nparts >= 2 and draw(st.integers(0, 5)) == 0:
        # part ids need not be unique (parts are told apart as objects)
        for ps in parts:
            ps["id"] = "P1"
    # tempo marks in the first part at distinct bar lines, sometimes at a note onset inside a measure
    tempos = []
    onsets = sorted(set(n["t"] for n in parts[0]["notes"]))
    for m in p0["measures"]:
        if draw(st.integers(0, 3)) == 0:
            t = m[0]
            if onsets and draw(st.integers(0, 3)) == 0:
                t = draw(st.sampled_from(onsets))
            if all(x[0] != t for x in tempos):
                tempos.append([t, draw(st.sampled_from([40, 60, 72, 90, 120, 144, 200])), draw(st.sampled_from([None, "q", "h", "e", "q."]))])
    parts[0]["tempos"] = sorted(tempos, key=lambda x: x[0])
    # how the functions are called: argument type, kind of output, kind of input, import options
    api = {"arg": "score", "out": "path", "src": "path", "assign_note_ids": True, "quantization_unit": None}
    if draw(st.booleans()):
        args = ["score", "partlist"]
        if nparts == 1:
            args.append("part")
        if groups and len(groups) == 1 and isinstance(groups[0], dict):
            args.append("group")
        api["arg"] = draw(st.sampled_from(args))
        api["out"] = draw(st.sampled_from(["path", "file", "return"]))
        api["src"] = draw(st.sampled_from(["path", "object"]))
        api["assign_note_ids"] = draw(st.booleans())
        api["quantization_unit"] = draw(st.sampled_from([None, 1]))
    return {
        "parts": parts,
        "groups": groups,
        "mode": mode,
        "anacrusis": draw(st.sampled_from(ANACRUSIS)),
        "min_ppq": draw(st.sampled_from([0, 0, 96, 480, 1000])),
        "velocity": draw(st.sampled_from([64, 1, 30, 100, 127])),
        "touch": touch,
        "overlap": overlap,
        "api": api,
    }


# ------------------------------------------------------------------ independent MIDI reading
def read_midi(path):
    mf = mido.MidiFile(path)
    notes = []  # (track, channel, pitch, on, off, velocity)
    metas = []  # (track, tick, type, payload)
    for ti, track in enumerate(mf.tracks):
        t = 0
        open_ = defaultdict(list)
        for msg in track:
            t += msg.time
            if msg.type == "note_on" and msg.velocity > 0:
                open_[(msg.channel, msg.note)].append((t, msg.velocity))
            elif msg.type == "note_off" or (msg.type == "note_on" and msg.velocity == 0):
                lst = open_[(msg.channel, msg.note)]
                if not lst:
                    notes.append((ti, msg.channel, msg.note, None, t, None))
                else:
                    on, vel = lst.pop(0)
                    notes.append((ti, msg.channel, msg.note, on, t, vel))
            elif msg.type == "time_signature":
                metas.append((ti, t, "ts", (msg.numerator, msg.denominator)))
            elif msg.type == "key_signature":
                metas.append((ti, t, "ks", msg.key))
            elif msg.type == "set_tempo":
                metas.append((ti, t, "tempo", msg.tempo))
        for (ch, p), lst in open_.items():
            for on, vel in lst:
                notes.append((ti, ch, p, on, None, vel))
    return mf.ticks_per_beat, notes, metas


def key_name(fifths, mode):
    return G_key(fifths, mode == "minor")


def G_key(fifths, minor):
    line = "FCGDAEB"
    idx = fifths + (4 if minor else 1)
    n = idx // 7
    return line[idx % 7] + ("#" * n if n >= 0 else "b" * (-n)) + ("m" if minor else "")


UNIT_Q = {None: Fraction(1), "q": Fraction(1), "h": Fraction(2), "e": Fraction(1, 2), "q.": Fraction(3, 2)}


# ------------------------------------------------------------------ oracle
def oracle(spec):
    o = Outcome()
    parts = spec["parts"]
    mode, anac = spec["mode"], spec["anacrusis"]
    score, pobjs, _ = build_score({"parts": parts, "groups": spec["groups"]})
    # ---- expected values from the abstract score ---------------------------------------
    all_divs = []
    for ps in parts:
        all_divs += [d for _, d in ps["divs"]]
    ppq = 1
    for d in all_divs:
        ppq = lcm(ppq, d)
    while ppq < spec["min_ppq"]:
        ppq *= 2
    if ppq > 32767:
        # the MIDI header stores ticks per quarter in 15 bits: such a score has no MIDI image
        o.excluded.append("lcm-of-divisions-exceeds-midi-header-range")
        return o
    trefs = [G.TimeRef(ps) for ps in parts]
    first = min(tr.quarter(0) for tr in trefs)  # <= 0: minus the pickup length
    if first < 0 and anac == "pad_bar":
        b0, bt0 = trefs[0].ref.ts_at(0)
        origin = -Fraction(b0 * 4, bt0)
    else:
        origin = first if first < 0 else Fraction(0)

    def tick(tr, t):
        v = (tr.quarter(t) - origin) * ppq
        return v

    exp_notes = Counter()
    exp_groups = defaultdict(Counter)  # (part index, voice) -> Counter of (on, dur, pitch)
    nonbinary = False
    for pi, (ps, tr) in enumerate(zip(parts, trefs)):
        for (t, dur, pitch, hid, ids) in tr.ref.sounding_notes():
            a, b = tick(tr, t), tick(tr, t + dur)
            if a.denominator != 1 or b.denominator != 1:
                raise AssertionError("reference tick not integral: generator bug")
            voice = [n for n in ps["notes"] if n["id"] == hid][0].get("voice")
            key = (int(a), int(b - a), pitch)
            exp_notes[key] += 1
            exp_groups[(pi, voice)][key] += 1
            qa = tr.quarter(t)
            if qa.denominator & (qa.denominator - 1):
                nonbinary = True
    if not exp_notes:
        o.excluded.append("score-without-notes")
        return o
    o.nontrivial = nonbinary or len(set(all_divs)) >= 2
    o.cls("non-binary-tick-position", nonbinary)
    o.cls("several-division-values", len(set(all_divs)) >= 2)
    o.cls("mode-%d" % mode)
    o.cls("anacrusis-" + anac)
    o.cls("pickup", first < 0)
    o.cls("grace", any(k[1] == 0 for k in exp_notes))
    o.cls("parts-%d" % len(parts))
    o.cls("min-ppq-doubling", spec["min_ppq"] > 0)
    # ---- shapes added by the generator audit (docs/audit/C04.md)
    api = spec.get("api") or {}
    labels = [sorted(set(str(n.get("voice")) for n in ps["notes"])) for ps in parts]
    o.cls("voice-labels-not-1..k", any(l != [str(i) for i in range(1, len(l) + 1)] for l in labels))
    o.cls("voice-none", any(n.get("voice") is None for ps in parts for n in ps["notes"]))
    spans = defaultdict(list)
    for pi, (ps, tr) in enumerate(zip(parts, trefs)):
        for (t, dur, pitch, hid, ids) in tr.ref.sounding_notes():
            if dur > 0:
                voice = [n for n in ps["notes"] if n["id"] == hid][0].get("voice")
                spans[pitch].append((tr.quarter(t), tr.quarter(t + dur), pi, voice))
    touching = [(x, y) for lst in spans.values() for x in lst for y in lst if x[1] == y[0] and x[2:] != y[2:]]
    o.cls("equal-pitch-touching-across-voices", bool(touching))
    o.cls("equal-pitch-touching-across-parts", any(x[2] != y[2] for x, y in touching))
    overlapping = [(x, y) for lst in spans.values() for x in lst for y in lst if x is not y and x[0] < y[1] and y[0] < x[1] and x[2:] != y[2:]]
    o.cls("equal-pitch-overlapping-on-other-channel-or-track", bool(overlapping))

    def depth(nodes):
        return max([1 + depth(x["children"]) for x in nodes or [] if isinstance(x, dict)] + [0])

    o.cls("nested-groups", depth(spec["groups"]) >= 2)
    o.cls("part-without-notes", any(not [k for k in exp_groups if k[0] == pi] for pi in range(len(parts))))
    o.cls("part-ids-not-unique", len(set(ps["id"] for ps in parts)) < len(parts))
    bars0 = set(m[0] for m in parts[0]["measures"])
    o.cls("tempo-inside-measure", any(t[0] not in bars0 for t in parts[0].get("tempos", [])))
    o.cls("division-change-inside-measure", any(t not in set(m[0] for m in ps["measures"]) for ps in parts for t, _ in ps["divs"][1:]))
    o.cls("irregular-measure", any(
        (trefs[0].ref.quarter(m[1]) - trefs[0].ref.quarter(m[0])) != Fraction(trefs[0].ref.ts_at(m[0])[0] * 4, trefs[0].ref.ts_at(m[0])[1])
        for m in parts[0]["measures"][1:]))
    o.cls("save-arg-" + api.get("arg", "score"))
    o.cls("save-out-" + api.get("out", "path"))
    o.cls("load-src-" + api.get("src", "path"))
    o.cls("load-options", api.get("assign_note_ids") is False or api.get("quantization_unit") is not None)

    with tempfile.TemporaryDirectory() as tmp:
        path = os.path.join(tmp, "s.mid")
        arg = api.get("arg", "score")
        data = score if arg == "score" else list(score.part_structure) if arg == "partlist" else pobjs[0] if arg == "part" else score.part_structure[0]
        kw = dict(part_voice_assign_mode=mode, velocity=spec["velocity"], anacrusis_behavior=anac, minimum_ppq=spec["min_ppq"])
        mf_obj = None
        if api.get("out") == "file":
            with open(path, "wb") as fh:
                call(save_score_midi, data, fh, **kw)
        elif api.get("out") == "return":
            mf_obj = call(save_score_midi, data, None, **kw)
            if not isinstance(mf_obj, mido.MidiFile):
                o.add("no-midifile-returned-without-out", got=type(mf_obj).__name__)
                return o
            mf_obj.save(path)
        else:
            call(save_score_midi, data, path, **kw)
        tpb, notes, metas = read_midi(path)
        # ---- oracle A: direct reading ------------------------------------------------------
        if tpb != ppq:
            o.add("ticks-per-beat-wrong", got=tpb, expected=ppq, divs=sorted(set(all_divs)), min_ppq=spec["min_ppq"])
            return o
        dangling = [n for n in notes if n[3] is None or n[4] is None]
        if dangling:
            o.add("unpaired-note-events-in-file", n=len(dangling))
        got = Counter((n[3], n[4] - n[3], n[2]) for n in notes if n[3] is not None and n[4] is not None)
        if got != exp_notes:
            miss = sorted((exp_notes - got).elements())[:4]
            extra = sorted((got - exp_notes).elements())[:4]
            off_by_one = bool(miss) and len(miss) == len(extra) and all(abs(a[0] - b[0]) <= 1 and abs((a[0] + a[1]) - (b[0] + b[1])) <= 1 and a[2] == b[2] for a, b in zip(miss, extra))
            o.add("file-notes-tick-off-by-one" if off_by_one else "file-notes-differ", missing=miss, extra=extra, ppq=ppq, anacrusis=anac, mode=mode)
        vels = set(n[5] for n in notes if n[5] is not None)
        if vels and vels != {spec["velocity"]}:
            o.add("requested-velocity-not-used", got=sorted(vels), expected=spec["velocity"])
        # track / channel assignment as documented
        exp_tc = expected_track_channel(parts, spec["groups"], mode)
        got_tc = defaultdict(Counter)
        for n in notes:
            if n[3] is not None and n[4] is not None:
                got_tc[(n[0], n[1])][(n[3], n[4] - n[3], n[2])] += 1
        exp_by_tc = defaultdict(Counter)
        for (pi, voice), cnt in exp_groups.items():
            exp_by_tc[exp_tc[(pi, voice)]].update(cnt)
        if got == exp_notes and dict(got_tc) != dict(exp_by_tc):
            o.add("track-channel-assignment-wrong", mode=mode, got=sorted(got_tc), expected=sorted(exp_by_tc))
        # meta events
        exp_tempo = {}
        for (t, bpm, unit) in parts[0].get("tempos", []):
            q_bpm = Fraction(bpm) * UNIT_Q[unit]
            exp_tempo[int(tick(trefs[0], t))] = int(round(Fraction(60 * 10 ** 6) / q_bpm))
        if not exp_tempo:
            exp_tempo = {0: 500000}
        got_tempo = {}
        for (ti, t, ty, payload) in metas:
            if ty == "tempo":
                got_tempo[t] = payload
                if ti != 0:
                    o.add("tempo-event-outside-first-track", track=ti)
        if set(got_tempo) != set(exp_tempo) or any(abs(got_tempo[k] - exp_tempo[k]) > 1 for k in exp_tempo):
            o.add("tempo-events-wrong", got=got_tempo, expected=exp_tempo)
        part_tracks = defaultdict(set)
        for (pi, voice), (trk, ch) in exp_tc.items():
            if exp_groups.get((pi, voice)):
                part_tracks[pi].add(trk)
        exp_meta = Counter()
        for pi, (ps, tr) in enumerate(zip(parts, trefs)):
            for trk in part_tracks[pi]:
                for (t, f, m) in ps["keysigs"]:
                    exp_meta[(trk, int(tick(tr, t)), "ks", G_key(f, m == "minor"))] += 1
                if anac != "time_sig_change":
                    for i, (t, b, bt) in enumerate(sorted(ps["timesigs"])):
                        tk = 0 if (anac == "pad_bar" and i == 0) else int(tick(tr, t))
                        exp_meta[(trk, tk, "ts", (b, bt))] += 1
        got_meta = Counter((ti, t, ty, payload) for (ti, t, ty, payload) in metas if ty == "ks" or (ty == "ts" and anac != "time_sig_change"))
        if got_meta != exp_meta:
            o.add("signature-meta-events-wrong", missing=sorted((exp_meta - got_meta).elements())[:4], extra=sorted((got_meta - exp_meta).elements())[:4], anacrusis=anac, mode=mode)

        # ---- oracle B: through the importers -------------------------------------------------
        if o.discs:
            return o  # the file itself is already wrong; importer results would only repeat it
        perf = call(load_performance_midi, path)
        # the loader records the file's own tick positions on every note
        gotp = Counter(
            (int(n["note_on_tick"]), int(n["note_off_tick"]) - int(n["note_on_tick"]), int(n["midi_pitch"]))
            for pp in perf.performedparts
            for n in pp.notes
        )
        if gotp != exp_notes:
            o.add("performance-import-notes-differ", missing=sorted((exp_notes - gotp).elements())[:4], extra=sorted((gotp - exp_notes).elements())[:4])
        if any(ty == "ts" and payload[0] == 0 for (_, _, ty, payload) in metas):
            # anacrusis_behavior="time_sig_change" writes int(measure length in beats) as numerator
            # (documented TODO for non-integer lengths); a 0/x signature is not a readable score file
            o.excluded.append("time-sig-change-wrote-zero-beat-signature")
            return o
        src = path
        if api.get("src") == "object":
            src = mf_obj if mf_obj is not None else mido.MidiFile(path)
        lkw = {}
        if api.get("assign_note_ids") is False:
            lkw["assign_note_ids"] = False
        if api.get("quantization_unit") is not None:
            lkw["quantization_unit"] = api["quantization_unit"]  # one tick: every time is a multiple already
        sc2 = call(load_score_midi, src, part_voice_assign_mode=mode, **lkw)
        got_groups = defaultdict(Counter)
        gots = Counter()
        for pj, p2 in enumerate(sc2.parts):
            d2 = int(p2._quarter_durations[0])
            if d2 != ppq:
                o.add("imported-score-divisions-differ-from-file", got=d2, expected=ppq)
                return o
            na = call(p2.note_array)
            for a, d, p, v in zip(na["onset_div"], na["duration_div"], na["pitch"], na["voice"]):
                key = (int(a), int(d), int(p))
                gots[key] += 1
                got_groups[(pj, int(v))][key] += 1
        if gots != exp_notes:
            o.add("score-import-notes-differ", mode=mode, missing=sorted((exp_notes - gots).elements())[:4], extra=sorted((gots - exp_notes).elements())[:4])
            return o
        # grouping as the mode documents (labels are not compared, only the partition)
        exp_part = expected_partition(exp_groups, parts, spec["groups"], mode)
        if exp_part is not None:
            if mode in (1, 3):
                merged = defaultdict(Counter)
                for (pj, v), cnt in got_groups.items():
                    merged[pj].update(cnt)
                got_part = sorted(sorted(c.items()) for c in merged.values())
            else:
                got_part = sorted(sorted(c.items()) for c in got_groups.values())
            if got_part != exp_part:
                o.add("import-grouping-differs-mode-%d" % mode, n_got=len(got_part), n_expected=len(exp_part))
    return o


def _group_of(groups, nparts):
    """part index -> group key (index of the top-level group, also for parts in nested groups, or ('solo', part index))."""
    res = {}
    if not groups:
        return {i: ("solo", i) for i in range(nparts)}

    def leaves(node):
        if isinstance(node, int):
            return [node]
        return [x for c in node["children"] for x in leaves(c)]

    for gi, g in enumerate(groups):
        if isinstance(g, int):
            res[g] = ("solo", g)
        else:
            for c in leaves(g):
                res[c] = ("group", gi)
    return res


def expected_track_channel(parts, groups, mode):
    """(part index, voice) -> (track, channel0) following the documented modes, in order of first
    appearance of notes (parts in score order, notes in time order)."""
    grp = _group_of(groups, len(parts))
    order = []
    for pi, ps in enumerate(parts):
        ref = G.PartRef(ps)
        seen = []
        for (t, dur, pitch, hid, ids) in sorted(ref.sounding_notes(), key=lambda x: x[0]):
            v = [n for n in ps["notes"] if n["id"] == hid][0].get("voice")
            if v not in seen:
                seen.append(v)
        # the exporter visits notes in timeline order; notes starting together keep insertion order
        first_seen = []
        for n in sorted([n for n in ps["notes"] if n["kind"] in ("note", "grace") and not n.get("tie_prev")], key=lambda n: n["t"]):
            if n.get("voice") not in first_seen:
                first_seen.append(n.get("voice"))
        for v in first_seen:
            order.append((pi, v))
    res = {}
    tr_h, ch_h = {}, {}
    for (pi, v) in order:
        if mode == 0:
            trk = tr_h.setdefault(pi, len(tr_h))
            c1 = ch_h.setdefault(pi, {})
            ch = c1.setdefault(v, len(c1) + 1)
        elif mode == 1:
            trk = tr_h.setdefault(grp[pi], len(tr_h))
            c1 = ch_h.setdefault(grp[pi], {})
            ch = c1.setdefault(pi, len(c1) + 1)
        elif mode == 2:
            trk = 0
            ch = ch_h.setdefault(pi, len(ch_h) + 1)
        elif mode == 3:
            trk = tr_h.setdefault(pi, len(tr_h))
            ch = 1
        elif mode == 4:
            trk, ch = 0, 1
        else:
            trk = tr_h.setdefault((pi, v), len(tr_h))
            ch = 1
        res[(pi, v)] = (trk, ch)
    return res


def expected_partition(exp_groups, parts, groups, mode):
    if mode in (2, 4):
        return None
    classes = defaultdict(Counter)
    for (pi, v), cnt in exp_groups.items():
        if mode in (0, 5):
            classes[(pi, v)].update(cnt)
        elif mode in (1, 3):
            classes[pi].update(cnt)
    return sorted(sorted(c.items()) for c in classes.values() if c)


def known_grace_same_voice_order(spec, d):
    return False


def _touching_in_one_channel(spec):
    """MIDI pitches p such that a note of pitch p ends exactly where a note of pitch p of another (part, voice)
    pair starts, and both pairs are written to the same track and channel under the mode of the case."""
    parts = spec["parts"]
    exp_tc = expected_track_channel(parts, spec["groups"], spec["mode"])
    spans = defaultdict(list)
    for pi, ps in enumerate(parts):
        tr = G.TimeRef(ps)
        for (t, dur, pitch, hid, ids) in tr.ref.sounding_notes():
            if dur > 0:
                voice = [n for n in ps["notes"] if n["id"] == hid][0].get("voice")
                spans[pitch].append((tr.quarter(t), tr.quarter(t + dur), (pi, voice)))
    res = set()
    for pitch, lst in spans.items():
        for x in lst:
            for y in lst:
                if x[1] == y[0] and x[2] != y[2] and exp_tc.get(x[2]) == exp_tc.get(y[2]):
                    res.add(pitch)
    return res


def known_note_on_before_note_off(spec, d):
    """The exporter writes the voices that share a track one after the other without ordering the events of one
    tick: the note on of a note can precede the note off of a note of the same pitch and channel that ends there;
    both importers then lose one note and read the other with length zero."""
    if d.kind not in ("performance-import-notes-differ", "score-import-notes-differ"):
        return False
    pitches = _touching_in_one_channel(spec)
    det = d["detail"]
    return bool(pitches) and all(x[2] in pitches for x in det["missing"] + det["extra"])


SUBCHECKS = [
    SubCheck(
        "score_midi_roundtrip",
        oracle,
        strategy=lambda tier: score_spec(tier),
        budget={"quick": 200, "thorough": 4000},
        rule="generated scores (voice labels any numbers or None, equal pitches that touch across voices and parts, any nesting of part groups, parts without notes, division changes inside measures, irregular measures, tempo marks inside measures, every documented argument / output / input kind of save_score_midi and load_score_midi; 1-3 parts sharing the metrical structure, divisions differing per part and inside a part incl. 3/5/6/7/12, tuplets, pickups, grace notes, tie chains, part groups, tempo marks) x 6 part_voice_assign_modes x 3 anacrusis behaviours x minimum_ppq x velocity; the written file is read by an independent tick interpreter and re-imported; non-trivial = a tick position that is not a binary fraction of a quarter or >= 2 division values",
        known={"note-on-before-note-off-of-equal-pitch-at-one-tick": known_note_on_before_note_off},
        floors={"pickup": 0.05, "grace": 0.03, "non-binary-tick-position": 0.1,
                # shapes added by the generator audit (docs/audit/C04.md)
                "equal-pitch-touching-across-voices": 0.05, "equal-pitch-overlapping-on-other-channel-or-track": 0.03, "equal-pitch-touching-across-parts": 0.03, "voice-labels-not-1..k": 0.15, "voice-none": 0.08,
                "nested-groups": 0.015, "part-without-notes": 0.04, "part-ids-not-unique": 0.05, "tempo-inside-measure": 0.04,
                "division-change-inside-measure": 0.03, "irregular-measure": 0.01, "save-arg-partlist": 0.02, "save-arg-part": 0.015,
                "save-out-file": 0.03, "save-out-return": 0.03, "load-src-object": 0.04, "load-options": 0.07},
    ),
]
