"""C03 - MusicXML export then import returns the same score; re-export is a fixpoint.

Three oracles per generated score:
 A. an independent reading of the written bytes (xml.etree walk: divisions, backup/forward,
    chords, ties, grace notes) denotes exactly the abstract score's sounding notes;
 B. the semantic fingerprint of load_musicxml(save_musicxml(score)) equals that of the score
    (differences reported per field as discrepancy kinds);
 C. save(load(bytes)) == bytes.
"""

import io
import re
import xml.etree.ElementTree as ET
from collections import Counter, defaultdict
from fractions import Fraction

from hypothesis import strategies as st

import partitura.score as S
from partitura.directions import parse_direction
from partitura.io.exportmusicxml import save_musicxml
from partitura.io.importmusicxml import load_musicxml
from pbt.core import Outcome, SubCheck, SutRaised, call
from pbt.gen import scorespec as G
from pbt.gen.build import build_part, _structure

PROPERTY = "C03"
ENGINES = ["hypothesis"]
ASSUMPTIONS = [
    "every note lies inside a measure; measure numbers are 1..n and names are strings; ids are unique and do not start with a digit",
    "concurrently tied notes of one part have distinct pitches (MusicXML pairs ties by pitch)",
    "fields compared up to documented equivalences: alter None == 0, staff None == 1 (notes and directions), symbolic durations as their effective value (the library estimates one when none is stored), clef octave change None == 0, symbolic duration dots missing == 0, ending numbers as strings",
    "objects the importer adds on its own (Page, System) and beams are not part of the comparison",
    "tempo marks are compared as integer quarter-notes-per-minute (that is what <sound tempo> stores); generated tempi are integral in quarters",
    "direction texts are drawn from a small vocabulary and built through parse_direction, so only objects the importer itself would create are generated",
]

PROFILE = G.profile(max_bars=3, max_voices=2, max_staves=2, midbar_changes=True, irregular=True, clefs=True, key_changes=True,
                    missing_voice_staff=False, unique_pitch_per_time=True, alters=(-2, -1, 0, 0, 0, 1, 2))
ARTICULATIONS = ["accent", "staccato", "tenuto", "strong-accent", "staccatissimo"]
DYNAMICS = ["p", "f", "mf", "pp", "sfz", "fp"]
WORDS = ["dolce", "cresc.", "rit.", "Allegro"]


# ------------------------------------------------------------------ generator
@st.composite
def decorate(draw, ps, prefix):
    ps = dict(ps)
    notes = [dict(n) for n in ps["notes"]]
    ps["notes"] = notes
    pitched = [n for n in notes if n["kind"] == "note"]
    for n in notes:
        if n["kind"] in ("note", "grace") and draw(st.integers(0, 5)) == 0:
            n["art"] = sorted(draw(st.lists(st.sampled_from(ARTICULATIONS), min_size=1, max_size=2, unique=True)))
        if n["kind"] == "note" and draw(st.integers(0, 6)) == 0:
            n["stem"] = draw(st.sampled_from(["up", "down"]))
        if n["kind"] == "note" and draw(st.integers(0, 9)) == 0:
            n["fermata"] = True
        if n["kind"] == "note" and draw(st.integers(0, 9)) == 0:
            n["fingering"] = draw(st.integers(1, 5))
        is_main_of_grace = any(g.get("grace_next") == n["id"] for g in notes)
        # (the importer links grace notes to pitched main notes only: main notes stay pitched)
        if n["kind"] == "note" and not n.get("tie_next") and not n.get("tie_prev") and not is_main_of_grace and draw(st.integers(0, 14)) == 0:
            n["kind"] = "unpitched"
    # chords whose members differ in duration (one member shortened)
    by_slot = defaultdict(list)
    for n in notes:
        if n["kind"] == "note" and not n.get("tie_next") and not n.get("tie_prev") and not (n.get("sym") or {}).get("actual_notes"):
            by_slot[(n["t"], n["voice"], n["dur"])].append(n)
    for key, members in sorted(by_slot.items()):
        if len(members) >= 2 and members[0]["dur"] % 2 == 0 and draw(st.integers(0, 3)) == 0:
            m = members[-1]
            if not any(g.get("grace_next") == m["id"] for g in notes):
                m["dur"] = m["dur"] // 2
                m["sym"] = None
    # slurs between pitched notes of one voice (nested / overlapping allowed)
    slurs = []
    byvoice = defaultdict(list)
    for n in notes:
        if n["kind"] in ("note",):
            byvoice[n["voice"]].append(n)
    for v, vn in byvoice.items():
        vn = sorted(vn, key=lambda n: n["t"])
        k = draw(st.integers(0, 3)) if len(vn) >= 2 else 0
        for _ in range(k):
            i = draw(st.integers(0, len(vn) - 2))
            j = draw(st.integers(i + 1, len(vn) - 1))
            if vn[j]["t"] > vn[i]["t"] and [vn[i]["id"], vn[j]["id"]] not in slurs:
                slurs.append([vn[i]["id"], vn[j]["id"]])
    ps["slurs"] = slurs
    bars = [m[0] for m in ps["measures"]]
    tempos = []
    for b in bars:
        if draw(st.integers(0, 4)) == 0:
            tempos.append([b, draw(st.sampled_from([40, 60, 72, 96, 120, 144])), draw(st.sampled_from([None, "q", "h"]))])
    ps["tempos"] = tempos
    onsets = sorted(set(n["t"] for n in notes))
    directions = []
    nd = draw(st.integers(0, 3))
    for _ in range(nd):
        kind = draw(st.sampled_from(["dyn", "dyn", "wedge", "words", "pedal", "dashes"]))
        t = draw(st.sampled_from(onsets)) if onsets else 0
        staff = draw(st.sampled_from([None, None, 1, 2]))
        if kind == "dyn":
            directions.append({"k": "dyn", "text": draw(st.sampled_from(DYNAMICS)), "t": t, "staff": staff})
        elif kind == "wedge":
            later = [x for x in onsets if x > t] + [ps["end"]]
            directions.append({"k": "wedge", "text": draw(st.sampled_from(["crescendo", "diminuendo"])), "t": t, "end": draw(st.sampled_from(later)), "staff": None})
        elif kind == "pedal":
            later = [x for x in onsets if x > t] + [ps["end"]]
            e = draw(st.sampled_from(later))
            # (one pedal: MusicXML pedal marks as written carry no number, spans of one part do not overlap)
            if not any(x["k"] == "pedal" and x["t"] < e and t < x["end"] for x in directions):
                directions.append({"k": "pedal", "line": draw(st.booleans()), "t": t, "end": e, "staff": staff})
        elif kind == "dashes":
            later = [x for x in onsets if x > t] + [ps["end"]]
            directions.append({"k": "dashes", "text": draw(st.sampled_from(["cresc.", "dim.", "rit.", "accel."])), "t": t, "end": draw(st.sampled_from(later)), "staff": None})
        else:
            directions.append({"k": "words", "text": draw(st.sampled_from(WORDS)), "t": t, "staff": None})
    ps["directions"] = directions
    # repeats / endings on bar lines
    repeats, endings = [], []
    if len(bars) >= 2 and draw(st.integers(0, 3)) == 0:
        i = draw(st.integers(0, len(bars) - 1))
        j = draw(st.integers(i, len(bars) - 1))
        repeats.append([bars[i], ps["measures"][j][1]])
        if j + 1 < len(bars) and j > i and draw(st.booleans()):
            endings.append([ps["measures"][j][0], ps["measures"][j][1], 1])
            endings.append([ps["measures"][j + 1][0], ps["measures"][j + 1][1], 2])
    ps["repeats"], ps["endings"] = repeats, endings
    ps["abbr"] = draw(st.sampled_from([None, "Pno.", "Vl."]))
    _untie_ambiguous(ps)
    return ps


def _untie_ambiguous(ps):
    """MusicXML pairs ties by pitch in document order (voice after voice inside a measure): keep at
    most one tie link per pitch among links whose measure ranges intersect."""
    byid = {n["id"]: n for n in ps["notes"]}

    def mindex(t):
        for i, m in enumerate(ps["measures"]):
            if m[0] <= t < m[1]:
                return i
        return len(ps["measures"]) - 1

    kept = []
    for n in sorted(ps["notes"], key=lambda n: n["t"]):
        if not n.get("tie_next") or n["kind"] != "note":
            continue
        b = byid[n["tie_next"]]
        pitch = G.midi_pitch(n["step"], n["alter"], n["octave"])
        span = (mindex(n["t"]), mindex(b["t"]))
        if any(p == pitch and not (span[1] < s0 or s1 < span[0]) for (p, s0, s1) in kept):
            del n["tie_next"]
            del b["tie_prev"]
        else:
            kept.append((pitch, span[0], span[1]))


@st.composite
def group_tree(draw, n):
    """Any nesting of part groups over parts 0..n-1 in order: groups before, between and after plain
    parts, sibling groups, groups inside groups (every group gets its own number)."""
    counter = [0]

    def level(lo, hi, depth):
        out = []
        i = lo
        while i < hi:
            j = draw(st.integers(i + 1, hi))
            # a group over parts i..j-1, or the plain part i
            if depth < 3 and (j - i >= 2 or draw(st.integers(0, 3)) == 0) and not (depth > 0 and (i, j) == (lo, hi) and draw(st.booleans())):
                counter[0] += 1
                node = {"symbol": draw(st.sampled_from(["bracket", "brace", "line", None])), "name": "G%d" % counter[0], "number": counter[0]}
                node["children"] = level(i, j, depth + 1)
                out.append(node)
                i = j
            else:
                out.append(i)
                i += 1
        return out

    tree = level(0, n, 0)
    return None if all(isinstance(x, int) for x in tree) else tree


@st.composite
def score_spec(draw, tier):
    prof = dict(PROFILE)
    if tier == "thorough":
        prof["max_bars"] = 5
        prof["max_voices"] = 3
    n = draw(st.sampled_from([1, 1, 2, 2, 3, 3, 4]))
    parts = []
    for i in range(n):
        ps = draw(G.part_spec(prof, pid="P%d" % (i + 1), note_prefix="p%dn" % i))
        parts.append(draw(decorate(ps, "p%d" % i)))
    groups = None
    if n >= 2 and draw(st.integers(0, 3)) > 0:
        groups = draw(group_tree(n))
    return {"parts": parts, "groups": groups}


def build(sspec):
    parts, objs = [], []
    for ps in sspec["parts"]:
        p, o = build_part(ps, with_end_times=False)
        for n in ps["notes"]:
            if n.get("fingering") is not None:
                o[n["id"]].technical = [S.Fingering(n["fingering"])]
        for d in ps.get("directions", []):
            if d["k"] == "dyn":
                from partitura.io.importmusicxml import DYN_DIRECTIONS

                ob = DYN_DIRECTIONS[d["text"]](d["text"], staff=d["staff"])
                p.add(ob, d["t"])
            elif d["k"] == "wedge":
                cls = S.IncreasingLoudnessDirection if d["text"] == "crescendo" else S.DecreasingLoudnessDirection
                p.add(cls(d["text"], wedge=True), d["t"], d["end"])
            elif d["k"] == "pedal":
                p.add(S.SustainPedalDirection(line=d["line"], staff=d["staff"]), d["t"], d["end"])
            elif d["k"] == "dashes":
                for ob in parse_direction(d["text"]):
                    p.add(ob, d["t"], d["end"] if isinstance(ob, S.DynamicDirection) else None)
            else:
                for ob in parse_direction(d["text"]):
                    p.add(ob, d["t"])
        for (a, b) in ps.get("repeats", []):
            p.add(S.Repeat(), a, b)
        for (a, b, num) in ps.get("endings", []):
            p.add(S.Ending(num), a, b)
        S.set_end_times([p])
        parts.append(p)
        objs.append(o)
    structure = _structure(sspec.get("groups"), parts) if sspec.get("groups") else list(parts)
    return S.Score(partlist=structure, id="s"), parts


# ------------------------------------------------------------------ independent reading of the file
def read_sounding_notes(xml_bytes):
    """{part id: Counter((onset_q, dur_q, midi)))} from the bytes alone."""
    root = ET.fromstring(xml_bytes)
    base = {"C": 0, "D": 2, "E": 4, "F": 5, "G": 7, "A": 9, "B": 11}
    res = {}
    for part in root.findall("part"):
        pos = Fraction(0)
        d = 1
        open_ties = {}
        out = []
        for measure in part.findall("measure"):
            mstart = pos
            mmax = pos
            last_onset = pos
            for e in measure:
                if e.tag == "attributes":
                    dv = e.find("divisions")
                    if dv is not None:
                        d = int(dv.text)
                elif e.tag == "backup":
                    pos -= Fraction(int(e.find("duration").text), d)
                elif e.tag == "forward":
                    pos += Fraction(int(e.find("duration").text), d)
                    mmax = max(mmax, pos)
                elif e.tag == "note":
                    grace = e.find("grace") is not None
                    dur = Fraction(0) if grace else Fraction(int(e.find("duration").text), d)
                    if e.find("chord") is not None:
                        onset = last_onset
                    else:
                        onset = pos
                    pitch = e.find("pitch")
                    if pitch is not None:
                        mp = 12 * (int(pitch.find("octave").text) + 1) + base[pitch.find("step").text]
                        if pitch.find("alter") is not None:
                            mp += int(pitch.find("alter").text)
                        ties = set(t.get("type") for t in e.findall("tie"))
                        out.append([onset, dur, mp, "start" in ties, "stop" in ties])
                    if e.find("chord") is None:
                        if not grace:
                            last_onset = onset
                            pos = onset + dur
                        else:
                            last_onset = onset
                    mmax = max(mmax, pos)
            pos = mmax
        # ties are joined by time (a tie links a note to the note of the same pitch that starts
        # where it ends), independently of the order in which voices are written
        out.sort(key=lambda r: (r[0], r[1]))
        merged = []
        for r in out:
            if r[4]:
                prev = [m for m in merged if m[2] == r[2] and m[3] and m[0] + m[1] == r[0]]
                if prev:
                    prev[0][1] += r[1]
                    prev[0][3] = r[3]
                    continue
            merged.append(list(r))
        out = merged
        res[part.get("id")] = Counter((r[0], r[1], r[2]) for r in out)
    return res


# ------------------------------------------------------------------ semantic fingerprint
def _sym(sd):
    if not sd:
        return None
    return (sd.get("type"), sd.get("dots") or 0, sd.get("actual_notes"), sd.get("normal_notes"))


def fingerprint(score):
    fp = {}

    def tree(nodes):
        out = []
        for x in nodes:
            if isinstance(x, S.PartGroup):
                out.append(("group", x.group_symbol, x.group_name, str(x.number) if x.number is not None else None, tree(x.children)))
            else:
                out.append(("part", x.id))
        return out

    fp["structure"] = tree(score.part_structure)
    for p in score.parts:
        d = {}
        d["header"] = (p.id, p.part_name or None, p.part_abbreviation or None)
        d["divisions"] = [(int(a), int(b)) for a, b in p.quarter_durations()]
        d["measures"] = [(m.start.t, m.end.t if m.end else None, m.number, m.name) for m in p.iter_all(S.Measure)]
        d["time-signatures"] = [(o.start.t, o.beats, o.beat_type) for o in p.iter_all(S.TimeSignature)]
        d["key-signatures"] = [(o.start.t, o.fifths, o.mode) for o in p.iter_all(S.KeySignature)]
        d["clefs"] = sorted(((o.start.t, o.staff or 1, o.sign, o.line, o.octave_change or 0) for o in p.iter_all(S.Clef)), key=repr)
        notes = {}
        for n in p.iter_all(S.GenericNote, include_subclasses=True):
            rec = {
                "cls": type(n).__name__,
                "t": n.start.t,
                "end": n.end.t if n.end else None,
                "voice": n.voice,
                "staff": n.staff or 1,
                "sym": _sym(n.symbolic_duration),  # effective value (estimated by the library when not stored)
                "tie_next": n.tie_next.id if getattr(n, "tie_next", None) is not None else None,
                "tie_prev": n.tie_prev.id if getattr(n, "tie_prev", None) is not None else None,
                "art": sorted(n.articulations) if n.articulations else [],
                "stem": n.stem_direction,
                "fermata": n.fermata is not None,
                "fingering": [t.fingering for t in (n.technical or []) if isinstance(t, S.Fingering)],
            }
            if isinstance(n, (S.Note, S.UnpitchedNote)):
                rec["pitch"] = (n.step, (getattr(n, "alter", None) or 0), n.octave)
            if isinstance(n, S.GraceNote):
                # (the kind of grace note is not among the fields the property lists; plain and
                # appoggiatura grace notes are the same <grace/> element)
                # which member of a chord is "the" main note is arbitrary: the next element is
                # identified by its kind and position
                nxt = n.grace_next
                rec["grace"] = ((type(nxt).__name__, nxt.start.t, nxt.voice) if nxt is not None else None, n.grace_prev.id if n.grace_prev is not None else None)
            notes[n.id] = rec
        d["notes"] = notes
        d["slurs"] = sorted(((s.start_note.id if s.start_note else None, s.end_note.id if s.end_note else None) for s in p.iter_all(S.Slur)), key=repr)
        d["tuplets"] = sorted(((t.start_note.id if t.start_note else None, t.end_note.id if t.end_note else None, t.actual_notes, t.normal_notes, t.actual_type, t.normal_type) for t in p.iter_all(S.Tuplet)), key=repr)
        d["tempos"] = sorted((o.start.t, int(round(float(Fraction(o.bpm) * {None: 1, "q": 1, "h": 2, "e": Fraction(1, 2), "q.": Fraction(3, 2)}[o.unit])))) for o in p.iter_all(S.Tempo))
        dirs = []
        for o in p.iter_all(S.Direction, include_subclasses=True):
            dirs.append((type(o).__name__, o.text, o.start.t, o.end.t if o.end is not None else None, o.staff or 1, getattr(o, "line", None)))
        for o in p.iter_all(S.Words):
            dirs.append(("Words", o.text, o.start.t, None, o.staff or 1))
        d["directions"] = sorted(dirs, key=repr)
        d["repeats"] = sorted(((o.start.t if o.start else None, o.end.t if o.end else None) for o in p.iter_all(S.Repeat)), key=repr)
        d["endings"] = sorted(((o.start.t if o.start else None, o.end.t if o.end else None, str(o.number)) for o in p.iter_all(S.Ending)), key=repr)
        d["barline-fermatas"] = sorted(((o.start.t, o.ref) for o in p.iter_all(S.Fermata) if not isinstance(o.ref, S.GenericNote)), key=repr)
        fp[p.id] = d
    return fp


NOTE_FIELDS = ["cls", "t", "end", "pitch", "voice", "staff", "sym", "tie_next", "tie_prev", "art", "stem", "fermata", "fingering", "grace"]


def compare_fingerprints(o, a, b):
    if a["structure"] != b["structure"]:
        o.add("part-structure-differs", original=a["structure"], reloaded=b["structure"])
    for pid in a:
        if pid == "structure":
            continue
        if pid not in b:
            o.add("part-lost", part=pid)
            continue
        A, B = a[pid], b[pid]
        for key in A:
            if key == "notes":
                continue
            if A[key] != B[key]:
                la, lb = A[key], B[key]
                only_a = [x for x in la if x not in lb][:3] if isinstance(la, list) else la
                only_b = [x for x in lb if x not in la][:3] if isinstance(lb, list) else lb
                o.add(key + "-differ", part=pid, only_in_original=only_a, only_in_reloaded=only_b)
        na, nb = A["notes"], B["notes"]
        if set(na) != set(nb):
            o.add("note-ids-differ", part=pid, lost=sorted(set(na) - set(nb))[:4], new=sorted(set(nb) - set(na))[:4])
            continue
        for nid in na:
            for f in NOTE_FIELDS:
                if na[nid].get(f) != nb[nid].get(f):
                    o.add("note-%s-changed" % f.replace("_", "-"), part=pid, id=nid, original=na[nid].get(f), reloaded=nb[nid].get(f), cls=na[nid]["cls"])
                    break


# ------------------------------------------------------------------ oracle
def oracle(spec):
    o = Outcome()
    score, parts = build(spec)
    ps_list = spec["parts"]
    feats = Counter()
    for ps in ps_list:
        voices = set(n["voice"] for n in ps["notes"])
        staves = set(n["staff"] for n in ps["notes"])
        bars = set(m[0] for m in ps["measures"]) | set(m[1] for m in ps["measures"])
        tie_over_bar = any(n.get("tie_next") and (n["t"] + n["dur"]) in bars for n in ps["notes"])
        midbar = any(t not in bars for t, _ in ps["divs"][1:]) or any(r[0] not in bars for r in ps["timesigs"] + ps["keysigs"] + ps["clefs"])
        feats["multi-voice-or-staff"] += len(voices) > 1 or len(staves) > 1
        feats["tie-over-barline"] += tie_over_bar
        feats["mid-bar-change"] += midbar
        feats["slurs>=2"] += len(ps.get("slurs", [])) >= 2
        feats["tuplets"] += bool(ps.get("tuplets"))
        feats["grace"] += any(n["kind"] == "grace" for n in ps["notes"])
        feats["tempo"] += bool(ps.get("tempos"))
        feats["directions"] += bool(ps.get("directions"))
        feats["repeat"] += bool(ps.get("repeats"))
        bars_ = [m[0] for m in ps["measures"]]
        feats["pedal"] += any(d["k"] == "pedal" for d in ps.get("directions", []))
        feats["range-direction-over-barline"] += any(d.get("end") is not None and any(d["t"] < b < d["end"] for b in bars_) for d in ps.get("directions", []))
        feats["unpitched"] += any(n["kind"] == "unpitched" for n in ps["notes"])
        slots = defaultdict(set)
        for n in ps["notes"]:
            if n["kind"] == "note":
                slots[(n["t"], n["voice"])].add(n["dur"])
        feats["unequal-chord"] += any(len(v) > 1 for v in slots.values())
    for k, v in feats.items():
        o.cls(k, v > 0)
    o.cls("part-groups", bool(spec.get("groups")))
    o.cls("parts>=2", len(ps_list) >= 2)
    o.nontrivial = feats["multi-voice-or-staff"] > 0 or feats["tie-over-barline"] > 0 or feats["mid-bar-change"] > 0

    xml1 = call(save_musicxml, score)
    # ---- A: independent reading ---------------------------------------------------------
    read = read_sounding_notes(xml1)
    for ps in ps_list:
        ref = G.PartRef(ps)
        exp = Counter()
        for (t, dur, pitch, hid, ids) in ref.sounding_notes():
            exp[(ref.quarter(t), ref.quarter(t + dur) - ref.quarter(t), pitch)] += 1
        got = read.get(ps["id"], Counter())
        if got != exp:
            o.add("file-denotes-other-notes", part=ps["id"], missing=[[str(x) for x in k] for k in sorted((exp - got).elements())[:3]],
                  extra=[[str(x) for x in k] for k in sorted((got - exp).elements())[:3]])
    # ---- B: fingerprint after reload -------------------------------------------------------
    fp_a = fingerprint(score)
    score2 = call(load_musicxml, io.BytesIO(xml1))
    fp_b = fingerprint(score2)
    compare_fingerprints(o, fp_a, fp_b)
    # ---- C: byte fixpoint ---------------------------------------------------------------------
    xml2 = call(save_musicxml, score2)
    poly = feats["unequal-chord"] > 0
    if xml2 != xml1 and poly:
        # the exporter re-numbers voices for polyphony inside a voice (known finding), so the
        # reloaded score legitimately differs in voice numbers: only the importer-obtained score
        # is held to the byte fixpoint below
        o.excluded.append("first-round-byte-comparison-with-polyphony-in-voice")
        score3 = call(load_musicxml, io.BytesIO(xml2))
        xml3 = call(save_musicxml, score3)
        if xml3 != xml2:
            o.add("reexport-not-a-fixpoint-after-two-rounds")
    elif xml2 != xml1:
        l1 = xml1.decode().splitlines()
        l2 = xml2.decode().splitlines()
        extra = [x.strip() for x in l2 if x not in l1][:4]
        lost = [x.strip() for x in l1 if x not in l2][:4]
        only_print = bool(extra) and all(re.fullmatch(r'<print new-page="yes" new-system="yes"/>', x) for x in extra) and not lost
        o.add("reexport-adds-first-page-print" if only_print else "reexport-not-byte-identical", extra=extra, lost=lost)
        score3 = call(load_musicxml, io.BytesIO(xml2))
        xml3 = call(save_musicxml, score3)
        if xml3 != xml2:
            o.add("reexport-not-a-fixpoint-after-two-rounds")
    return o


def known_voice(spec, d):
    """The exporter deliberately moves notes that overlap another note of their voice (unequal
    chords, polyphony inside a voice) to a free voice."""
    if d.kind != "note-voice-changed":
        return False
    det = d["detail"]
    return _reassigned(spec, det["part"], det["id"])


def _reassigned(spec, part_id, note_id):
    det = {"part": part_id, "id": note_id}
    for ps in spec["parts"]:
        if ps["id"] != det["part"]:
            continue
        me = [n for n in ps["notes"] if n["id"] == det["id"]]
        if not me:
            return False
        me = me[0]
        for n in ps["notes"]:
            if n is me or n.get("voice") != me.get("voice") or n["kind"] == "grace" or me["kind"] == "grace":
                continue
            overlap = n["t"] < me["t"] + me["dur"] and me["t"] < n["t"] + n["dur"]
            if overlap and (n["t"] != me["t"] or n["dur"] != me["dur"]):
                return True
    return False


def known_print(spec, d):
    return d.kind == "reexport-adds-first-page-print"


SUBCHECKS = [
    SubCheck(
        "roundtrip",
        oracle,
        strategy=lambda tier: score_spec(tier),
        budget={"quick": 120, "thorough": 3000},
        rule="generated scores (1-3 parts, nested part groups, 1-2 staves, 1-3 voices, mid-bar division/signature/clef changes, pickups, irregular bars, tie chains over bar lines, tuplets, grace runs, slurs, articulations, stems, fermatas, fingering, unpitched notes, dynamics, wedges, words with and without dashes, pedal marks, tempo marks, repeats, endings) saved, read by an independent XML walk, re-loaded and re-saved; non-trivial = >=2 voices or staves, a tie over a bar line, or a mid-bar attribute change",
        known={"voice-reassigned-for-polyphony-in-voice": known_voice, "first-page-print-added-on-reexport": known_print},
        floors={"multi-voice-or-staff": 0.2, "tie-over-barline": 0.05, "mid-bar-change": 0.1, "pedal": 0.05, "range-direction-over-barline": 0.03},
    ),
]
