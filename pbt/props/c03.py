"""C03 - MusicXML export then import returns the same score; re-export is a fixpoint.

Three oracles per generated score:
 A. an independent reading of the written bytes (xml.etree walk: divisions, backup/forward,
    chords, ties, grace notes) denotes exactly the abstract score's sounding notes;
 B. the semantic fingerprint of load_musicxml(save_musicxml(score)) equals that of the score
    (differences reported per field as discrepancy kinds);
 C. save(load(bytes)) == bytes.
"""

import io
import os
import re
import tempfile
import warnings
import zipfile
import xml.etree.ElementTree as ET
from collections import Counter, defaultdict
from fractions import Fraction

from hypothesis import strategies as st

import partitura.score as S
from partitura.directions import parse_direction
from partitura.io.exportmusicxml import save_musicxml
from partitura.io.importmusicxml import load_musicxml
from pbt.core import Outcome, SubCheck, SutRaised, call
from pbt.gen import scorespec as G
from pbt.gen.build import build_part, _structure

PROPERTY = "C03"
ENGINES = ["hypothesis"]
ASSUMPTIONS = [
    "every note lies inside a measure; measure numbers are 1..n (names are any string or None); ids are unique and do not start with a digit",
    "no note or rest crosses a bar line or a change of the divisions (silence may); voice numbers are positive (a note without voice is read back as voice 1)",
    "chord symbols are written into the measure stream but their own content is not compared (harmony is not in the property's list)",
    "concurrently tied notes of one part have distinct pitches (MusicXML pairs ties by pitch)",
    "fields compared up to documented equivalences: alter None == 0, staff None == 1 (notes and directions), symbolic durations as their effective value (the library estimates one when none is stored), clef octave change None == 0, symbolic duration dots missing == 0, ending numbers as strings",
    "objects the importer adds on its own (Page, System) and beams are not part of the comparison",
    "tempo marks are compared as integer quarter-notes-per-minute (that is what <sound tempo> stores); generated tempi are integral in quarters",
    "direction texts are drawn from a small vocabulary and built through parse_direction, so only objects the importer itself would create are generated",
]

PROFILE = G.profile(max_bars=3, max_voices=2, max_staves=3, midbar_changes=True, irregular=True, clefs=True, key_changes=True,
                    missing_voice_staff=False, unique_pitch_per_time=True, alters=(-2, -1, 0, 0, 0, 1, 2),
                    clef_line_none=True, tuplet_edge_rests=True)
BASIC_ARTICULATIONS = ["accent", "staccato", "tenuto", "strong-accent", "staccatissimo"]
# every articulation the importer reads (importmusicxml.get_articulations)
ARTICULATIONS = BASIC_ARTICULATIONS + ["detached-legato", "spiccato", "scoop", "plop", "doit", "falloff", "breath-mark", "caesura", "stress",
                                       "unstress", "soft-accent"]
BASIC_DYNAMICS = ["p", "f", "mf", "pp", "sfz", "fp"]
# every dynamics mark the importer maps to a direction class (importmusicxml.DYN_DIRECTIONS)
DYNAMICS = BASIC_DYNAMICS + ["ff", "fff", "ffff", "fffff", "ffffff", "n", "mp", "ppp", "pppp", "ppppp", "pppppp", "pf", "rf", "rfz", "fz", "sf",
                             "sffz", "sfp", "sfzp", "sfpp"]
IMPULSIVE_DYNAMICS = ["fp", "pf", "rf", "rfz", "fz", "sf", "sffz", "sfp", "sfzp", "sfpp", "sfz"]
BASIC_WORDS = ["dolce", "cresc.", "rit.", "Allegro"]
# texts parse_direction turns into other direction classes, into two directions, or leaves as score.Words
WORDS = BASIC_WORDS + ["a tempo", "Tempo I", "poco a poco cresc.", "molto espressivo", "legato", "rinf.", "dim. e rit.", "con brio", "arco",
                       "Violin solo"]
PLAIN_WORDS = ["con brio", "arco", "Violin solo"]
CHORD_SYMBOLS = [["C", "major"], ["G", "dominant"], ["A", "minor"], ["F", None]]


# ------------------------------------------------------------------ generator
def _pitch_of(n):
    return G.midi_pitch(n["step"], n["alter"], n["octave"])


def _pitch_free(notes, me, pitch, t0, t1):
    """No other pitched note of the part with this pitch touches [t0, t1]."""
    for n in notes:
        if n is me or n["kind"] not in ("note", "grace"):
            continue
        if _pitch_of(n) == pitch and n["t"] <= t1 and n["t"] + n["dur"] >= t0:
            return False
    return True


def _seg_bounds(ps):
    """Positions no note may cross: bar lines and division changes."""
    return sorted(set([m[0] for m in ps["measures"]] + [m[1] for m in ps["measures"]] + [t for t, _ in ps["divs"]]))


@st.composite
def decorate(draw, ps, prefix):
    ps = dict(ps)
    notes = [dict(n) for n in ps["notes"]]
    ps["notes"] = notes
    byid = {n["id"]: n for n in notes}
    tuplet_ends = set(x for tp in ps.get("tuplets", []) for x in tp[:2])

    def is_main_of_grace(n):
        return any(g.get("grace_next") == n["id"] for g in notes)

    # ---- gaps: rests removed, so that voices (and whole measures) are not filled to the end -------
    if draw(st.integers(0, 2)) == 0:
        keep = []
        for n in notes:
            plain_rest = n["kind"] == "rest" and not (n.get("sym") or {}).get("actual_notes") and n["id"] not in tuplet_ends
            if plain_rest and draw(st.booleans()):
                continue
            keep.append(n)
        notes[:] = keep
        # a measure without any note or rest
        if draw(st.integers(0, 2)) == 0:
            m = ps["measures"][draw(st.integers(0, len(ps["measures"]) - 1))]
            inside = [n for n in notes if m[0] <= n["t"] < m[1]]
            removable = all(n["kind"] in ("note", "rest") and not n.get("tie_next") and not n.get("tie_prev") and not (n.get("sym") or {}).get("actual_notes")
                            and n["id"] not in tuplet_ends and not is_main_of_grace(n) for n in inside)
            if removable:
                notes[:] = [n for n in notes if not (m[0] <= n["t"] < m[1])]
    # ---- further ties: a second tied member of a chord, ties between voices ---------------------------
    if draw(st.integers(0, 1)) == 0:
        srcs = [n for n in notes if n["kind"] == "note" and not n.get("tie_next")]
        barlines = set(m[1] for m in ps["measures"])
        for a in srcs:
            # (more often over a bar line, so that chains over several bar lines arise)
            if draw(st.integers(0, 1 if a["t"] + a["dur"] in barlines else 3)) != 0:
                continue
            # (the candidate is re-pitched; every other note must stay clear of the pitch while it sounds)
            cands = [b for b in notes if b["kind"] == "note" and b is not a and b["t"] == a["t"] + a["dur"] and b["dur"] > 0
                     and not b.get("tie_prev") and not b.get("tie_next")
                     and all(o is a or o is b or o["kind"] not in ("note", "grace") or _pitch_of(o) != _pitch_of(a)
                             or o["t"] > b["t"] + b["dur"] or o["t"] + o["dur"] < b["t"] for o in notes)]
            if not cands:
                continue
            b = cands[draw(st.integers(0, len(cands) - 1))]
            b["step"], b["alter"], b["octave"] = a["step"], a["alter"], a["octave"]
            a["tie_next"] = b["id"]
            b["tie_prev"] = a["id"]
    for n in notes:
        if n["kind"] in ("note", "grace") and draw(st.integers(0, 5)) == 0:
            pool = BASIC_ARTICULATIONS if draw(st.integers(0, 2)) else ARTICULATIONS
            n["art"] = sorted(draw(st.lists(st.sampled_from(pool), min_size=1, max_size=2, unique=True)))
        if n["kind"] in ("note", "grace") and draw(st.integers(0, 6)) == 0:
            n["stem"] = draw(st.sampled_from(["up", "down"]))
        if n["kind"] in ("note", "rest") and draw(st.integers(0, 9)) == 0:
            n["fermata"] = True
        if n["kind"] in ("note", "grace") and draw(st.integers(0, 9)) == 0:
            n["fingering"] = draw(st.integers(1, 5))
        # (the importer links grace notes to pitched main notes only: main notes stay pitched)
        if n["kind"] == "note" and not n.get("tie_next") and not n.get("tie_prev") and not is_main_of_grace(n) and draw(st.integers(0, 14)) == 0:
            n["kind"] = "unpitched"
    # chords whose members differ in duration (one member shortened)
    by_slot = defaultdict(list)
    for n in notes:
        if n["kind"] == "note" and not n.get("tie_next") and not n.get("tie_prev") and not (n.get("sym") or {}).get("actual_notes"):
            by_slot[(n["t"], n["voice"], n["dur"])].append(n)
    for key, members in sorted(by_slot.items()):
        if len(members) >= 2 and members[0]["dur"] % 2 == 0 and draw(st.integers(0, 3)) == 0:
            m = members[-1]
            if not is_main_of_grace(m):
                m["dur"] = m["dur"] // 2
                m["sym"] = None
    # a note held over the next onset(s) of its own voice (polyphony inside a voice with different onsets)
    if draw(st.integers(0, 3)) == 0:
        bounds = _seg_bounds(ps)
        for n in list(notes):
            if n["kind"] != "note" or n.get("tie_next") or n.get("tie_prev") or (n.get("sym") or {}).get("actual_notes") or n["id"] in tuplet_ends:
                continue
            if is_main_of_grace(n):
                continue
            if draw(st.integers(0, 3)) != 0:
                continue
            end = n["t"] + n["dur"]
            limit = min([b for b in bounds if b > n["t"]] or [ps["end"]])
            later = sorted(set(o["t"] + o["dur"] for o in notes if o["voice"] == n["voice"] and o["kind"] != "grace" and o["t"] >= end
                               and o["t"] + o["dur"] <= limit and o["dur"] > 0))
            if not later:
                continue
            new_end = later[draw(st.integers(0, len(later) - 1))]
            if _pitch_free(notes, n, _pitch_of(n), n["t"], new_end):
                n["dur"] = new_end - n["t"]
                n["sym"] = None
    # slurs: between notes (also grace notes) of one voice, sometimes between voices; nested / overlapping allowed
    slurs = []
    byvoice = defaultdict(list)
    for n in notes:
        if n["kind"] in ("note", "grace"):
            byvoice[n["voice"]].append(n)
    order = {n["id"]: i for i, n in enumerate(notes)}  # grace notes precede their main note in the list
    pools = [sorted(vn, key=lambda n: (n["t"], order[n["id"]])) for v, vn in sorted(byvoice.items())]
    if len(pools) >= 2 and draw(st.integers(0, 3)) == 0:
        pools.append(sorted([n for vn in pools for n in vn], key=lambda n: (n["t"], order[n["id"]])))
    for vn in pools:
        k = draw(st.integers(0, 3)) if len(vn) >= 2 else 0
        for _ in range(k):
            i = draw(st.integers(0, len(vn) - 2))
            j = draw(st.integers(i + 1, len(vn) - 1))
            a, b = vn[i], vn[j]
            later = b["t"] > a["t"] or (b["t"] == a["t"] and a["kind"] == "grace" and b["kind"] == "note" and a["voice"] == b["voice"])
            if later and [a["id"], b["id"]] not in slurs:
                slurs.append([a["id"], b["id"]])
    ps["slurs"] = slurs
    bars = [m[0] for m in ps["measures"]]
    onsets = sorted(set(n["t"] for n in notes))
    tempos = []
    for b in bars:
        if draw(st.integers(0, 4)) == 0:
            t = b
            if onsets and draw(st.integers(0, 3)) == 0:
                t = draw(st.sampled_from(onsets))
            if all(x[0] != t for x in tempos):
                # (all values are integral in quarters per minute for every unit)
                tempos.append([t, draw(st.sampled_from([40, 60, 72, 96, 120, 144])), draw(st.sampled_from([None, "q", "h", "e", "q."]))])
    ps["tempos"] = sorted(tempos, key=lambda x: x[0])
    directions = []
    nd = draw(st.integers(0, 4))
    for _ in range(nd):
        kind = draw(st.sampled_from(["dyn", "dyn", "wedge", "words", "pedal", "dashes"]))
        t = draw(st.sampled_from(onsets)) if onsets else 0
        staff = draw(st.sampled_from([None, None, 1, 2]))
        # (wedges, words and dashed words mostly without a staff, as the importer creates them)
        staff2 = draw(st.sampled_from([None, None, None, None, 1, 2]))
        if kind == "dyn":
            pool = BASIC_DYNAMICS if draw(st.booleans()) else DYNAMICS
            directions.append({"k": "dyn", "text": draw(st.sampled_from(pool)), "t": t, "staff": staff})
        elif kind == "wedge":
            later = [x for x in onsets if x > t] + [ps["end"]]
            directions.append({"k": "wedge", "text": draw(st.sampled_from(["crescendo", "diminuendo"])), "t": t, "end": draw(st.sampled_from(later)), "staff": staff2})
        elif kind == "pedal":
            later = [x for x in onsets if x > t] + [ps["end"]]
            e = draw(st.sampled_from(later))
            # (one pedal: MusicXML pedal marks as written carry no number, spans of one part do not overlap)
            if not any(x["k"] == "pedal" and x["t"] < e and t < x["end"] for x in directions):
                directions.append({"k": "pedal", "line": draw(st.booleans()), "t": t, "end": e, "staff": staff})
        elif kind == "dashes":
            later = [x for x in onsets if x > t] + [ps["end"]]
            directions.append({"k": "dashes", "text": draw(st.sampled_from(["cresc.", "dim.", "rit.", "accel."])), "t": t, "end": draw(st.sampled_from(later)), "staff": staff2})
        else:
            pool = BASIC_WORDS if draw(st.booleans()) else WORDS
            directions.append({"k": "words", "text": draw(st.sampled_from(pool)), "t": t, "staff": staff2})
    ps["directions"] = directions
    # chord symbols: further elements in the measure stream (their own content is not compared)
    harmony = []
    if onsets and draw(st.integers(0, 4)) == 0:
        for _ in range(draw(st.integers(1, 2))):
            harmony.append([draw(st.sampled_from(onsets))] + draw(st.sampled_from(CHORD_SYMBOLS)))
    ps["harmony"] = harmony
    # fermatas on bar lines (left / right) and between notes inside a measure (middle)
    bferm = []
    if draw(st.integers(0, 4)) == 0:
        for _ in range(draw(st.integers(1, 2))):
            m = ps["measures"][draw(st.integers(0, len(ps["measures"]) - 1))]
            inside = [x for x in onsets if m[0] < x < m[1]]
            ref = draw(st.sampled_from(["left", "right", "right", "middle"] if inside else ["left", "right", "right"]))
            t = m[0] if ref == "left" else m[1] if ref == "right" else draw(st.sampled_from(inside))
            if [t, ref] not in bferm:
                bferm.append([t, ref])
    ps["bfermatas"] = bferm
    # repeats / endings on bar lines: any number of non-overlapping repeats, endings with one or several numbers
    repeats, endings = [], []
    nb = len(bars)
    i = 0
    M = ps["measures"]
    while i < nb:
        kind = draw(st.sampled_from(["none", "none", "none", "repeat", "volta"]))
        if kind == "none":
            i += 1
        elif kind == "repeat" or nb - i < 3:
            j = draw(st.integers(i, nb - 1))
            repeats.append([bars[i], M[j][1]])
            i = j + 1
        else:
            # repeated section with first / second (/ third) ending: the repeat ends with the last but one ending
            form = draw(st.sampled_from(["1|2", "1, 2|3", "1|2|3"] if nb - i >= 4 else ["1|2", "1, 2|3"]))
            k = 3 if form == "1|2|3" else 2
            j = draw(st.integers(i + 1, nb - k))  # index of the first ending measure
            numbers = {"1|2": [1, 2], "1, 2|3": ["1, 2", "3"], "1|2|3": [1, 2, 3]}[form]
            for x, num in enumerate(numbers):
                endings.append([M[j + x][0], M[j + x][1], num])
            repeats.append([bars[i], M[j + k - 2][1]])
            i = j + k
    ps["repeats"], ps["endings"] = repeats, endings
    ps["abbr"] = draw(st.sampled_from([None, "Pno.", "Vl."]))
    # measure names: the running number, a pickup called "0", names that are not numbers, no name
    scheme = draw(st.sampled_from(["number", "number", "number", "from0", "letters", "some-none"]))
    measures = [list(m) for m in ps["measures"]]
    for k, m in enumerate(measures):
        if scheme == "from0":
            m[3] = str(k)
        elif scheme == "letters":
            m[3] = "X%d" % (k + 1) if k % 2 == 0 else "%da" % k
        elif scheme == "some-none" and k % 2 == 1:
            m[3] = None
    ps["measures"] = measures
    # staff: a voice that moves between the staves of its part; notes that state no staff
    nstaves = max([n["staff"] or 1 for n in notes] + [c[1] for c in ps["clefs"]] + [1])
    if nstaves >= 2 and draw(st.integers(0, 2)) == 0:
        for n in notes:
            if draw(st.integers(0, 4)) == 0:
                n["staff"] = draw(st.integers(1, nstaves))
    if draw(st.integers(0, 5)) == 0:
        for n in notes:
            if draw(st.integers(0, 2)) == 0:
                n["staff"] = None
    # voice numbers: any distinct positive numbers instead of 1..k
    voices = sorted(set(n["voice"] for n in notes))
    if voices and draw(st.integers(0, 2)) == 0:
        new = draw(st.lists(st.integers(1, 9), min_size=len(voices), max_size=len(voices), unique=True))
        vmap = dict(zip(voices, new))
        for n in notes:
            n["voice"] = vmap[n["voice"]]
    _untie_ambiguous(ps)
    return ps


def _untie_ambiguous(ps):
    """MusicXML pairs ties by pitch in document order (voice after voice inside a measure): keep at
    most one tie link per pitch among links whose measure ranges intersect."""
    byid = {n["id"]: n for n in ps["notes"]}

    def mindex(t):
        for i, m in enumerate(ps["measures"]):
            if m[0] <= t < m[1]:
                return i
        return len(ps["measures"]) - 1

    kept = []
    for n in sorted(ps["notes"], key=lambda n: n["t"]):
        if not n.get("tie_next") or n["kind"] != "note":
            continue
        b = byid[n["tie_next"]]
        pitch = G.midi_pitch(n["step"], n["alter"], n["octave"])
        span = (mindex(n["t"]), mindex(b["t"]))
        if any(p == pitch and not (span[1] < s0 or s1 < span[0]) for (p, s0, s1) in kept):
            del n["tie_next"]
            del b["tie_prev"]
        else:
            kept.append((pitch, span[0], span[1]))


@st.composite
def group_tree(draw, n):
    """Any nesting of part groups over parts 0..n-1 in order: groups before, between and after plain
    parts, sibling groups, groups inside groups (every group gets its own number)."""
    counter = [0]
    # group numbers: one per group, or (as most MusicXML files do) the nesting depth, so that sibling groups share a number
    by_depth = draw(st.integers(0, 2)) == 0

    def level(lo, hi, depth):
        out = []
        i = lo
        while i < hi:
            j = draw(st.integers(i + 1, hi))
            # a group over parts i..j-1, or the plain part i
            if depth < 3 and (j - i >= 2 or draw(st.integers(0, 3)) == 0) and not (depth > 0 and (i, j) == (lo, hi) and draw(st.booleans())):
                counter[0] += 1
                node = {"symbol": draw(st.sampled_from(["bracket", "brace", "line", None])), "name": draw(st.sampled_from(["G%d" % counter[0], "G%d" % counter[0], "Strings", None])),
                        "number": depth + 1 if by_depth else counter[0]}
                node["children"] = level(i, j, depth + 1)
                out.append(node)
                i = j
            else:
                out.append(i)
                i += 1
        return out

    tree = level(0, n, 0)
    return None if all(isinstance(x, int) for x in tree) else tree


@st.composite
def score_spec(draw, tier):
    prof = dict(PROFILE)
    if tier == "thorough":
        prof["max_bars"] = 5
        prof["max_voices"] = 3
    n = draw(st.sampled_from([1, 1, 2, 2, 3, 3, 4]))
    parts = []
    for i in range(n):
        ps = draw(G.part_spec(prof, pid="P%d" % (i + 1), note_prefix="p%dn" % i))
        parts.append(draw(decorate(ps, "p%d" % i)))
    groups = None
    if n >= 2 and draw(st.integers(0, 3)) > 0:
        groups = draw(group_tree(n))
    # how the two public functions are called (argument type, output / input kind, options)
    api = {"arg": "score", "out": "return", "src": "bytes", "force_note_ids": None, "ignore_invisible": False}
    if draw(st.integers(0, 1)) == 0:
        args = ["partlist"]
        if n == 1:
            args.append("part")
        if groups and len(groups) == 1:
            args.append("group")
        api["arg"] = draw(st.sampled_from(args + ["score"]))
        api["out"] = draw(st.sampled_from(["return", "path", "file"]))
        api["src"] = draw(st.sampled_from(["bytes", "path", "mxl"]))
        api["force_note_ids"] = draw(st.sampled_from([None, "keep"]))
        api["ignore_invisible"] = draw(st.booleans())
    return {"parts": parts, "groups": groups, "api": api}


def build(sspec):
    parts, objs = [], []
    for ps in sspec["parts"]:
        p, o = build_part(ps, with_end_times=False)
        for n in ps["notes"]:
            if n.get("fingering") is not None:
                o[n["id"]].technical = [S.Fingering(n["fingering"])]
        for d in ps.get("directions", []):
            if d["k"] == "dyn":
                # (own table: marks of sudden emphasis are impulsive, plain levels constant)
                cls = S.ImpulsiveLoudnessDirection if d["text"] in IMPULSIVE_DYNAMICS else S.ConstantLoudnessDirection
                p.add(cls(d["text"], staff=d["staff"]), d["t"])
            elif d["k"] == "wedge":
                cls = S.IncreasingLoudnessDirection if d["text"] == "crescendo" else S.DecreasingLoudnessDirection
                p.add(cls(d["text"], wedge=True, staff=d.get("staff")), d["t"], d["end"])
            elif d["k"] == "pedal":
                p.add(S.SustainPedalDirection(line=d["line"], staff=d["staff"]), d["t"], d["end"])
            elif d["k"] == "dashes":
                for ob in parse_direction(d["text"]):
                    ob.staff = d.get("staff")
                    p.add(ob, d["t"], d["end"] if isinstance(ob, S.DynamicDirection) else None)
            else:
                for ob in parse_direction(d["text"]):
                    ob.staff = d.get("staff")
                    p.add(ob, d["t"])
        for (t, root, kind) in ps.get("harmony", []):
            p.add(S.ChordSymbol(root=root, kind=kind), t)
        for (t, ref) in ps.get("bfermatas", []):
            p.add(S.Fermata(ref), t)
        for (a, b) in ps.get("repeats", []):
            p.add(S.Repeat(), a, b)
        for (a, b, num) in ps.get("endings", []):
            p.add(S.Ending(num), a, b)
        S.set_end_times([p])
        parts.append(p)
        objs.append(o)
    structure = _structure(sspec.get("groups"), parts) if sspec.get("groups") else list(parts)
    return S.Score(partlist=structure, id="s"), parts


# ------------------------------------------------------------------ independent reading of the file
def read_sounding_notes(xml_bytes):
    """{part id: Counter((onset_q, dur_q, midi)))} from the bytes alone."""
    root = ET.fromstring(xml_bytes)
    base = {"C": 0, "D": 2, "E": 4, "F": 5, "G": 7, "A": 9, "B": 11}
    res = {}
    for part in root.findall("part"):
        pos = Fraction(0)
        d = 1
        open_ties = {}
        out = []
        for measure in part.findall("measure"):
            mstart = pos
            mmax = pos
            last_onset = pos
            for e in measure:
                if e.tag == "attributes":
                    dv = e.find("divisions")
                    if dv is not None:
                        d = int(dv.text)
                elif e.tag == "backup":
                    pos -= Fraction(int(e.find("duration").text), d)
                elif e.tag == "forward":
                    pos += Fraction(int(e.find("duration").text), d)
                    mmax = max(mmax, pos)
                elif e.tag == "note":
                    grace = e.find("grace") is not None
                    dur = Fraction(0) if grace else Fraction(int(e.find("duration").text), d)
                    if e.find("chord") is not None:
                        onset = last_onset
                    else:
                        onset = pos
                    pitch = e.find("pitch")
                    if pitch is not None:
                        mp = 12 * (int(pitch.find("octave").text) + 1) + base[pitch.find("step").text]
                        if pitch.find("alter") is not None:
                            mp += int(pitch.find("alter").text)
                        ties = set(t.get("type") for t in e.findall("tie"))
                        out.append([onset, dur, mp, "start" in ties, "stop" in ties])
                    if e.find("chord") is None:
                        if not grace:
                            last_onset = onset
                            pos = onset + dur
                        else:
                            last_onset = onset
                    mmax = max(mmax, pos)
            pos = mmax
        # ties are joined by time (a tie links a note to the note of the same pitch that starts
        # where it ends), independently of the order in which voices are written
        out.sort(key=lambda r: (r[0], r[1]))
        merged = []
        for r in out:
            if r[4]:
                prev = [m for m in merged if m[2] == r[2] and m[3] and m[0] + m[1] == r[0]]
                if prev:
                    prev[0][1] += r[1]
                    prev[0][3] = r[3]
                    continue
            merged.append(list(r))
        out = merged
        res[part.get("id")] = Counter((r[0], r[1], r[2]) for r in out)
    return res


# ------------------------------------------------------------------ semantic fingerprint
def _sym(sd):
    if not sd:
        return None
    return (sd.get("type"), sd.get("dots") or 0, sd.get("actual_notes"), sd.get("normal_notes"))


def fingerprint(score):
    fp = {}

    def tree(nodes):
        out = []
        for x in nodes:
            if isinstance(x, S.PartGroup):
                out.append(("group", x.group_symbol, x.group_name, str(x.number) if x.number is not None else None, tree(x.children)))
            else:
                out.append(("part", x.id))
        return out

    fp["structure"] = tree(score.part_structure)
    for p in score.parts:
        d = {}
        d["header"] = (p.id, p.part_name or None, p.part_abbreviation or None)
        d["divisions"] = [(int(a), int(b)) for a, b in p.quarter_durations()]
        d["measures"] = [(m.start.t, m.end.t if m.end else None, m.number, m.name) for m in p.iter_all(S.Measure)]
        d["time-signatures"] = [(o.start.t, o.beats, o.beat_type) for o in p.iter_all(S.TimeSignature)]
        d["key-signatures"] = [(o.start.t, o.fifths, o.mode) for o in p.iter_all(S.KeySignature)]
        d["clefs"] = sorted(((o.start.t, o.staff or 1, o.sign, o.line, o.octave_change or 0) for o in p.iter_all(S.Clef)), key=repr)
        notes = {}
        for n in p.iter_all(S.GenericNote, include_subclasses=True):
            rec = {
                "cls": type(n).__name__,
                "t": n.start.t,
                "end": n.end.t if n.end else None,
                "voice": n.voice,
                "staff": n.staff or 1,
                "sym": _sym(n.symbolic_duration),  # effective value (estimated by the library when not stored)
                "tie_next": n.tie_next.id if getattr(n, "tie_next", None) is not None else None,
                "tie_prev": n.tie_prev.id if getattr(n, "tie_prev", None) is not None else None,
                "art": sorted(n.articulations) if n.articulations else [],
                "stem": n.stem_direction,
                "fermata": n.fermata is not None,
                "fingering": [t.fingering for t in (n.technical or []) if isinstance(t, S.Fingering)],
            }
            if isinstance(n, (S.Note, S.UnpitchedNote)):
                rec["pitch"] = (n.step, (getattr(n, "alter", None) or 0), n.octave)
            if isinstance(n, S.GraceNote):
                # (the kind of grace note is not among the fields the property lists; plain and
                # appoggiatura grace notes are the same <grace/> element)
                # which member of a chord is "the" main note is arbitrary: the next element is
                # identified by its kind and position
                nxt = n.grace_next
                rec["grace"] = ((type(nxt).__name__, nxt.start.t, nxt.voice) if nxt is not None else None, n.grace_prev.id if n.grace_prev is not None else None)
            notes[n.id] = rec
        d["notes"] = notes
        d["slurs"] = sorted(((s.start_note.id if s.start_note else None, s.end_note.id if s.end_note else None) for s in p.iter_all(S.Slur)), key=repr)
        d["tuplets"] = sorted(((t.start_note.id if t.start_note else None, t.end_note.id if t.end_note else None, t.actual_notes, t.normal_notes, t.actual_type, t.normal_type) for t in p.iter_all(S.Tuplet)), key=repr)
        d["tempos"] = sorted((o.start.t, int(round(float(Fraction(o.bpm) * {None: 1, "q": 1, "h": 2, "e": Fraction(1, 2), "q.": Fraction(3, 2)}[o.unit])))) for o in p.iter_all(S.Tempo))
        # directions: what and when (kind "directions-differ"), then on which staff (kind "direction-staffs-differ",
        # only reported when the first comparison agrees); plain text objects apart (kind "words-differ")
        dirs, staffs, words = [], [], []
        for o in p.iter_all(S.Direction, include_subclasses=True):
            rec = (type(o).__name__, o.text, o.start.t, o.end.t if o.end is not None else None, getattr(o, "line", None))
            dirs.append(rec)
            staffs.append(rec + (o.staff or 1,))
        for o in p.iter_all(S.Words):
            words.append(("Words", o.text, o.start.t, None, o.staff or 1))
        d["directions"] = sorted(dirs, key=repr)
        d["direction-staffs"] = sorted(staffs, key=repr)
        d["words"] = sorted(words, key=repr)
        d["repeats"] = sorted(((o.start.t if o.start else None, o.end.t if o.end else None) for o in p.iter_all(S.Repeat)), key=repr)
        d["endings"] = sorted(((o.start.t if o.start else None, o.end.t if o.end else None, str(o.number)) for o in p.iter_all(S.Ending)), key=repr)
        d["barline-fermatas"] = sorted(((o.start.t, o.ref) for o in p.iter_all(S.Fermata) if not isinstance(o.ref, S.GenericNote)), key=repr)
        fp[p.id] = d
    return fp


NOTE_FIELDS = ["cls", "t", "end", "pitch", "voice", "staff", "sym", "tie_next", "tie_prev", "art", "stem", "fermata", "fingering", "grace"]


def compare_fingerprints(o, a, b):
    if a["structure"] != b["structure"]:
        o.add("part-structure-differs", original=a["structure"], reloaded=b["structure"])
    for pid in a:
        if pid == "structure":
            continue
        if pid not in b:
            o.add("part-lost", part=pid)
            continue
        A, B = a[pid], b[pid]
        for key in A:
            if key == "notes":
                continue
            if key == "direction-staffs" and A["directions"] != B["directions"]:
                continue
            if A[key] != B[key]:
                la, lb = A[key], B[key]
                only_a = [x for x in la if x not in lb][:3] if isinstance(la, list) else la
                only_b = [x for x in lb if x not in la][:3] if isinstance(lb, list) else lb
                o.add(key + "-differ", part=pid, only_in_original=only_a, only_in_reloaded=only_b)
        na, nb = A["notes"], B["notes"]
        if set(na) != set(nb):
            o.add("note-ids-differ", part=pid, lost=sorted(set(na) - set(nb))[:4], new=sorted(set(nb) - set(na))[:4])
            continue
        for nid in na:
            for f in NOTE_FIELDS:
                if na[nid].get(f) != nb[nid].get(f):
                    o.add("note-%s-changed" % f.replace("_", "-"), part=pid, id=nid, original=na[nid].get(f), reloaded=nb[nid].get(f), cls=na[nid]["cls"])
                    break


# ------------------------------------------------------------------ the two public functions, called in every documented way
def _save(score, parts, api):
    """save_musicxml(score_data, out): score_data a Score, a list of parts / part groups, a Part or a PartGroup;
    out None (bytes are returned), a path or a file-like object."""
    arg = api.get("arg", "score")
    if arg == "partlist":
        data = list(score.part_structure)
    elif arg == "part":
        data = parts[0]
    elif arg == "group":
        data = score.part_structure[0]
    else:
        data = score
    out = api.get("out", "return")
    if out == "path":
        with tempfile.TemporaryDirectory() as d:
            fn = os.path.join(d, "out.musicxml")
            call(save_musicxml, data, fn)
            with open(fn, "rb") as f:
                return f.read()
    if out == "file":
        buf = io.BytesIO()
        call(save_musicxml, data, buf)
        return buf.getvalue()
    return call(save_musicxml, data)


def _load(xml_bytes, api):
    """load_musicxml(filename, force_note_ids, ignore_invisible_objects): a file-like object, a path, or a
    compressed .mxl file; 'keep' keeps every id that is present; nothing in the written file is invisible."""
    kw = {}
    if api.get("force_note_ids"):
        kw["force_note_ids"] = api["force_note_ids"]
    if api.get("ignore_invisible"):
        kw["ignore_invisible_objects"] = True
    src = api.get("src", "bytes")
    if src == "bytes":
        return call(load_musicxml, io.BytesIO(xml_bytes), **kw)
    with tempfile.TemporaryDirectory() as d:
        fn = os.path.join(d, "in.musicxml")
        with open(fn, "wb") as f:
            f.write(xml_bytes)
        if src == "mxl":
            zn = os.path.join(d, "in.mxl")
            with zipfile.ZipFile(zn, "w") as z:
                z.writestr("META-INF/container.xml", "<container/>")
                z.write(fn, "in.musicxml")
            fn = zn
        return call(load_musicxml, fn, **kw)


# ------------------------------------------------------------------ oracle
def oracle(spec):
    o = Outcome()
    score, parts = build(spec)
    ps_list = spec["parts"]
    feats = Counter()
    for ps in ps_list:
        voices = set(n["voice"] for n in ps["notes"])
        staves = set(n["staff"] for n in ps["notes"])
        bars = set(m[0] for m in ps["measures"]) | set(m[1] for m in ps["measures"])
        tie_over_bar = any(n.get("tie_next") and (n["t"] + n["dur"]) in bars for n in ps["notes"])
        midbar = any(t not in bars for t, _ in ps["divs"][1:]) or any(r[0] not in bars for r in ps["timesigs"] + ps["keysigs"] + ps["clefs"])
        feats["multi-voice-or-staff"] += len(voices) > 1 or len(staves) > 1
        feats["tie-over-barline"] += tie_over_bar
        feats["mid-bar-change"] += midbar
        feats["slurs>=2"] += len(ps.get("slurs", [])) >= 2
        feats["tuplets"] += bool(ps.get("tuplets"))
        feats["grace"] += any(n["kind"] == "grace" for n in ps["notes"])
        feats["tempo"] += bool(ps.get("tempos"))
        feats["directions"] += bool(ps.get("directions"))
        feats["repeat"] += bool(ps.get("repeats"))
        bars_ = [m[0] for m in ps["measures"]]
        feats["pedal"] += any(d["k"] == "pedal" for d in ps.get("directions", []))
        feats["range-direction-over-barline"] += any(d.get("end") is not None and any(d["t"] < b < d["end"] for b in bars_) for d in ps.get("directions", []))
        feats["unpitched"] += any(n["kind"] == "unpitched" for n in ps["notes"])
        slots = defaultdict(set)
        for n in ps["notes"]:
            if n["kind"] == "note":
                slots[(n["t"], n["voice"])].add(n["dur"])
        feats["unequal-chord"] += any(len(v) > 1 for v in slots.values())
        # ---- shapes added by the generator audit
        real = [n for n in ps["notes"] if n["kind"] != "grace"]
        feats["overlap-in-voice"] += any(a is not b and a["voice"] == b["voice"] and a["kind"] == "note" and a["t"] < b["t"] < a["t"] + a["dur"] for a in real for b in real)
        gap_end = empty = gap_inside = False
        for m in ps["measures"]:
            inm = [n for n in real if m[0] <= n["t"] < m[1]]
            empty = empty or not inm
            gap_end = gap_end or max([n["t"] + n["dur"] for n in inm] + [m[0]]) < m[1]
            for v in set(n["voice"] for n in inm):
                vn = sorted((n["t"], n["t"] + n["dur"]) for n in inm if n["voice"] == v)
                reach = m[0]
                for (a, b) in vn:
                    gap_inside = gap_inside or (a > reach and reach > m[0])
                    reach = max(reach, b)
        feats["measure-not-filled-to-its-end"] += gap_end
        feats["empty-measure"] += empty
        feats["gap-inside-voice"] += gap_inside
        byid = {n["id"]: n for n in ps["notes"]}
        tied_into = Counter()
        for n in ps["notes"]:
            if n.get("tie_next"):
                tied_into[(byid[n["tie_next"]]["t"], byid[n["tie_next"]]["voice"])] += 1
                feats["tie-between-voices"] += n["voice"] != byid[n["tie_next"]]["voice"]
        feats["chord-with-two-ties"] += any(v >= 2 for v in tied_into.values())
        chain_bars = 0
        for n in ps["notes"]:
            if n.get("tie_next") and not n.get("tie_prev"):
                cur = n
                while cur.get("tie_next"):
                    cur = byid[cur["tie_next"]]
                chain_bars = max(chain_bars, sum(1 for b in bars_ if n["t"] < b <= cur["t"]))
        feats["tie-chain-over-2-barlines"] += chain_bars >= 2
        vs = sorted(set(n["voice"] for n in ps["notes"]))
        feats["voice-numbers-not-1..k"] += bool(vs) and vs != list(range(1, len(vs) + 1))
        by_voice_staff = defaultdict(set)
        for n in ps["notes"]:
            by_voice_staff[n["voice"]].add(n["staff"] or 1)
        feats["voice-on-two-staves"] += any(len(v) > 1 for v in by_voice_staff.values())
        feats["staff-none"] += any(n["staff"] is None for n in ps["notes"])
        feats["staff-3"] += any((n["staff"] or 1) >= 3 for n in ps["notes"])
        for a, b in ps.get("slurs", []):
            feats["slur-on-grace"] += byid[a]["kind"] == "grace" or byid[b]["kind"] == "grace"
            feats["slur-between-voices"] += byid[a]["voice"] != byid[b]["voice"]
        for tp in ps.get("tuplets", []):
            feats["tuplet-edge-rest"] += byid[tp[0]]["kind"] == "rest" or byid[tp[1]]["kind"] == "rest"
        feats["articulation-beyond-basic-5"] += any(a not in BASIC_ARTICULATIONS for n in ps["notes"] for a in n.get("art", []))
        feats["decorated-grace-or-rest"] += any((n["kind"] == "grace" and (n.get("stem") or n.get("fingering"))) or (n["kind"] == "rest" and n.get("fermata")) for n in ps["notes"])
        feats["tempo-mid-bar"] += any(t[0] not in bars_ for t in ps.get("tempos", []))
        feats["tempo-unit-e-or-dotted"] += any(t[2] in ("e", "q.") for t in ps.get("tempos", []))
        dirs = ps.get("directions", [])
        feats["dynamics-beyond-basic-6"] += any(d["k"] == "dyn" and d["text"] not in BASIC_DYNAMICS for d in dirs)
        feats["words-beyond-basic-4"] += any(d["k"] == "words" and d["text"] not in BASIC_WORDS for d in dirs)
        feats["plain-words-object"] += any(d["k"] == "words" and d["text"] in PLAIN_WORDS for d in dirs)
        feats["staff-on-wedge-words-dashes"] += any(d["k"] in ("wedge", "words", "dashes") and d.get("staff") for d in dirs)
        feats["chord-symbol"] += bool(ps.get("harmony"))
        feats["barline-fermata"] += bool(ps.get("bfermatas"))
        feats["repeats>=2"] += len(ps.get("repeats", [])) >= 2
        feats["ending-with-number-list-or-3-endings"] += any(str(e[2]) not in ("1", "2") for e in ps.get("endings", []))
        feats["measure-name-not-number"] += any(m[3] != str(m[2]) for m in ps["measures"])
        feats["clef-without-line"] += any(c[3] is None for c in ps["clefs"])
    for k, v in feats.items():
        o.cls(k, v > 0)
    o.cls("part-groups", bool(spec.get("groups")))
    o.cls("parts>=2", len(ps_list) >= 2)

    def flat(nodes, depth=1):
        for x in nodes or []:
            if isinstance(x, dict):
                yield (depth, x)
                for y in flat(x["children"], depth + 1):
                    yield y

    groups = list(flat(spec.get("groups")))
    numbers = [g["number"] for _, g in groups]
    o.cls("group-number-shared", len(set(numbers)) < len(numbers))
    o.cls("group-without-name", any(g.get("name") is None for _, g in groups))
    api = spec.get("api") or {}
    o.cls("save-arg-" + api.get("arg", "score"), True)
    o.cls("save-out-" + api.get("out", "return"), True)
    o.cls("load-src-" + api.get("src", "bytes"), True)
    o.cls("load-options", bool(api.get("force_note_ids") or api.get("ignore_invisible")))
    o.nontrivial = feats["multi-voice-or-staff"] > 0 or feats["tie-over-barline"] > 0 or feats["mid-bar-change"] > 0

    xml1 = _save(score, parts, api)
    # ---- A: independent reading ---------------------------------------------------------
    read = read_sounding_notes(xml1)
    for ps in ps_list:
        ref = G.PartRef(ps)
        exp = Counter()
        for (t, dur, pitch, hid, ids) in ref.sounding_notes():
            exp[(ref.quarter(t), ref.quarter(t + dur) - ref.quarter(t), pitch)] += 1
        got = read.get(ps["id"], Counter())
        if got != exp:
            o.add("file-denotes-other-notes", part=ps["id"], missing=[[str(x) for x in k] for k in sorted((exp - got).elements())[:3]],
                  extra=[[str(x) for x in k] for k in sorted((got - exp).elements())[:3]])
    # ---- B: fingerprint after reload -------------------------------------------------------
    fp_a = fingerprint(score)
    score2 = _load(xml1, api)
    fp_b = fingerprint(score2)
    compare_fingerprints(o, fp_a, fp_b)
    # ---- C: byte fixpoint ---------------------------------------------------------------------
    xml2 = call(save_musicxml, score2)
    poly = feats["unequal-chord"] > 0 or feats["overlap-in-voice"] > 0
    if xml2 != xml1 and poly:
        # the exporter re-numbers voices for polyphony inside a voice (known finding), so the
        # reloaded score legitimately differs in voice numbers: only the importer-obtained score
        # is held to the byte fixpoint below
        o.excluded.append("first-round-byte-comparison-with-polyphony-in-voice")
        score3 = call(load_musicxml, io.BytesIO(xml2))
        xml3 = call(save_musicxml, score3)
        if xml3 != xml2:
            o.add("reexport-not-a-fixpoint-after-two-rounds")
    elif xml2 != xml1:
        # (multiset difference of the lines: a line that occurs once more or once less counts)
        l1 = Counter(x.strip() for x in xml1.decode().splitlines())
        l2 = Counter(x.strip() for x in xml2.decode().splitlines())
        extra = sorted((l2 - l1).elements())[:8]
        lost = sorted((l1 - l2).elements())[:8]
        only_print = bool(extra) and all(re.fullmatch(r'<print new-page="yes" new-system="yes"/>', x) for x in extra) and not lost
        o.add("reexport-adds-first-page-print" if only_print else "reexport-not-byte-identical", extra=extra, lost=lost)
        score3 = call(load_musicxml, io.BytesIO(xml2))
        xml3 = call(save_musicxml, score3)
        if xml3 != xml2:
            o.add("reexport-not-a-fixpoint-after-two-rounds")
    return o


def known_voice(spec, d):
    """The exporter deliberately moves notes that overlap another note of their voice (unequal
    chords, polyphony inside a voice) to a free voice."""
    if d.kind != "note-voice-changed":
        return False
    det = d["detail"]
    return _reassigned(spec, det["part"], det["id"])


def _reassigned(spec, part_id, note_id):
    det = {"part": part_id, "id": note_id}
    for ps in spec["parts"]:
        if ps["id"] != det["part"]:
            continue
        me = [n for n in ps["notes"] if n["id"] == det["id"]]
        if not me:
            return False
        me = me[0]
        for n in ps["notes"]:
            if n is me or n.get("voice") != me.get("voice") or n["kind"] == "grace" or me["kind"] == "grace":
                continue
            overlap = n["t"] < me["t"] + me["dur"] and me["t"] < n["t"] + n["dur"]
            if overlap and (n["t"] != me["t"] or n["dur"] != me["dur"]):
                return True
    return False


def known_print(spec, d):
    return d.kind == "reexport-adds-first-page-print"


# ---- findings of the generator audit (each predicate: the discrepancy kind AND the input that triggers it) ----------
PRINT_LINE = '<print new-page="yes" new-system="yes"/>'
TIMED_KINDS = ("file-denotes-other-notes", "measures-differ", "note-t-changed", "note-end-changed", "divisions-differ", "time-signatures-differ",
               "key-signatures-differ", "clefs-differ", "tempos-differ", "directions-differ", "words-differ", "repeats-differ", "endings-differ",
               "barline-fermatas-differ")


def _part(spec, d):
    pid = (d["detail"] or {}).get("part")
    for ps in spec["parts"]:
        if ps["id"] == pid:
            return ps
    return None


def _unfilled_measure(ps):
    """A measure whose notes and rests end before the measure does."""
    real = [n for n in ps["notes"] if n["kind"] != "grace"]
    for m in ps["measures"]:
        if max([n["t"] + n["dur"] for n in real if m[0] <= n["t"] < m[1]] + [m[0]]) < m[1]:
            return True
    return False


def _empty_measure(ps):
    real = [n for n in ps["notes"] if n["kind"] != "grace"]
    return any(not [n for n in real if m[0] <= n["t"] < m[1]] for m in ps["measures"])


def known_unfilled(spec, d):
    """The exporter writes no <forward> to the end of a measure whose last voice ends early: the measure gets
    shorter on import and everything after it moves."""
    if d.kind in ("reexport-not-byte-identical", "reexport-not-a-fixpoint-after-two-rounds"):
        # the shortened (for a measure without any note or rest: empty) measure of the loaded score no longer
        # holds what started in the cut off piece (attributes, directions): it is not written the second time
        return any(_unfilled_measure(ps) for ps in spec["parts"])
    ps = _part(spec, d)
    return d.kind in TIMED_KINDS and ps is not None and _unfilled_measure(ps)


def _right_fermatas(ps):
    return [t for (t, ref) in ps.get("bfermatas", []) if ref == "right" and any(m[0] == t for m in ps["measures"])]


def known_fermata_twice(spec, d):
    """A fermata on the right bar line of a measure is written again on the left bar line of the next measure."""
    ps = _part(spec, d)
    if d.kind != "barline-fermatas-differ" or ps is None:
        return False
    return bool(_right_fermatas(ps)) and _fermata_entries_explained(ps, d["detail"])


def _fermata_entries_explained(ps, det):
    """Every differing bar line fermata is one of: an additional "left" copy of a "right" fermata between two
    measures; a "middle" fermata on a divisions change that came back as "left"."""
    changes = set(t for t, _ in ps["divs"][1:])
    orig = [tuple(x) for x in det["only_in_original"]]
    rel = [tuple(x) for x in det["only_in_reloaded"]]
    if not (orig or rel):
        return False
    if not all(ref == "middle" and t in changes for (t, ref) in orig):
        return False
    middle = set(t for (t, _) in orig)
    return all(ref == "left" and (t in _right_fermatas(ps) or t in middle) for (t, ref) in rel)


def known_words_dropped(spec, d):
    """score.Words objects (text that is not a recognised direction) are not exported."""
    ps = _part(spec, d)
    if d.kind != "words-differ" or ps is None:
        return False
    det = d["detail"]
    return not det["only_in_reloaded"] and bool(det["only_in_original"]) and any(x["k"] == "words" and x["text"] in PLAIN_WORDS for x in ps.get("directions", []))


def _staffed_text_directions(ps):
    return [x for x in ps.get("directions", []) if x["k"] in ("wedge", "words", "dashes") and (x.get("staff") or 1) > 1]


def known_direction_staff(spec, d):
    """The importer reads <staff> of a direction but passes it to dynamics and pedals only: wedges and words lose it."""
    ps = _part(spec, d)
    if d.kind != "direction-staffs-differ" or ps is None or not _staffed_text_directions(ps):
        return False
    det = d["detail"]
    from partitura.io.importmusicxml import DYN_DIRECTIONS

    def textual(rec):
        return rec[1] not in DYN_DIRECTIONS and rec[1] != "sustain_pedal"

    return (all(textual(r) and r[-1] > 1 for r in det["only_in_original"]) and all(textual(r) and r[-1] == 1 for r in det["only_in_reloaded"]))


def known_soft_accent(spec, d):
    """soft-accent is read by the importer but missing from the exporter's list of articulations."""
    if d.kind != "note-art-changed":
        return False
    det = d["detail"]
    return "soft-accent" in det["original"] and [a for a in det["original"] if a != "soft-accent"] == list(det["reloaded"])


def _staffless_note_in_multi_staff_part(ps):
    many = any((n.get("staff") or 1) > 1 for n in ps["notes"]) or any(c[1] > 1 for c in ps["clefs"]) or any((x.get("staff") or 1) > 1 for x in ps.get("directions", []))
    return many and any(n.get("staff") is None for n in ps["notes"])


def _plain_words_alone_on_highest_staff(ps):
    plain = [x for x in ps.get("directions", []) if x["k"] == "words" and x["text"] in PLAIN_WORDS and (x.get("staff") or 1) > 1]
    if not plain:
        return False
    others = [n.get("staff") or 1 for n in ps["notes"]] + [c[1] for c in ps["clefs"]]
    others += [x.get("staff") or 1 for x in ps.get("directions", []) if not (x["k"] == "words" and x["text"] in PLAIN_WORDS)]
    return max(x.get("staff") or 1 for x in plain) > max(others + [1])


def known_words_dropped_bytes(spec, d):
    return d.kind == "reexport-not-byte-identical" and any(_plain_words_alone_on_highest_staff(ps) for ps in spec["parts"]) and _byte_lines_explained(spec, d)


def _byte_lines_explained(spec, d):
    """Every line the second file has more / less than the first is one that an open finding puts there."""
    from pbt.core import load_known_findings

    active = set(load_known_findings()[0].get(PROPERTY, {}))
    ok_extra, ok_lost = [re.escape(PRINT_LINE)], []
    for ps in spec["parts"]:
        if "right-barline-fermata-written-twice" in active and _right_fermatas(ps):
            ok_extra += [r'<barline location="left">', r"<fermata/>", r"</barline>"]
        if "direction-staff-lost-on-import" in active and _staffed_text_directions(ps):
            ok_lost += [r"<staff>\d</staff>"]
        if "staff-element-added-for-note-without-staff" in active and _staffless_note_in_multi_staff_part(ps):
            ok_extra += [r"<staff>1</staff>"]
        if "words-object-not-exported" in active and _plain_words_alone_on_highest_staff(ps):
            # the dropped text was the only thing on its staff: the loaded part has fewer staves
            ok_lost += [r"<staff>\d</staff>", r"<staves>\d</staves>"]
            ok_extra += [r"<staves>\d</staves>"]
        if "slur-elements-in-attachment-order" in active and _slur_order_trigger(ps):
            ok_extra += [r'<slur number="\d+" type="(start|stop)"/>']
            ok_lost += [r'<slur number="\d+" type="(start|stop)"/>']
    det = d["detail"]
    return (bool(det["extra"] or det["lost"]) and all(any(re.fullmatch(p, x) for p in ok_extra) for x in det["extra"])
            and all(any(re.fullmatch(p, x) for p in ok_lost) for x in det["lost"]))


def known_fermata_twice_bytes(spec, d):
    return d.kind == "reexport-not-byte-identical" and any(_right_fermatas(ps) for ps in spec["parts"]) and _byte_lines_explained(spec, d)


def known_direction_staff_bytes(spec, d):
    return d.kind == "reexport-not-byte-identical" and any(_staffed_text_directions(ps) for ps in spec["parts"]) and _byte_lines_explained(spec, d)


def known_staffless(spec, d):
    """A note without staff in a part with several staves is written without <staff>, read as staff 1 and then
    written with <staff>1</staff>."""
    return d.kind == "reexport-not-byte-identical" and any(_staffless_note_in_multi_staff_part(ps) for ps in spec["parts"]) and _byte_lines_explained(spec, d)


def known_middle_fermata(spec, d):
    """The exporter derives the location of a bar line element from the bounds of the segment of equal divisions
    it is writing: a fermata inside a measure exactly where the divisions change is written as location="left"."""
    ps = _part(spec, d)
    if d.kind != "barline-fermatas-differ" or ps is None:
        return False
    changes = set(t for t, _ in ps["divs"][1:])
    return any(ref == "middle" and t in changes for (t, ref) in ps.get("bfermatas", [])) and _fermata_entries_explained(ps, d["detail"])


def _slur_order_trigger(ps):
    """Two slurs start or stop on one note, and a slur stop can precede its start in the file (slur between
    voices, or a note moved to another voice by the exporter)."""
    ends = Counter()
    byid = {n["id"]: n for n in ps["notes"]}
    between = False
    for a, b in ps.get("slurs", []):
        ends[("start", a)] += 1
        ends[("stop", b)] += 1
        between = between or byid[a]["voice"] != byid[b]["voice"]
    real = [n for n in ps["notes"] if n["kind"] != "grace"]
    poly = any(a is not b and a["voice"] == b["voice"] and a["t"] < b["t"] + b["dur"] and b["t"] < a["t"] + a["dur"] and (a["t"], a["dur"]) != (b["t"], b["dur"])
               for a in real for b in real)
    return any(v >= 2 for v in ends.values()) and (between or poly)


def known_slur_order(spec, d):
    """The exporter numbers and orders the slur elements of a note in the order in which the slurs were attached
    to it; the importer attaches them in the order of their numbers."""
    if not any(_slur_order_trigger(ps) for ps in spec["parts"]):
        return False
    if d.kind == "reexport-not-a-fixpoint-after-two-rounds":
        return True
    return d.kind == "reexport-not-byte-identical" and _byte_lines_explained(spec, d)


def known_division_change_without_point(spec, d):
    """A divisions change inside a measure at a time where no note or rest starts or ends is not a segment
    boundary for the exporter: backup / forward durations of later voices are counted in the wrong divisions."""
    ps = _part(spec, d)
    if d.kind != "file-denotes-other-notes" or ps is None:
        return False
    marks = set()
    for n in ps["notes"]:
        marks.add(n["t"])
        marks.add(n["t"] + n["dur"])
    starts = set(m[0] for m in ps["measures"])
    return any(t not in marks and t not in starts for t, _ in ps["divs"][1:])


def known_fermata_any(spec, d):
    return known_fermata_twice(spec, d) or known_fermata_twice_bytes(spec, d)


def known_direction_staff_any(spec, d):
    return known_direction_staff(spec, d) or known_direction_staff_bytes(spec, d)


SUBCHECKS = [
    SubCheck(
        "roundtrip",
        oracle,
        strategy=lambda tier: score_spec(tier),
        budget={"quick": 120, "thorough": 3000},
        rule="generated scores (1-4 parts, any nesting of part groups with own or shared numbers, 1-3 staves, voices with arbitrary numbers that may move between staves, measures with gaps or no content, notes held over later onsets of their voice, ties inside chords and between voices, slurs on grace notes and between voices, tuplets that begin or end with a rest, bar line fermatas, chord symbols, all dynamics / articulations the importer knows, plain Words, several repeats with 1|2, 1,2|3 and 1|2|3 endings, every documented way of calling save_musicxml / load_musicxml; otherwise as before: mid-bar division/signature/clef changes, pickups, irregular bars, tie chains over bar lines, tuplets, grace runs, slurs, articulations, stems, fermatas, fingering, unpitched notes, dynamics, wedges, words with and without dashes, pedal marks, tempo marks, repeats, endings) saved, read by an independent XML walk, re-loaded and re-saved; non-trivial = >=2 voices or staves, a tie over a bar line, or a mid-bar attribute change",
        known={"voice-reassigned-for-polyphony-in-voice": known_voice, "first-page-print-added-on-reexport": known_print,
               "measure-not-filled-to-its-end-gets-shorter": known_unfilled, "right-barline-fermata-written-twice": known_fermata_any,
               "words-object-not-exported": lambda spec, d: known_words_dropped(spec, d) or known_words_dropped_bytes(spec, d), "direction-staff-lost-on-import": known_direction_staff_any,
               "soft-accent-not-exported": known_soft_accent, "staff-element-added-for-note-without-staff": known_staffless,
               "middle-fermata-at-division-change-written-as-left": known_middle_fermata, "slur-elements-in-attachment-order": known_slur_order,
               "division-change-without-time-point-not-a-segment-boundary": known_division_change_without_point},
        floors={"multi-voice-or-staff": 0.2, "tie-over-barline": 0.05, "mid-bar-change": 0.1, "pedal": 0.05, "range-direction-over-barline": 0.03,
                # shapes added by the generator audit (docs/audit/C03.md)
                "measure-not-filled-to-its-end": 0.05, "empty-measure": 0.02, "voice-numbers-not-1..k": 0.15, "voice-on-two-staves": 0.1,
                "overlap-in-voice": 0.08, "tie-between-voices": 0.03, "chord-with-two-ties": 0.015, "slur-between-voices": 0.03, "slur-on-grace": 0.1,
                "barline-fermata": 0.15, "plain-words-object": 0.02, "staff-on-wedge-words-dashes": 0.1, "tuplet-edge-rest": 0.15,
                "ending-with-number-list-or-3-endings": 0.015, "repeats>=2": 0.03, "group-number-shared": 0.01, "measure-name-not-number": 0.15,
                "tempo-mid-bar": 0.05, "save-arg-partlist": 0.1, "save-out-path": 0.04, "save-out-file": 0.04, "load-src-mxl": 0.03, "load-src-path": 0.03,
                "load-options": 0.05},
    ),
]
