"""C05 - the note array is a faithful table of the score."""

import itertools
from fractions import Fraction
from math import gcd

import numpy as np
from hypothesis import strategies as st

import partitura.score as S
from partitura.musicanalysis.note_array_to_score import note_array_to_score
from pbt.core import Outcome, SubCheck, SutRaised, call, fr, unfr
from pbt.gen import scorespec as G
from pbt.gen.build import build_part, build_score

PROPERTY = "C05"
ENGINES = ["hypothesis"]
ASSUMPTIONS = [
    "float32 columns compared with tolerance 1e-5*(1+|x|)",
    "order of rows with equal (onset, pitch) is not demanded; rows are matched by id; part arrays must be ordered by (onset_div, pitch), score-level arrays by (onset_beat, pitch) because parts may have different pickups",
    "include_divs_per_quarter on a part with division changes is documented as unsupported: an exception is accepted there, a wrong value is not",
    "metrical-position columns of single-measure parts are not judged (library documents 0 everywhere)",
    "score level: each part has one divisions value; the lcm may be taken over all parts or over the parts that have notes",
    "collapsed rest arrays: only the documented join of consecutive rests of one voice is demanded",
]

FLAGS = ["include_pitch_spelling", "include_key_signature", "include_time_signature", "include_metrical_position",
         "include_grace_notes", "include_staff", "include_divs_per_quarter"]

PART_PROFILE = G.profile(max_bars=4, max_voices=3, max_staves=2, midbar_changes=True, missing_voice_staff=True, irregular=False)
SCORE_PROFILE = G.profile(max_bars=3, max_voices=2, max_staves=2, div_changes=False, midbar_changes=False, missing_voice_staff=True)


def lcm(a, b):
    return a * b // gcd(a, b)


def f32close(got, exp):
    exp = float(exp)
    return abs(float(got) - exp) <= 1e-5 * (1 + abs(exp))


def in_force(rows, t):
    cur = None
    for r in rows:
        if r[0] <= t:
            cur = r
    if cur is None and rows:
        cur = rows[0]
    return cur


def apply_missing_voice(ps, mask):
    """Set voice None on notes selected by the mask (whole tie chains keep one value)."""
    ps = dict(ps)
    notes = [dict(n) for n in ps["notes"]]
    byid = {n["id"]: n for n in notes}
    for i, n in enumerate(notes):
        if mask and mask[i % len(mask)] and not n.get("tie_prev"):
            cur = n
            while cur is not None:
                cur["voice"] = None
                cur = byid.get(cur.get("tie_next"))
    ps["notes"] = notes
    return ps


def expected_rows(ps, kinds, tref, metrical_ok=True):
    """Reference table from the abstract part: dict id -> dict of column values (exact)."""
    ref = tref.ref
    byid = {n["id"]: n for n in ps["notes"]}
    rows = {}
    voices = []
    heads = []
    for n in ps["notes"]:
        if n["kind"] not in kinds or n.get("tie_prev"):
            continue
        heads.append(n)
    for n in heads:
        end = n["t"] + n["dur"]
        cur = n
        while cur.get("tie_next"):
            cur = byid[cur["tie_next"]]
            end = end + cur["dur"]
        dur = end - n["t"]
        r = {
            "onset_div": n["t"],
            "duration_div": dur,
            "onset_beat": tref.beat(n["t"]),
            "duration_beat": tref.beat(n["t"] + dur) - tref.beat(n["t"]),
            "onset_quarter": tref.quarter(n["t"]),
            "duration_quarter": tref.quarter(n["t"] + dur) - tref.quarter(n["t"]),
            "pitch": G.midi_pitch(n["step"], n["alter"], n["octave"]) if n["kind"] != "rest" else 0,
            "voice": n.get("voice"),
            "id": n["id"],
            "staff": n.get("staff") or 0,
            "is_grace": 1 if n["kind"] == "grace" else 0,
            "grace_type": n.get("grace_type", "") if n["kind"] == "grace" else "",
            "divs_pq": ref.divs_at(0),
        }
        if n["kind"] != "rest":
            r.update(step=n["step"], alter=n["alter"] or 0, octave=n["octave"])
        else:
            r.update(step="0", alter=0, octave=0)
        ks = in_force(sorted(ps["keysigs"], key=lambda x: x[0]), n["t"])
        r["ks_fifths"], r["ks_mode"] = (ks[1], -1 if ks[2] == "minor" else 1) if ks else (0, 1)
        b, bt = ref.ts_at(n["t"])
        r["ts_beats"], r["ts_beat_type"], r["ts_mus_beats"] = b, bt, G.MUSICAL_BEATS.get(b, b)
        rows[n["id"]] = r
        if n.get("voice") is not None:
            voices.append(n["voice"])
    fill = (max(voices) + 1) if voices else 0
    for r in rows.values():
        if r["voice"] is None:
            r["voice"] = fill
    # metrical position
    measures = [list(m) for m in ps["measures"]]
    m0 = measures[0]
    b0, bt0 = ref.ts_at(0)
    full = Fraction(b0 * 4, bt0) * ref.divs_at(0)
    if (m0[1] - m0[0]) < full:
        m0[0] = m0[1] - int(full)
    for r in rows.values():
        t = r["onset_div"]
        m = [x for x in measures if x[0] <= t < x[1]]
        if not m:
            m = [measures[-1]] if t >= measures[-1][1] else [measures[0]]
        m = m[-1]
        r["rel_onset_div"] = t - m[0]
        r["tot_measure_div"] = m[1] - m[0]
        r["is_downbeat"] = 1 if t == m[0] else 0
    return rows


COLS_ALWAYS = ["onset_beat", "duration_beat", "onset_quarter", "duration_quarter", "onset_div", "duration_div", "pitch", "voice", "id"]
COLS_BY_FLAG = {
    "include_pitch_spelling": ["step", "alter", "octave"],
    "include_key_signature": ["ks_fifths", "ks_mode"],
    "include_time_signature": ["ts_beats", "ts_beat_type", "ts_mus_beats"],
    "include_metrical_position": ["is_downbeat", "rel_onset_div", "tot_measure_div"],
    "include_grace_notes": ["is_grace", "grace_type"],
    "include_staff": ["staff"],
    "include_divs_per_quarter": ["divs_pq"],
}
FLOAT_COLS = {"onset_beat", "duration_beat", "onset_quarter", "duration_quarter"}


def compare_table(o, arr, rows, cols, what, id_of=lambda r: r["id"], skip_cols=(), order_by="onset_div"):
    names = arr.dtype.names
    for c in cols:
        if c not in names and c not in skip_cols:
            o.add(what + "-column-missing", column=c, names=list(names))
            return
    got_ids = [str(x) for x in arr["id"]]
    exp_ids = sorted(id_of(r) for r in rows.values())
    if sorted(got_ids) != exp_ids:
        o.add(what + "-rows-differ", extra=sorted(set(got_ids) - set(exp_ids))[:5], missing=sorted(set(exp_ids) - set(got_ids))[:5],
              n_got=len(got_ids), n_expected=len(exp_ids))
        return
    bykey = {id_of(r): r for r in rows.values()}
    for i, gid in enumerate(got_ids):
        r = bykey[gid]
        for c in cols:
            if c in skip_cols or c == "id":
                continue
            g = arr[c][i]
            e = r[c]
            ok = f32close(g, e) if c in FLOAT_COLS else (str(g) == str(e) if isinstance(e, str) else int(g) == int(e))
            if not ok:
                o.add("%s-%s-wrong" % (what, c), id=gid, got=(float(g) if c in FLOAT_COLS else str(g)), expected=(float(e) if c in FLOAT_COLS else str(e)), onset_div=r["onset_div"])
                return
    # ordering: onset, then pitch
    on = [float(x) for x in arr[order_by]]
    pi = [int(x) for x in arr["pitch"]]
    for i in range(1, len(on)):
        if on[i] < on[i - 1] or (on[i] == on[i - 1] and pi[i] < pi[i - 1]):
            o.add(what + "-not-sorted-by-onset-then-pitch", index=i, onsets=on[max(0, i - 2): i + 1], pitches=pi[max(0, i - 2): i + 1])
            return


# ------------------------------------------------------------------ part level
def strat_part(tier):
    prof = dict(PART_PROFILE)
    if tier == "thorough":
        prof["max_bars"] = 6
    return st.fixed_dictionaries(
        {
            "part": G.part_spec(prof),
            "flags": st.lists(st.booleans(), min_size=7, max_size=7),
            "musical": st.booleans(),
            "voice_mask": st.lists(st.booleans(), max_size=6),
            # voices numbered from 0 (a stated voice 0 is a value, not a missing voice)
            "voice_base": st.sampled_from([1, 1, 0]),
            # ---- generator audit (docs/audit/C05.md)
            # voice numbers with gaps / in any order instead of base..base+k-1
            "voice_labels": st.one_of(st.none(), st.none(), st.lists(st.integers(0, 12), min_size=3, max_size=3, unique=True)),
            # the documented ways to ask for the note array of one part
            "entry": st.sampled_from(["method", "method", "ensure", "function", "score-of-one-part"]),
            # another call with other options first (results must not depend on earlier calls)
            "warmup": st.one_of(st.none(), st.lists(st.booleans(), min_size=7, max_size=7)),
            # musical beats switched on and off again before the call
            "toggle_back": st.booleans(),
        }
    )


def relabel_voices(ps, labels):
    if not labels:
        return ps
    ps = dict(ps)
    vs = sorted(set(n["voice"] for n in ps["notes"] if n.get("voice") is not None))
    vmap = {v: labels[i % len(labels)] for i, v in enumerate(vs)}
    ps["notes"] = [dict(n, voice=vmap[n["voice"]] if n.get("voice") is not None else None) for n in ps["notes"]]
    return ps


def _get_note_array(entry, part, kw):
    from partitura.utils.music import ensure_notearray, note_array_from_part

    if entry == "ensure":
        return call(ensure_notearray, part, **kw)
    if entry == "function":
        return call(note_array_from_part, part, **kw)
    if entry == "score-of-one-part":
        return call(S.Score([part]).note_array, **kw)
    return call(part.note_array, **kw)


def shift_voices(ps, base):
    if base == 1:
        return ps
    ps = dict(ps)
    ps["notes"] = [dict(n, voice=(n["voice"] - 1 + base) if n.get("voice") is not None else None) for n in ps["notes"]]
    return ps


def oracle_part(spec):
    o = Outcome()
    ps = apply_missing_voice(relabel_voices(shift_voices(spec["part"], spec.get("voice_base", 1)), spec.get("voice_labels")), spec["voice_mask"])
    part, _ = build_part(ps)
    if spec.get("toggle_back"):
        # the other kind of beats switched on and off again: no trace may remain
        if spec["musical"]:
            call(part.use_notated_beat)
        else:
            call(part.use_musical_beat)
            call(part.use_notated_beat)
    if spec["musical"]:
        call(part.use_musical_beat)
    tref = G.TimeRef(ps, musical=spec["musical"])
    if tref.ambiguous_pickup:
        o.excluded.append("pickup-ambiguous")
        return o
    flags = dict(zip(FLAGS, spec["flags"]))
    multi_div = len(ps["divs"]) > 1
    chain_bars = 0
    for n in ps["notes"]:
        if n.get("tie_next") and not n.get("tie_prev"):
            chain_bars += 1
    has_grace = any(n["kind"] == "grace" for n in ps["notes"])
    o.nontrivial = chain_bars > 0 or has_grace
    o.cls("tie-chain", chain_bars > 0)
    o.cls("grace", has_grace)
    o.cls("division-change", multi_div)
    o.cls("missing-voice", any(n.get("voice") is None for n in ps["notes"] if n["kind"] in ("note", "grace")))
    o.cls("missing-staff", any(n.get("staff") is None for n in ps["notes"]))
    o.cls("voice-zero-with-others", len(set(n.get("voice") for n in ps["notes"] if n["kind"] in ("note", "grace")) - {None}) > 1 and any(n.get("voice") == 0 for n in ps["notes"] if n["kind"] in ("note", "grace")))
    for k, v in flags.items():
        o.cls(k, v)
    entry = spec.get("entry", "method")
    if entry == "score-of-one-part" and multi_div:
        entry = "method"  # the score level always asks for divs_pq (unsupported with division changes)
    vs = sorted(set(n["voice"] for n in ps["notes"] if n.get("voice") is not None and n["kind"] in ("note", "grace")))
    o.cls("voice-numbers-with-gaps", bool(vs) and vs != list(range(vs[0], vs[0] + len(vs))))
    o.cls("entry:" + entry)
    o.cls("warm-up-call-with-other-options", bool(spec.get("warmup")))
    o.cls("beats-toggled-back", bool(spec.get("toggle_back")))
    kw = {k: True for k, v in flags.items() if v}
    cols = list(COLS_ALWAYS)
    for k, v in flags.items():
        if v:
            cols += COLS_BY_FLAG[k]
    if entry == "score-of-one-part" and "divs_pq" not in cols:
        cols.append("divs_pq")
    skip = set()
    if len(ps["measures"]) < 2:
        skip.update(COLS_BY_FLAG["include_metrical_position"])
        if flags["include_metrical_position"]:
            o.excluded.append("metrical-position-single-measure")
    rows = expected_rows(ps, ("note", "grace"), tref)
    if not rows:
        o.excluded.append("part-without-notes")
        return o
    if spec.get("warmup"):
        wkw = {k: True for k, v in zip(FLAGS, spec["warmup"]) if v}
        try:
            call(part.note_array, **wkw)
        except SutRaised as e:
            if not (wkw.get("include_divs_per_quarter") and multi_div and "multiple divisions is not supported" in e.text):
                raise
    try:
        arr = _get_note_array(entry, part, kw)
    except SutRaised as e:
        if flags["include_divs_per_quarter"] and multi_div and "multiple divisions is not supported" in e.text:
            o.cls("divs-pq-unsupported-with-division-changes")
            kw.pop("include_divs_per_quarter")
            cols = [c for c in cols if c != "divs_pq"]
            arr = _get_note_array(entry, part, kw)
        else:
            raise
    compare_table(o, arr, rows, cols, "note-array", skip_cols=skip)
    return o


# ------------------------------------------------------------------ rest arrays
def strat_rest(tier):
    prof = dict(PART_PROFILE)
    return st.fixed_dictionaries(
        {
            "part": G.part_spec(prof),
            "flags": st.lists(st.booleans(), min_size=6, max_size=6),
            "collapse": st.booleans(),
            # ---- generator audit: rests without voice, musical beats, the dispatching entry point
            "voice_mask": st.one_of(st.just([]), st.lists(st.booleans(), max_size=6)),
            "musical": st.booleans(),
            "entry": st.sampled_from(["method", "method", "ensure"]),
        }
    )


REST_FLAGS = FLAGS[:6]


def oracle_rest(spec):
    o = Outcome()
    # (rests without voice only without collapse: joining "consecutive rests of one voice" says nothing about
    # voiceless rests of different voices that overlap in time)
    ps = apply_missing_voice(spec["part"], [] if spec["collapse"] else (spec.get("voice_mask") or []))
    part, _ = build_part(ps)
    if spec.get("musical"):
        call(part.use_musical_beat)
    tref = G.TimeRef(ps, musical=bool(spec.get("musical")))
    if tref.ambiguous_pickup:
        o.excluded.append("pickup-ambiguous")
        return o
    flags = dict(zip(REST_FLAGS, spec["flags"]))
    rows = expected_rows(ps, ("rest",), tref)
    o.cls("rest-without-voice", any(n.get("voice") is None for n in ps["notes"] if n["kind"] == "rest"))
    o.cls("musical-beats", bool(spec.get("musical")))
    o.cls("entry:" + spec.get("entry", "method"))
    o.nontrivial = len(rows) >= 2 and any(spec["flags"])
    o.cls("has-rests", bool(rows))
    o.cls("collapse", spec["collapse"])
    for k, v in flags.items():
        o.cls(k, v)
    kw = {k: True for k, v in flags.items() if v}
    cols = list(COLS_ALWAYS)
    for k, v in flags.items():
        if v:
            cols += [c for c in COLS_BY_FLAG[k] if c != "ts_mus_beats"]
    skip = set()
    if len(ps["measures"]) < 2:
        skip.update(COLS_BY_FLAG["include_metrical_position"])
    if spec.get("entry") == "ensure":
        from partitura.utils.music import ensure_rest_array

        arr = call(ensure_rest_array, part, collapse=spec["collapse"], **kw)
    else:
        arr = call(part.rest_array, collapse=spec["collapse"], **kw)
    if not rows:
        if len(arr) != 0:
            o.add("rest-array-rows-without-rests", n=len(arr))
        return o
    if spec["collapse"]:
        # documented: consecutive rests of one voice are joined, keeping the first id;
        # demanded: the union of covered (voice, interval) is unchanged and no two remaining
        # rows of one voice are consecutive
        cover_exp = sorted((r["voice"], r["onset_div"], r["onset_div"] + r["duration_div"]) for r in rows.values())
        merged = []
        for v, a, b in cover_exp:
            if merged and merged[-1][0] == v and merged[-1][2] == a:
                merged[-1][2] = b
            else:
                merged.append([v, a, b])
        got = sorted([int(v), int(a), int(a + d)] for v, a, d in zip(arr["voice"], arr["onset_div"], arr["duration_div"]))
        # float32 beat comparison inside collapse may fail to join at non-representable beats; accept
        # any partition of the expected merged intervals into consecutive pieces
        pieces = []
        for v, a, b in got:
            if pieces and pieces[-1][0] == v and pieces[-1][2] == a:
                pieces[-1][2] = b
            else:
                pieces.append([v, a, b])
        if pieces != merged:
            o.add("rest-array-collapse-changes-covered-time", got=got[:8], expected=merged[:8])
        return o
    compare_table(o, arr, rows, cols, "rest-array", skip_cols=skip)
    return o


# ------------------------------------------------------------------ score level
@st.composite
def strat_score_(draw, tier):
    n = draw(st.sampled_from([1, 2, 2, 3, 3]))
    parts = []
    for i in range(n):
        ps = draw(G.part_spec(SCORE_PROFILE, pid="P%d" % (i + 1), note_prefix="p%dn" % i))
        parts.append(ps)
    empty = draw(st.sampled_from([None, None, None, 0, 1, n - 1]))
    if empty is not None and empty < n and n > 1:
        parts[empty] = dict(parts[empty], notes=[n_ for n_ in parts[empty]["notes"] if n_["kind"] == "rest"], tuplets=[])
    unique = draw(st.booleans())
    container = draw(st.sampled_from(["score", "list", "group", "nested-group"]))
    if container == "nested-group" and (n < 2 or unique):
        # (ids of parts in nested groups get one prefix per level; only the unprefixed union is demanded)
        container = "group"
    # the same part object twice in the list (only with prefixed ids, rows are matched by id)
    alias = None
    if unique and container in ("score", "list") and draw(st.booleans()):
        alias = draw(st.integers(0, n - 1))
    return {
        "parts": parts,
        "unique": unique,
        "flags": draw(st.lists(st.booleans(), min_size=6, max_size=6)),
        "container": container,
        # method of the container / the dispatching function / the list function
        "entry": draw(st.sampled_from(["method", "ensure", "function"])),
        "alias": alias,
    }


def strat_score(tier):
    return strat_score_(tier)


def oracle_score(spec):
    from partitura.utils.music import ensure_notearray, note_array_from_part_list

    o = Outcome()
    parts_spec = list(spec["parts"])
    sspec = {"parts": parts_spec}
    container = spec["container"]
    n = len(parts_spec)
    if container == "group":
        sspec["groups"] = [{"symbol": "brace", "name": "G", "number": 1, "children": list(range(n))}]
    elif container == "nested-group":
        sspec["groups"] = [{"symbol": "bracket", "name": "G", "number": 1, "children": [0, {"symbol": "brace", "name": "H", "number": 2, "children": list(range(1, n))}]}]
    score, parts, _ = build_score(sspec)
    alias = spec.get("alias")
    if alias is not None:
        parts = parts + [parts[alias]]
        parts_spec = parts_spec + [parts_spec[alias]]
        score = S.Score(partlist=parts, id="score")
    flags = dict(zip(FLAGS[:6], spec["flags"]))
    kw = {k: True for k, v in flags.items() if v}
    divs = [p["divs"][0][1] for p in parts_spec]
    nonempty = [i for i, p in enumerate(parts_spec) if any(n_["kind"] in ("note", "grace") for n_ in p["notes"])]
    if not nonempty:
        o.excluded.append("no-notes-at-all")
        return o
    L_all = 1
    for d in divs:
        L_all = lcm(L_all, d)
    L_ne = 1
    for i in nonempty:
        L_ne = lcm(L_ne, divs[i])
    o.nontrivial = len(set(divs[i] for i in nonempty)) > 1
    o.cls("different-divisions", o.nontrivial)
    o.cls("lcm-exceeds-all", L_ne > max(divs[i] for i in nonempty))
    o.cls("empty-part", len(nonempty) < len(parts_spec))
    o.cls("empty-part-first", 0 not in nonempty)
    o.cls("unique-ids", spec["unique"])
    o.cls("container:" + container)
    entry = spec.get("entry", "function")
    o.cls("entry:" + entry)
    o.cls("single-part", len(parts_spec) == 1)
    o.cls("same-part-twice", alias is not None)
    if container == "score":
        if entry == "ensure":
            arr = call(ensure_notearray, score, unique_id_per_part=spec["unique"], **kw)
        elif entry == "function":
            arr = call(note_array_from_part_list, score.parts, unique_id_per_part=spec["unique"], **kw)
        else:
            arr = call(score.note_array, unique_id_per_part=spec["unique"], **kw)
    elif container == "list":
        if entry == "ensure":
            arr = call(ensure_notearray, parts, unique_id_per_part=spec["unique"], **kw)
        else:
            arr = call(note_array_from_part_list, parts, unique_id_per_part=spec["unique"], **kw)
    else:
        group = score.part_structure[0]
        if entry == "ensure":
            arr = call(ensure_notearray, group, unique_id_per_part=spec["unique"], **kw)
        elif entry == "method":
            arr = call(group.note_array, unique_id_per_part=spec["unique"], **kw)
        else:
            arr = call(note_array_from_part_list, group.children, unique_id_per_part=spec["unique"], **kw)
    cols = list(COLS_ALWAYS) + ["divs_pq"]
    for k, v in flags.items():
        if v:
            cols += COLS_BY_FLAG[k]
    prefixed = spec["unique"] and len(parts_spec) > 1
    last = None
    for L in ([L_ne] if L_ne == L_all else [L_ne, L_all]):
        rows = {}
        skip = set()
        for i, ps in enumerate(parts_spec):
            tref = G.TimeRef(ps)
            if tref.ambiguous_pickup:
                o.excluded.append("pickup-ambiguous")
                return o
            if len(ps["measures"]) < 2:
                skip.update(COLS_BY_FLAG["include_metrical_position"])
            mult = L // divs[i]
            for nid, r in expected_rows(ps, ("note", "grace"), tref).items():
                r = dict(r)
                r["onset_div"] *= mult
                r["duration_div"] *= mult
                r["divs_pq"] = L
                # metrical columns are taken from the part's own map (not rescaled)
                key = ("P%02d_" % i + nid) if prefixed else nid
                r["id"] = key
                rows[key] = r
        sub = Outcome()
        compare_table(sub, arr, rows, cols, "score-note-array", skip_cols=skip | {"rel_onset_div", "tot_measure_div"}, order_by="onset_beat")
        if last is None:
            last = sub  # report against the first reading (lcm over the parts that have notes)
        if not sub.discs:
            return o
    o.discs.extend(last.discs)
    return o


# ------------------------------------------------------------------ inverse: note array -> score -> note array
def strat_inverse(tier):
    den = st.sampled_from([1, 2, 3, 4, 6, 8, 12, 16])
    n = st.integers(1, 12 if tier == "quick" else 30)

    @st.composite
    def rows(draw):
        d_on = draw(den)
        d_du = draw(den)
        k = draw(n)
        out = []
        for i in range(k):
            on = Fraction(draw(st.integers(0, 16 * d_on)), d_on)
            du = Fraction(draw(st.integers(1, 4 * d_du)), d_du)
            out.append([unfr(on), unfr(du), draw(st.integers(36, 96))])
        kind = draw(st.sampled_from(["beat", "div", "both"]))
        with_voice = draw(st.booleans())
        # ---- generator audit (docs/audit/C05.md)
        # zero-duration rows (grace notes) at the onset of a row of the same voice (needs the voice column:
        # without it voices are estimated, and sanitize drops grace notes without main note in their voice)
        grace = []
        if with_voice and draw(st.integers(0, 2)) == 0:
            for i in sorted(set(draw(st.lists(st.integers(0, k - 1), min_size=1, max_size=3)))):
                grace.append([out[i][0], draw(st.integers(30, 100))])
        return {
            "rows": out,
            "kind": kind,
            "divs_mult": draw(st.sampled_from([1, 1, 2, 5])),
            "with_ts": draw(st.booleans()),
            "sanitize": draw(st.booleans()),
            "with_voice": with_voice,
            "grace": grace,
            # a list of note arrays gives a score with one part per array (rows dealt out alternately)
            "as_list": kind != "beat" and k >= 2 and draw(st.integers(0, 3)) == 0,
            "return_part": draw(st.integers(0, 3)) == 0,
            # the other documented ways to state the time signature
            "ts_arg": draw(st.sampled_from([None, None, "estimate", "list3", "list4"])),
            # an id column that is kept
            "with_ids": draw(st.integers(0, 3)) == 0,
        }

    return rows()


def oracle_inverse(spec):
    o = Outcome()
    rows = [(fr(a), fr(b), p) for a, b, p in spec["rows"]]
    # smallest divisions value representing every onset and duration
    divs = 1
    for a, b, _ in rows:
        divs = lcm(divs, a.denominator)
        divs = lcm(divs, b.denominator)
    divs *= spec["divs_mult"]
    dur_den = 1
    for _, b, _ in rows:
        dur_den = lcm(dur_den, b.denominator)
    on_den = 1
    for a, _, _ in rows:
        on_den = lcm(on_den, a.denominator)
    kind = spec["kind"]
    o.nontrivial = len(rows) >= 2
    o.cls("kind:" + kind)
    o.cls("onset-grid-finer-than-duration-grid", dur_den % on_den != 0)
    o.cls("with-time-signature", spec["with_ts"])
    o.cls("sanitize", spec["sanitize"])
    grace = [(fr(a), Fraction(0), p) for a, p in spec.get("grace", [])]
    o.cls("zero-duration-rows", bool(grace))
    o.cls("list-of-arrays", bool(spec.get("as_list")))
    o.cls("return-part", bool(spec.get("return_part")) and not spec.get("as_list"))
    o.cls("time-signature-argument", bool(spec.get("ts_arg")) and not spec["with_ts"] and not spec.get("as_list"))
    o.cls("id-column-kept", bool(spec.get("with_ids")))
    fields = []
    if kind in ("beat", "both"):
        fields += [("onset_beat", "f4"), ("duration_beat", "f4")]
    if kind in ("div", "both"):
        fields += [("onset_div", "i4"), ("duration_div", "i4")]
    fields += [("pitch", "i4")]
    if spec["with_voice"]:
        fields += [("voice", "i4")]
    if spec["with_ts"]:
        fields += [("ts_beats", "i4"), ("ts_beat_type", "i4")]
    if spec.get("with_ids"):
        fields += [("id", "U32")]
    all_rows = rows + grace
    data = []
    for i, (a, b, p) in enumerate(all_rows):
        rec = ()
        if kind in ("beat", "both"):
            rec += (float(a), float(b))
        if kind in ("div", "both"):
            rec += (int(a * divs), int(b * divs))
        rec += (p,)
        if spec["with_voice"]:
            rec += (1,)
        if spec["with_ts"]:
            rec += (4, 4)
        if spec.get("with_ids"):
            rec += ("x%d" % i,)
        data.append(rec)
    kw = dict(sanitize=spec["sanitize"], assign_note_ids=not spec.get("with_ids"))
    if kind in ("div", "both"):
        kw["divs"] = divs
    exp = sorted((a, b, p) for a, b, p in all_rows)
    if spec.get("as_list"):
        # rows dealt out alternately; a zero-duration row goes where its main note (first row with its onset) goes
        side = [i % 2 for i in range(len(rows))]
        for (a, _, _) in grace:
            side.append(side[[i for i, r in enumerate(rows) if r[0] == a][0]])
        arrays = [np.array([r for r, sd in zip(data, side) if sd == k], dtype=fields) for k in (0, 1)]
        sc = call(note_array_to_score, arrays, **kw)
        out_parts = list(sc.parts)
        if len(out_parts) != 2:
            o.add("inverse-list-of-arrays-gives-other-number-of-parts", got=len(out_parts))
            return o
    else:
        na = np.array(data, dtype=fields)
        if not spec["with_ts"]:
            # (a 4/4 signature from time 0; all times here are in quarters)
            end = int(max(a + b for a, b, _ in all_rows) * divs) + 1
            if spec.get("ts_arg") == "estimate":
                kw["estimate_time"] = True
            elif spec.get("ts_arg") == "list3" and kind != "beat":
                kw["time_sigs"] = [[0, 4, 4]]
            elif spec.get("ts_arg") == "list4" and kind != "beat":
                kw["time_sigs"] = [[0, 4, 4, end]]
        if spec.get("return_part"):
            res = call(note_array_to_score, na, return_part=True, **kw)
            if not isinstance(res, S.Part):
                o.add("inverse-return-part-gives-no-part", got=type(res).__name__)
                return o
            out_parts = [res]
        else:
            sc = call(note_array_to_score, na, **kw)
            out_parts = list(sc.parts)
    # compare multisets in quarters (beats are quarters here: x/4 signatures or none)
    got = []
    d_outs = []
    for part in out_parts:
        out = call(part.note_array)
        d_out = Fraction(int(part._quarter_durations[0]))
        d_outs.append(str(d_out))
        got += [(Fraction(int(x), 1) / d_out, Fraction(int(y), 1) / d_out, int(p)) for x, y, p in zip(out["onset_div"], out["duration_div"], out["pitch"])]
    got.sort()
    if len(got) != len(exp):
        o.add("inverse-row-count-differs", got=len(got), expected=len(exp), array_kind=kind, zero_duration_rows=len(grace))
        return o
    if got != exp:
        bad = [(g, e) for g, e in zip(got, exp) if g != e][:3]
        o.add("inverse-onset-duration-pitch-differ", array_kind=kind, divs_in=divs, divs_out=",".join(d_outs),
              first_diffs=[[str(x) for x in g] + ["vs"] + [str(x) for x in e] for g, e in bad])
    return o


# ------------------------------------------------------------------ inverse with time-signature columns
TS_CHOICES = [(3, 4), (6, 8), (2, 2), (4, 4), (2, 4), (4, 8), (3, 2), (6, 4), (9, 8), (5, 4)]


@st.composite
def strat_inverse_ts(draw, tier):
    d = draw(st.sampled_from([2, 4, 8, 12]))
    nseg = draw(st.integers(1, 3))
    segments = []
    prev = None
    same_length = draw(st.sampled_from([None, None, [(3, 4), (6, 8)], [(2, 2), (4, 4)], [(6, 8), (3, 4)], [(4, 4), (2, 2)], [(2, 4), (4, 8)], [(3, 2), (6, 4)]]))
    plan = list(same_length) if same_length else []
    while len(plan) < nseg:
        plan.append(draw(st.sampled_from(TS_CHOICES)))
    for ts in plan:
        if ts == prev:
            continue
        prev = ts
        segments.append([ts[0], ts[1], draw(st.integers(1, 2))])
    bars = []
    for (b, bt, nb) in segments:
        L = b * 4 * d // bt
        for _ in range(nb):
            k = draw(st.integers(1, 3))
            notes = []
            for _ in range(k):
                on = draw(st.integers(0, L - 1))
                du = draw(st.integers(1, L - on))
                notes.append([on, du, draw(st.integers(40, 90))])
            # every bar starts with a note that fills it, so that a signature change is carried by
            # a row and no bar is shorter than its signature says (a short bar would be a pickup)
            notes[0][0] = 0
            notes[0][1] = L
            bars.append(notes)
    return {"divs": d, "segments": segments, "bars": bars, "sanitize": draw(st.booleans())}


def oracle_inverse_ts(spec):
    o = Outcome()
    d = spec["divs"]
    rows = []  # onset_div, dur_div, pitch, beats, beat_type, expected onset_beat
    t = 0
    beat0 = Fraction(0)
    bi = 0
    for (b, bt, nb) in spec["segments"]:
        L = b * 4 * d // bt
        for _ in range(nb):
            for (on, du, p) in spec["bars"][bi]:
                rows.append((t + on, du, p, b, bt, beat0 + Fraction(on * bt, 4 * d)))
            bi += 1
            t += L
            beat0 += b
    # distinct (onset, pitch) so that rows can be matched
    seen, uniq = set(), []
    for r in rows:
        if (r[0], r[2]) in seen:
            continue
        seen.add((r[0], r[2]))
        uniq.append(r)
    rows = uniq
    segs = spec["segments"]
    same_bar_length = any(Fraction(a[0] * 4, a[1]) == Fraction(b[0] * 4, b[1]) for a, b in zip(segs, segs[1:]))
    o.nontrivial = len(segs) >= 2
    o.cls("signature-change", len(segs) >= 2)
    o.cls("signature-change-keeping-bar-length", same_bar_length)
    na = np.array([(r[0], r[1], r[2], 1, r[3], r[4]) for r in rows],
                  dtype=[("onset_div", "i4"), ("duration_div", "i4"), ("pitch", "i4"), ("voice", "i4"), ("ts_beats", "i4"), ("ts_beat_type", "i4")])
    sc = call(note_array_to_score, na, divs=d, sanitize=spec["sanitize"], assign_note_ids=True)
    part = sc.parts[0]
    out = call(part.note_array, include_time_signature=True)
    got = {}
    for r in out:
        got[(int(r["onset_div"]), int(r["pitch"]))] = r
    if sorted(got) != sorted((r[0], r[2]) for r in rows):
        o.add("inverse-ts-notes-differ", n_got=len(got), n_expected=len(rows))
        return o
    for r in rows:
        g = got[(r[0], r[2])]
        if int(g["duration_div"]) != r[1]:
            o.add("inverse-ts-duration-differs", onset=r[0], got=int(g["duration_div"]), expected=r[1])
            break
        if (int(g["ts_beats"]), int(g["ts_beat_type"])) != (r[3], r[4]):
            o.add("inverse-ts-signature-at-onset-differs", onset=r[0], got=[int(g["ts_beats"]), int(g["ts_beat_type"])], expected=[r[3], r[4]], segments=segs)
            break
        if not f32close(g["onset_beat"], r[5]):
            o.add("inverse-ts-onset-beat-differs", onset=r[0], got=float(g["onset_beat"]), expected=float(r[5]), segments=segs)
            break
    return o


# ------------------------------------------------------------------ inverse applied to the note array of a generated part
RT_PROFILE = G.profile(max_bars=3, max_voices=2, max_staves=1, div_changes=False, midbar_changes=False, irregular=False, missing_voice_staff=False)


def strat_part_roundtrip(tier):
    prof = dict(RT_PROFILE)
    if tier == "thorough":
        prof["max_bars"] = 5
    return st.fixed_dictionaries(
        {
            "part": G.part_spec(prof),
            "time_columns": st.sampled_from(["both", "both", "div"]),
            "signature_columns": st.booleans(),
            "sanitize": st.booleans(),
        }
    )


def oracle_part_roundtrip(spec):
    """The note array of a part (as the library itself produces it: divisions and beats, negative beats in a
    pickup, tie chains as one row, grace notes with zero duration) given to note_array_to_score: the note array
    of the result has the same (onset_div, duration_div, pitch) rows."""
    o = Outcome()
    ps = dict(spec["part"])
    byid = {n["id"]: n for n in ps["notes"]}
    # sanitize removes grace notes that have no main note at their onset in their voice (documented in
    # sanitize_part); in a note array a main note that continues a tie is no row: such grace notes are left out
    drop = set()
    for n in ps["notes"]:
        if n["kind"] == "grace":
            cur = n
            while cur is not None and cur["kind"] == "grace":
                cur = byid.get(cur.get("grace_next"))
            if cur is None or cur.get("tie_prev"):
                drop.add(n["id"])
    ps["notes"] = [n for n in ps["notes"] if n["id"] not in drop]
    part, _ = build_part(ps)
    d = ps["divs"][0][1]
    tref = G.TimeRef(ps)
    rows = expected_rows(ps, ("note", "grace"), tref)
    if not rows:
        o.excluded.append("part-without-notes")
        return o
    exp = sorted((r["onset_div"], r["duration_div"], r["pitch"]) for r in rows.values())
    o.nontrivial = ps["pickup"] is not None or any(r["duration_div"] == 0 for r in rows.values()) or any(n.get("tie_next") for n in ps["notes"])
    o.cls("pickup", ps["pickup"] is not None)
    o.cls("grace", any(r["duration_div"] == 0 for r in rows.values()))
    o.cls("tie-chain", any(n.get("tie_next") for n in ps["notes"]))
    o.cls("signature-change", len(ps["timesigs"]) > 1)
    o.cls("beat-is-not-a-quarter", any(bt != 4 for _, _, bt in ps["timesigs"]))
    o.cls("time-columns:" + spec["time_columns"])
    o.cls("signature-columns", spec["signature_columns"])
    o.cls("sanitize", spec["sanitize"])
    na = call(part.note_array, include_time_signature=spec["signature_columns"])
    if spec["time_columns"] == "div":
        keep = [c for c in na.dtype.names if c not in ("onset_beat", "duration_beat", "onset_quarter", "duration_quarter")]
        na = na[keep].copy()
    sc = call(note_array_to_score, na, divs=d, sanitize=spec["sanitize"])
    p2 = sc.parts[0]
    d2 = int(p2._quarter_durations[0])
    if d2 != d:
        o.add("roundtrip-divisions-differ", got=d2, expected=d)
        return o
    out = call(p2.note_array)
    got = sorted((int(x), int(y), int(z)) for x, y, z in zip(out["onset_div"], out["duration_div"], out["pitch"]))
    if got != exp:
        from collections import Counter

        miss = sorted((Counter(exp) - Counter(got)).elements())[:4]
        extra = sorted((Counter(got) - Counter(exp)).elements())[:4]
        o.add("part-array-roundtrip-rows-differ", missing=miss, extra=extra, pickup=ps["pickup"], timesigs=ps["timesigs"])
    return o


def known_divs_from_beats(spec, d):
    """create_divs_from_beats derives divisions from the durations only."""
    if d.kind not in ("inverse-onset-duration-pitch-differ",):
        return False
    if spec.get("kind") != "beat":
        return False
    dur_den, on_den = 1, 1
    for a, b, _ in spec["rows"]:
        on_den = lcm(on_den, fr(a).denominator)
        dur_den = lcm(dur_den, fr(b).denominator)
    return dur_den % on_den != 0


SUBCHECKS = [
    SubCheck(
        "part_note_array",
        oracle_part,
        strategy=strat_part,
        budget={"quick": 120, "thorough": 4000},
        rule="generated parts (division/signature changes, pickups, tie chains, grace notes, missing voice/staff, voice numbers with gaps, notated/musical beats incl. switched on and off again) x all 128 include_* subsets (sampled) x entry point (Part.note_array, ensure_notearray, note_array_from_part, Score of one part) x optional earlier call with other options; every column compared with the abstract score; non-trivial = tie chain or grace note",
        floors={"tie-chain": 0.1, "grace": 0.05, "include_staff": 0.15, "include_metrical_position": 0.15, "missing-voice": 0.05,
                # generator audit (docs/audit/C05.md)
                "voice-numbers-with-gaps": 0.03, "entry:ensure": 0.05, "entry:function": 0.05, "entry:score-of-one-part": 0.01,
                "warm-up-call-with-other-options": 0.1, "beats-toggled-back": 0.1},
    ),
    SubCheck(
        "rest_array",
        oracle_rest,
        strategy=strat_rest,
        budget={"quick": 60, "thorough": 2000},
        rule="rest arrays of generated parts (rests without voice, musical beats) x include_* subsets x collapse x entry point (Part.rest_array, ensure_rest_array); non-trivial = >=2 rests and an option on",
        floors={"has-rests": 0.3, "rest-without-voice": 0.02, "musical-beats": 0.1, "entry:ensure": 0.06},
    ),
    SubCheck(
        "score_note_array",
        oracle_score,
        strategy=strat_score,
        budget={"quick": 60, "thorough": 2500},
        rule="scores / part lists / part groups / nested part groups of 1-3 parts with one divisions value each, the same part twice in a list, through the container's method, ensure_notearray or note_array_from_part_list (lcm rescaling, P%02d_ ids, empty parts); non-trivial = parts with different divisions",
        floors={"different-divisions": 0.2, "empty-part": 0.05, "single-part": 0.05, "container:nested-group": 0.03, "entry:ensure": 0.06,
                "entry:method": 0.1, "same-part-twice": 0.02},
    ),
    SubCheck(
        "note_array_to_score",
        oracle_inverse,
        strategy=strat_inverse,
        budget={"quick": 40, "thorough": 1500},
        rule="note arrays with beat, division or both time columns on rational grids (denominators <= 16), with/without signature and voice columns, zero-duration rows, id column, time signature by columns / time_sigs list / estimate_time, a list of arrays, return_part, sanitize on/off; score built and its note array compared as a multiset of (onset, duration, pitch) in quarters; non-trivial = >=2 rows",
        known={"divs-from-beats-ignores-onset-grid": known_divs_from_beats},
        floors={"zero-duration-rows": 0.04, "list-of-arrays": 0.05, "return-part": 0.1, "time-signature-argument": 0.05, "id-column-kept": 0.1},
    ),
    SubCheck(
        "note_array_of_part_to_score",
        oracle_part_roundtrip,
        strategy=strat_part_roundtrip,
        budget={"quick": 40, "thorough": 1000},
        rule="the note array of a generated part (one divisions value; pickups with negative beats, signature changes incl. x/8 and x/2, tie chains over bar lines as one row, grace notes as zero-duration rows) with division+beat or only division columns, with / without signature columns, sanitize on/off, given to note_array_to_score; rows (onset_div, duration_div, pitch) of the result's note array compared; non-trivial = pickup, grace note or tie chain",
        floors={"pickup": 0.05, "grace": 0.05, "tie-chain": 0.1},
    ),
    SubCheck(
        "note_array_to_score_signatures",
        oracle_inverse_ts,
        strategy=strat_inverse_ts,
        budget={"quick": 100, "thorough": 2500},
        rule="note arrays in divisions with ts_beats/ts_beat_type columns over 1-3 signature segments (incl. changes that keep the bar length, e.g. 3/4 -> 6/8, 2/2 -> 4/4); rebuilt score's notes, signature in force at each onset and onset in beats compared; non-trivial = >= 2 segments",
        floors={"signature-change-keeping-bar-length": 0.05},
    ),
]
