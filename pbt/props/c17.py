"""C17 - spelling, voice and key estimation are total, well-formed and pitch-preserving.

Four generated sub-checks (Hypothesis):

* ``spelling``     estimate_spelling on note arrays: every row sounds its MIDI pitch, at most a
                   double accidental, result per (onset, pitch) independent of the row order.
* ``voices``       estimate_voices in both modes: one integer >= 1 per row (zero-length notes
                   included), used numbers are exactly 1..k, chord mode keeps equal
                   (onset, duration) rows together.
* ``key``          estimate_key with every accepted key-profile option: a valid key name;
                   invariant under octave shifts and duration rescaling; transposition moves the
                   tonic and keeps the mode.
* ``midi_import``  load_score_midi on small files with estimate_voice_info / estimate_key on and
                   off: the score holds exactly the file's (onset, pitch) pairs.

Expected values are computed here: 12*(octave+1)+base+alter, set arithmetic, and an own
implementation of the profile correlation (pbt/ref/c17_keyref.py) used as tie guard.
"""

import math
import os
import tempfile
from collections import Counter

import numpy as np
from hypothesis import strategies as st

from pbt.core import Outcome, SubCheck, SutRaised, call
from pbt.gen import c17_arrays as G
from pbt.ref import c17_keyref as K

import partitura.musicanalysis as MA
import partitura.score as S
from partitura.io.importmidi import load_score_midi

PROPERTY = "C17"
ENGINES = ["hypothesis"]
ASSUMPTIONS = [
    "a spelling sounds 12*(octave+1) + {C:0,D:2,E:4,F:5,G:7,A:9,B:11}[step] + alter (computed in the check)",
    "row-order independence of spelling is judged per distinct (onset, pitch); rows equal in both are compared as multisets",
    "key invariants are exact claims for octave shifts and power-of-two duration scaling; transposition is judged when the "
    "two best profile correlations (own implementation, same duration sums as the library) differ by more than 1e-9, "
    "scaling by other factors when they differ by more than 1e-5 (durations are stored as float32); constant "
    "pitch-class distributions (undefined correlation) are not judged for transposition",
    "the key estimate is also compared with the best-correlated key of the own implementation under the 1e-9 guard "
    "(the documented procedure: Krumhansl-Schmuckler correlation with the selected profile set)",
    "MIDI files never contain two overlapping notes of one pitch on one track and channel (not expressible in MIDI); times lie on a "
    "metrical grid as load_score_midi documents; tied continuations (tie_prev set) are not counted as notes of the file",
]

BASE = {"C": 0, "D": 2, "E": 4, "F": 5, "G": 7, "A": 9, "B": 11}


def _nontrivial(spec):
    rows = spec["rows"]
    return len(rows) >= 8 and len(set(int(r[2]) % 12 for r in rows)) >= 3


def _effective_fields(arr):
    """Columns the analysis functions read (score units preferred, beat > quarter > div; sec > tick)."""
    names = arr.dtype.names
    for u in ("beat", "quarter", "div", "sec", "tick"):
        if "onset_" + u in names:
            return "onset_" + u, "duration_" + u
    raise AssertionError("no time unit")


def _case_input(o, spec):
    """(effective rows spec, what is handed to the function, row order of the effective array).

    For an object input (Part / PerformedPart) the rows of the result follow the object's own note array; its
    ids tell which note a row is, and the effective array is built in that order."""
    o.cls("columns:8-byte", bool(spec.get("wide")))
    o.cls("columns:score-and-performance", spec.get("extra") == "mixed")
    if spec.get("container") == "object":
        built = G.object_input(spec)
        if built is not None:
            obj, eff, kind = built
            import warnings

            with warnings.catch_warnings():
                warnings.simplefilter("ignore")
                na = call(obj.note_array)
            order = [int(str(x).split("n")[-1]) for x in na["id"]]
            if sorted(order) != list(range(len(spec["rows"]))):
                o.add("object-note-array-notes-lost-or-duplicated", input=kind, got=order)
                order = list(range(len(spec["rows"])))
            o.cls("input:" + kind)
            o.cls("input:object")
            return eff, obj, order
        o.cls("object-not-applicable(array given)")
    return spec, None, None


def _arg(given, arr):
    return arr.copy() if given is None else given


def _unchanged(o, fn, before, after):
    if before.dtype != after.dtype or before.tobytes() != after.tobytes():
        o.add("input-array-modified", function=fn)


def _shape_classes(o, spec, arr):
    of, df = _effective_fields(arr)
    on = arr[of].tolist()
    du = arr[df].tolist()
    n = len(on)
    o.cls("unit:" + spec["unit"])
    o.cls("rows:1", n == 1)
    o.cls("rows:2-8", 2 <= n <= 8)
    o.cls("rows:9-30", 9 <= n <= 30)
    o.cls("rows:31-60", 31 <= n <= 60)
    o.cls("rows:>60", n > 60)
    o.cls("zero-length-note", any(d == 0 for d in du))
    o.cls("simultaneous-onsets", len(set(on)) < n)
    o.cls("rows-not-in-onset-order", any(on[i] > on[i + 1] for i in range(n - 1)))
    o.cls("negative-onset", any(x < 0 for x in on))
    order = sorted(range(n), key=lambda i: on[i])
    end = None
    overlap = False
    for i in order:
        if end is not None and on[i] < end and du[i] > 0:
            overlap = True
        end = max(end, on[i] + du[i]) if end is not None else on[i] + du[i]
    o.cls("overlapping-notes", overlap)
    o.cls("equal-onset-and-pitch", len(set(zip(on, arr["pitch"].tolist()))) < n)
    o.cls("float-times", spec["time"] == "float")


# ---------------------------------------------------------------------------
# spelling
# ---------------------------------------------------------------------------


def strat_spelling(tier):
    return st.fixed_dictionaries(
        {
            "notes": G.rows_spec(tier, 21, 108, zero="some", sizes=[3, 8, 12, 16, 24, 40, 60, 300, 300]),
            "perm": st.lists(st.integers(0, 7), min_size=0, max_size=G.max_rows(tier)),
            "method": st.booleans(),
            "window": st.sampled_from([None, None, [10, 40], [1, 1], [3, 5], [20, 80], [40, 10]]),
        }
    ).map(lambda d: dict(d["notes"], perm=d["perm"], method=d["method"], window=d["window"]))


def _check_spelling_rows(o, res, pitches, label):
    n = len(pitches)
    if not isinstance(res, np.ndarray) or res.shape != (n,) or res.dtype.names is None or not set(
        ("step", "alter", "octave")
    ) <= set(res.dtype.names):
        o.add("spelling-malformed-result", call=label, got=repr(res)[:200], rows=n)
        return None
    out = []
    for i in range(n):
        step, alter, octave = str(res["step"][i]), res["alter"][i], res["octave"][i]
        if step not in BASE:
            o.add("spelling-bad-step", call=label, row=i, step=step)
            return None
        if int(alter) != alter or int(octave) != octave:
            o.add("spelling-not-integral", call=label, row=i, alter=repr(alter), octave=repr(octave))
            return None
        alter, octave = int(alter), int(octave)
        sounds = 12 * (octave + 1) + BASE[step] + alter
        if sounds != pitches[i]:
            o.add("spelling-sounds-other-pitch", call=label, row=i, pitch=pitches[i], spelling=[step, alter, octave], sounds=sounds)
        if abs(alter) > 2:
            o.add("spelling-beyond-double-accidental", call=label, row=i, pitch=pitches[i], spelling=[step, alter, octave])
        out.append((step, alter, octave))
    return out


def oracle_spelling(spec):
    o = Outcome(nontrivial=_nontrivial(spec))
    spec, given, order = _case_input(o, spec)
    arr = G.build_array(spec, order=order)
    n = len(arr)
    _shape_classes(o, spec, arr)
    pitches = arr["pitch"].tolist()
    # documented arguments: the method (only ps13s1) and the window sizes of the algorithm as keyword arguments
    kw = {}
    if spec.get("method"):
        kw["method"] = "ps13s1"
        o.cls("method-given")
    if spec.get("window"):
        kw["K_pre"], kw["K_post"] = spec["window"]
        o.cls("window-sizes-given")
    handed = _arg(given, arr)
    res = call(MA.estimate_spelling, handed, **kw)
    if given is None:
        _unchanged(o, "estimate_spelling", arr, handed)
    sp = _check_spelling_rows(o, res, pitches, "given-order")
    perm = G.permutation(spec.get("perm", []), n)
    moved = perm != list(range(n))
    o.cls("permutation-moves-rows", moved)
    arr2 = arr[np.asarray(perm, dtype=int)]
    res2 = call(MA.estimate_spelling, arr2.copy(), **kw)
    sp2 = _check_spelling_rows(o, res2, arr2["pitch"].tolist(), "permuted")
    if sp is not None and sp2 is not None:
        of, _ = _effective_fields(arr)
        by1, by2 = {}, {}
        for i in range(n):
            by1.setdefault((float(arr[of][i]), pitches[i]), []).append(sp[i])
        for j in range(n):
            by2.setdefault((float(arr2[of][j]), int(arr2["pitch"][j])), []).append(sp2[j])
        for key in sorted(by1):
            if sorted(by1[key]) != sorted(by2.get(key, [])):
                o.add(
                    "spelling-depends-on-row-order",
                    onset=key[0],
                    pitch=key[1],
                    given=sorted(by1[key]),
                    permuted=sorted(by2.get(key, [])),
                )
                break
    return o


# ---------------------------------------------------------------------------
# voices
# ---------------------------------------------------------------------------

VOICE_INIT = "sut-raised:TypeError@musicanalysis/voice_separation.py:__init__"


def strat_voices(tier):
    # voice separation is the slow one (about 30 ms per 100 notes, both modes are run): sizes are skewed small
    return G.rows_spec(tier, 0, 127, zero="some", maxn=60 if tier == "quick" else 300, sizes=[3, 6, 6, 12, 12, 24, 24, 60, 60, 300])


def _zero_rows_by_onset(spec):
    """onset -> (number of zero-length rows, number of other rows, set of durations) on the stored values."""
    arr = G.build_array(spec)
    of, df = _effective_fields(arr)
    out = {}
    for on, du in zip(arr[of].tolist(), arr[df].tolist()):
        z = out.setdefault(on, [0, 0])
        z[0 if du == 0 else 1] += 1
    return out


def known_voices_lone_zero(spec, d):
    """int(one-element array) in VoSA.__init__: a zero-length note without a companion at its onset."""
    if d.kind != VOICE_INIT or "0-dimensional" not in str(d["detail"].get("text", "")):
        return False
    mono = d["detail"].get("monophonic_voices")
    by = _zero_rows_by_onset(spec)
    if mono:
        return any(z == 1 and nz == 0 for z, nz in by.values())
    # chord mode merges the zero-length rows of one onset into one chord first
    return any(z >= 1 and nz == 0 for z, nz in by.values())


def known_voices_grace_cycle(spec, d):
    """two zero-length notes at one onset choose each other as main note: endless voice propagation."""
    if not d.kind.startswith("sut-raised:RecursionError@musicanalysis/voice_separation.py"):
        return False
    if not d["detail"].get("monophonic_voices"):
        return False
    return any(z >= 2 for z, nz in _zero_rows_by_onset(spec).values())


def known_voices_zero_at_last_onset(spec, d):
    """(masked by lone-zero today) a lone zero-length note at the last onset indexes past the onset list."""
    if d.kind != "sut-raised:IndexError@musicanalysis/voice_separation.py:__init__":
        return False
    by = _zero_rows_by_onset(spec)
    last = max(by)
    return by[last][0] >= 1 and by[last][1] == 0


def oracle_voices(spec):
    o = Outcome(nontrivial=_nontrivial(spec))
    spec, given, order = _case_input(o, spec)
    arr = G.build_array(spec, order=order)
    n = len(arr)
    _shape_classes(o, spec, arr)
    of, df = _effective_fields(arr)
    on = arr[of].tolist()
    du = arr[df].tolist()
    groups = {}
    for i in range(n):
        groups.setdefault((on[i], du[i]), []).append(i)
    o.cls("rows-with-equal-onset-and-duration", any(len(g) > 1 for g in groups.values()))
    # None: monophonic_voices left out (the signature's default is True, the docstring says False: only the
    # claims common to both modes are judged then)
    for mono in (True, False, None) if n % 3 == 0 else (True, False):
        try:
            handed = _arg(given, arr)
            if mono is None:
                o.cls("mode-omitted")
                v = call(MA.estimate_voices, handed)
            elif spec["rows"] and len(spec["rows"]) % 2:
                v = call(MA.estimate_voices, handed, monophonic_voices=mono)
            else:
                v = call(MA.estimate_voices, handed, mono)
            if given is None:
                _unchanged(o, "estimate_voices", arr, handed)
        except SutRaised as e:
            o.add(e.kind, text=e.text, monophonic_voices=mono)
            o.cls("sut-raised")
            continue
        if not isinstance(v, np.ndarray) or v.shape != (n,) or not np.issubdtype(v.dtype, np.integer):
            o.add("voices-malformed-result", monophonic_voices=mono, got=repr(v)[:200], rows=n)
            continue
        vals = [int(x) for x in v]
        if min(vals) < 1:
            o.add("voices-not-positive", monophonic_voices=mono, voices=vals[:40])
            continue
        if sorted(set(vals)) != list(range(1, max(vals) + 1)):
            o.add("voices-numbering-has-gaps", monophonic_voices=mono, used=sorted(set(vals)))
        o.cls("several-voices", max(vals) > 1)
        if mono is False:
            for key in sorted(groups):
                g = groups[key]
                if len(set(vals[i] for i in g)) > 1:
                    o.add(
                        "voices-chord-split",
                        onset=key[0],
                        duration=key[1],
                        rows=g,
                        voices=[vals[i] for i in g],
                    )
                    break
    return o


# ---------------------------------------------------------------------------
# key
# ---------------------------------------------------------------------------

PROFILE_OPTIONS = [None, "krumhansl_kessler", "temperley", "kostka_payne", "kp"]
# listed in partitura.utils.globals.VALID_KEY_PROFILES as well
PROFILE_ALIASES = {"kk": "kk", "tp": "cbms"}


def strat_key(tier):
    return st.fixed_dictionaries(
        {
            # two thirds of the cases leave room for an octave shift in both directions
            "notes": st.one_of(
                G.rows_spec(tier, 21, 108, zero="some", sizes=[3, 8, 12, 24, 60, 300]),
                G.rows_spec(tier, 36, 96, zero="some", sizes=[3, 8, 12, 24, 60, 300]),
                G.rows_spec(tier, 36, 96, zero="some", sizes=[3, 8, 12, 24, 60, 300]),
            ),
            "profile": st.sampled_from(PROFILE_OPTIONS * 3 + sorted(PROFILE_ALIASES)),
            "octaves": st.sampled_from([-3, -2, -1, 1, 2, 3]),
            "semitones": st.integers(1, 11),
            "pow2": st.sampled_from([-6, -3, -2, -1, 1, 2, 3, 5]),
            "factor": st.one_of(st.sampled_from([3.0, 1.5, 0.1, 10.0, 0.75]), st.floats(0.0625, 20.0, width=32)),
            "method": st.booleans(),
        }
    ).map(lambda d: dict(d["notes"], **{k: v for k, v in d.items() if k != "notes"}))


def _estimate_key(arr, option, given=None, method=False, o=None):
    handed = _arg(given, arr)
    kw = {}
    if option is not None:
        kw["key_profiles"] = option
    if method:
        kw["method"] = "krumhansl"
    res = call(MA.estimate_key, handed, **kw)
    if given is None and o is not None:
        _unchanged(o, "estimate_key", arr, handed)
    return res


def _weights(arr):
    """Duration sums per pitch class, accumulated in the column's own dtype like the library does."""
    _, df = _effective_fields(arr)
    pcs = np.mod(arr["pitch"], 12)
    return [float(arr[df][pcs == pc].sum()) for pc in range(12)]


def _fit_shift(pitches, k, step):
    """k or k -/+ step such that all pitches stay within 21..108, else None."""
    for cand in (k, k - step if k > 0 else k + step):
        if min(pitches) + cand >= 21 and max(pitches) + cand <= 108 and cand != 0:
            return cand
    return None


def known_key_alias(spec, d):
    return (
        d.kind == "sut-raised:ValueError@musicanalysis/key_identification.py:ks_kid"
        and spec.get("profile") in PROFILE_ALIASES
        and "Invalid key_profiles" in str(d["detail"].get("text", ""))
    )


def oracle_key(spec):
    o = Outcome(nontrivial=_nontrivial(spec))
    spec, given, order = _case_input(o, spec)
    arr = G.build_array(spec, order=order)
    _shape_classes(o, spec, arr)
    option = spec["profile"]
    o.cls("method-given", bool(spec.get("method")))
    o.cls("profile:" + str(option))
    pset = K.PROFILE_OF_OPTION.get(option, PROFILE_ALIASES.get(option))
    pitches = arr["pitch"].tolist()
    isint = spec["unit"] in G.INT_UNITS
    try:
        name = _estimate_key(arr, option, given, bool(spec.get("method")), o)
    except SutRaised as e:
        o.add(e.kind, text=e.text, profile=option)
        return o
    if not isinstance(name, str) or name not in K.KEY_OF_NAME:
        o.add("key-not-a-valid-name", got=repr(name)[:80])
        return o
    tonic, mode = K.KEY_OF_NAME[name]
    w = _weights(arr)
    best, gap = K.best_and_gap(w, pset)
    o.cls("constant-distribution", best is None)
    o.cls("gap<=1e-9", best is not None and gap <= 1e-9)
    o.cls("gap<=1e-5", best is not None and gap <= 1e-5)
    # documented procedure: the best-correlated key
    if best is not None and gap > 1e-9:
        if best != (tonic, mode):
            o.add("key-not-best-correlated-profile", got=name, expected=list(best), gap=gap, weights=w)
    else:
        o.excluded.append("best-key-not-judged-near-tie-or-constant")
    # the two exact claims compare like with like: when the first estimate was made on an object (whose own
    # note array may sum the durations in another unit / precision, which decides exact ties differently),
    # the unshifted reference is taken on the plain array as well
    exact_ref = name if given is None else _estimate_key(arr, option)
    # octave shifts: exact claim
    k12 = _fit_shift(pitches, 12 * spec["octaves"], 12 * 2 * abs(spec["octaves"]))
    if k12 is None:
        k12 = _fit_shift(pitches, 12, 24)
    if k12 is not None:
        got = _estimate_key(G.build_array(spec, pitch_shift=k12, order=order), option)
        if got != exact_ref:
            o.add("key-changed-by-octave-shift", shift=k12, before=exact_ref, after=got)
    else:
        o.excluded.append("octave-shift-leaves-21..108")
    # power-of-two duration scaling: exact claim
    j = abs(spec["pow2"]) if isint else spec["pow2"]
    got = _estimate_key(G.build_array(spec, dur_scale=2.0 ** j, order=order), option)
    if got != exact_ref:
        o.add("key-changed-by-power-of-two-duration-scaling", exponent=j, before=exact_ref, after=got)
    # other factors: float32 rounding of the durations, judged away from ties
    f = max(2, int(round(spec["factor"]))) if isint else float(np.float32(spec["factor"]))
    if best is not None and gap > 1e-5:
        got = _estimate_key(G.build_array(spec, dur_scale=f, order=order), option)
        if got != name:
            o.add("key-changed-by-duration-scaling", factor=f, before=name, after=got, gap=gap)
        o.cls("scaling-judged")
    else:
        o.excluded.append("scaling-not-judged-near-tie-or-constant")
    # transposition
    k = _fit_shift(pitches, spec["semitones"], 12)
    if k is None:
        o.excluded.append("transposition-leaves-21..108")
    elif best is None or gap <= 1e-9:
        o.excluded.append("transposition-not-judged-near-tie-or-constant")
    else:
        got = _estimate_key(G.build_array(spec, pitch_shift=k, order=order), option)
        o.cls("transposition-judged")
        if not isinstance(got, str) or got not in K.KEY_OF_NAME:
            o.add("key-not-a-valid-name", got=repr(got)[:80], transposed_by=k)
        else:
            t2, m2 = K.KEY_OF_NAME[got]
            if m2 != mode:
                o.add("key-mode-changed-by-transposition", semitones=k, before=name, after=got, gap=gap)
            elif t2 != (tonic + k) % 12:
                o.add("key-tonic-not-transposed", semitones=k, before=name, after=got, gap=gap)
    return o


# ---------------------------------------------------------------------------
# MIDI import
# ---------------------------------------------------------------------------


def strat_midi(tier):
    return G.midi_spec(tier)


def _file_is_expressible(spec):
    return G.normalise_midi_notes(spec["notes"]) == sorted(
        [list(map(int, x)) for x in spec["notes"]], key=lambda x: (x[0], x[0] + x[1], x[2], x[3], x[4])
    )


def _has_global_timesig(spec):
    """A time signature in a track without notes is what the importer calls global."""
    if spec["timesig"] == "global":
        return True
    with_notes = set(x[3] for x in spec["notes"])
    if spec["timesig"] == "alltracks":
        return any(t not in with_notes for t in range(spec["ntracks"]))
    if spec["timesig"] == "track0":
        return 0 not in with_notes
    return False


def known_import_key_unpack(spec, d):
    """load_score_midi(estimate_key=True) unpacks the key *name* returned by estimate_key into three values."""
    if not d["detail"].get("estimate_key"):
        return False
    text = str(d["detail"].get("text", ""))
    if d.kind == "sut-raised:ValueError@io/importmidi.py:load_score_midi":
        return "unpack" in text
    # three-character names ("C#m", "Bbm") unpack and fail one line later
    return d.kind == "sut-raised:Exception@utils/music.py:fifths_mode_to_key_name" and "Unknown mode" in text


def known_import_key_no_global_timesig(spec, d):
    """(masked by key-unpack today) min() of an empty list when estimate_key=True and no global time signature."""
    return (
        bool(d["detail"].get("estimate_key"))
        and d.kind == "sut-raised:ValueError@io/importmidi.py:load_score_midi"
        and "unpack" not in str(d["detail"].get("text", ""))
        and "empty" in str(d["detail"].get("text", ""))
        and not _has_global_timesig(spec)
    )


def _known_voices_in_import(pred):
    def wrapped(spec, d):
        if not d["detail"].get("estimate_voice_info"):
            return False
        rows = {"unit": "div", "extra": "none", "time": "grid", "den": 1, "rows": [[x[0], x[1], x[2]] for x in spec["notes"]]}
        return pred(rows, d)

    return wrapped


def oracle_midi(spec):
    notes = [list(map(int, x)) for x in spec["notes"]]
    o = Outcome(nontrivial=len(notes) >= 8 and len(set(x[2] % 12 for x in notes)) >= 3)
    if not notes or not _file_is_expressible(spec):
        o.excluded.append("file-not-expressible-in-midi")
        return o
    o.cls("zero-length-note", any(x[1] == 0 for x in notes))
    o.cls("several-tracks", len(set(x[3] for x in notes)) > 1)
    o.cls("several-channels", len(set(x[4] for x in notes)) > 1)
    o.cls("timesig:" + spec["timesig"])
    o.cls("mode:%d" % spec["mode"])
    o.cls("simultaneous-onsets", len(set(x[0] for x in notes)) < len(notes))
    expected = sorted((x[0], x[2]) for x in notes)
    with tempfile.TemporaryDirectory() as tmp:
        path = G.write_midi(spec, os.path.join(tmp, "c17.mid"))
        handover = spec.get("handover", "str")
        o.cls("file-given-as:" + handover)
        o.cls("note-off-as-note-on-velocity-0", bool(spec.get("off_as_on0")))
        o.cls("other-messages-between-notes", bool(spec.get("other_messages")))
        o.cls("format-0", bool(spec.get("format0")) and G.single_track_file(spec))
        if handover == "pathlib":
            import pathlib

            source = pathlib.Path(path)
        elif handover == "midofile":
            import mido

            source = mido.MidiFile(path)
        elif handover == "midofile-in-memory":
            source = G.write_midi(spec, None, return_object=True)
        else:
            source = path
        # options: a quantization unit that divides every time of the file leaves the file as it is
        extra_kw = {}
        q = spec.get("quantization")
        if q is not None:
            g = 0
            for x in notes:
                g = math.gcd(g, math.gcd(x[0], x[1]))
            extra_kw["quantization_unit"] = 1 if (q == 1 or g == 0) else g
            o.cls("quantization-unit-given")
        if spec.get("assign_note_ids") is False:
            extra_kw["assign_note_ids"] = False
            o.cls("assign_note_ids-off")
        for est_voice, est_key in ((False, False), (True, False), (False, True), (True, True)):
            kw = dict(part_voice_assign_mode=spec["mode"], estimate_voice_info=est_voice, estimate_key=est_key)
            if spec.get("omit_defaults"):
                # documented defaults: mode 0, no estimation
                kw = {k: v for k, v in kw.items() if not ((k == "part_voice_assign_mode" and v == 0) or v is False)}
                o.cls("defaults-omitted")
                o.cls("default-omitted:mode", spec["mode"] == 0)
            kw.update(extra_kw)
            try:
                scr = call(load_score_midi, source, **kw)
            except SutRaised as e:
                # zero-length notes make estimate_voices fail before the key is looked at
                o.add(e.kind, text=e.text, estimate_voice_info=est_voice, estimate_key=est_key, monophonic_voices=True)
                continue
            got, bad = [], None
            voices = []
            keysigs = []
            for part in scr.parts:
                for nt in part.iter_all(S.Note, include_subclasses=True):
                    if nt.tie_prev is not None:
                        continue
                    step, alter, octave = nt.step, nt.alter or 0, nt.octave
                    if str(step) not in BASE or abs(int(alter)) > 2:
                        bad = [str(step), int(alter), int(octave)]
                    sounds = 12 * (int(octave) + 1) + BASE.get(str(step), 0) + int(alter)
                    if sounds != nt.midi_pitch:
                        bad = [str(step), int(alter), int(octave), int(nt.midi_pitch)]
                    got.append((int(nt.start.t), sounds))
                    voices.append(nt.voice)
                keysigs.append(sorted((ks.start.t, ks.name) for ks in part.iter_all(S.KeySignature)))
            flags = dict(estimate_voice_info=est_voice, estimate_key=est_key, mode=spec["mode"])
            if bad is not None:
                o.add("import-note-badly-spelled", spelling=bad, **flags)
            if sorted(got) != expected:
                miss = sorted((Counter(expected) - Counter(got)).elements())[:6]
                extra = sorted((Counter(got) - Counter(expected)).elements())[:6]
                o.add("import-pitches-differ-from-file", missing=miss, unexpected=extra, **flags)
            if est_voice and spec["mode"] in (1, 3, 4, 5):
                # no voice comes from the file in these modes: the estimate is what the notes carry
                if any(v is None or int(v) < 1 for v in voices):
                    o.add("import-voice-not-positive", voices=[v for v in voices][:30], **flags)
            if est_key:
                # one estimated key for the whole piece, placed at the start of every part
                for ks in keysigs:
                    if len(ks) != 1 or ks[0][0] != 0 or ks[0][1] not in K.KEY_OF_NAME:
                        o.add("import-estimated-key-signature-malformed", key_signatures=keysigs[:4], **flags)
                        break
                if len(set(tuple(map(tuple, ks)) for ks in keysigs)) > 1:
                    o.add("import-estimated-key-differs-between-parts", key_signatures=keysigs[:4], **flags)
                # it is the key of the file's notes (tick durations, default profiles), judged away from ties
                w = [float(sum(x[1] for x in notes if x[2] % 12 == pc)) for pc in range(12)]
                best, gap = K.best_and_gap(w, "kk")
                if best is not None and gap > 1e-9 and keysigs and len(keysigs[0]) == 1:
                    exp = (K.MAJOR_NAMES if best[1] == "major" else K.MINOR_NAMES)[best[0]]
                    if keysigs[0][0][1] != exp:
                        o.add("import-estimated-key-not-best-correlated", got=keysigs[0][0][1], expected=exp, gap=gap, **flags)
                    o.cls("import-estimated-key-judged")
    return o


SUBCHECKS = [
    SubCheck(
        "spelling",
        oracle_spelling,
        strategy=strat_spelling,
        budget={"quick": 200, "thorough": 4000},
        rule="input as structured array (4 or 8 byte columns; score columns alone or together with contradicting performance columns) or as Part / PerformedPart; method and window sizes given or not; the caller's array unchanged afterwards; note arrays (beat/quarter/div/sec/tick columns, 1-60 rows quick, 1-300 thorough, rows in any order, pitches 21..108, "
        "grid or float32 times, simultaneous/overlapping/zero-length notes) plus a row permutation; non-trivial = at least 8 rows with at least 3 pitch classes",
        floors={"simultaneous-onsets": 0.2, "rows-not-in-onset-order": 0.2, "permutation-moves-rows": 0.3, "zero-length-note": 0.05, "equal-onset-and-pitch": 0.03,
                "input:object": 0.1, "input:Part": 0.03, "input:PerformedPart": 0.03, "columns:score-and-performance": 0.08, "columns:8-byte": 0.1,
                "window-sizes-given": 0.3, "method-given": 0.2},
    ),
    SubCheck(
        "voices",
        oracle_voices,
        strategy=strat_voices,
        budget={"quick": 100, "thorough": 1000},
        rule="note arrays / objects as above with pitches 0..127, both values of monophonic_voices (positional or keyword) and the argument left out; non-trivial = at least 8 rows with at least 3 pitch classes",
        known={
            "voices-lone-zero-length-note": known_voices_lone_zero,
            "voices-zero-length-notes-cycle": known_voices_grace_cycle,
            "voices-zero-length-note-at-last-onset": known_voices_zero_at_last_onset,
        },
        floors={"zero-length-note": 0.05, "rows-with-equal-onset-and-duration": 0.1, "overlapping-notes": 0.2, "several-voices": 0.2,
                "input:object": 0.1, "mode-omitted": 0.15, "columns:score-and-performance": 0.05},
    ),
    SubCheck(
        "key",
        oracle_key,
        strategy=strat_key,
        budget={"quick": 200, "thorough": 4000},
        rule="note arrays as above (pitches 21..108) x key-profile option x octave shift x semitone transposition x duration factors; "
        "non-trivial = at least 8 rows with at least 3 pitch classes",
        known={"key-profile-alias-rejected": known_key_alias},
        floors={"transposition-judged": 0.5, "scaling-judged": 0.5, "profile:temperley": 0.05, "profile:kostka_payne": 0.05,
                "input:object": 0.1, "columns:score-and-performance": 0.08, "method-given": 0.2},
    ),
    SubCheck(
        "midi_import",
        oracle_midi,
        strategy=strat_midi,
        budget={"quick": 80, "thorough": 1000},
        rule="type-1 MIDI files written with mido from 1-24 (thorough 1-80) grid-aligned notes on 1-3 tracks and 1-3 channels, optional "
        "time/key signature and tempo, notes ended by note_off or by note_on with velocity 0, other channel/meta messages with their own delta times between the notes, format 0 or 1, handed over as str, pathlib.Path or mido.MidiFile (read or built in memory), with/without quantization_unit (a divisor of all times) and assign_note_ids=False, defaults omitted; all six part/voice modes, each loaded with estimate_voice_info x estimate_key in {off,on}; "
        "non-trivial = at least 8 notes with at least 3 pitch classes",
        known={
            "import-estimate-key-unpack": known_import_key_unpack,
            "import-estimate-key-no-global-timesig": known_import_key_no_global_timesig,
            "voices-lone-zero-length-note": _known_voices_in_import(known_voices_lone_zero),
            "voices-zero-length-notes-cycle": _known_voices_in_import(known_voices_grace_cycle),
            "voices-zero-length-note-at-last-onset": _known_voices_in_import(known_voices_zero_at_last_onset),
        },
        floors={"zero-length-note": 0.05, "several-tracks": 0.1, "note-off-as-note-on-velocity-0": 0.2, "other-messages-between-notes": 0.15,
                "format-0": 0.08, "file-given-as:midofile": 0.04, "file-given-as:midofile-in-memory": 0.05, "file-given-as:pathlib": 0.05,
                "quantization-unit-given": 0.25, "assign_note_ids-off": 0.15, "defaults-omitted": 0.25},
    ),
]
