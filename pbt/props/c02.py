"""C02 - quarter and beat maps are exact, monotone and mutually inverse.

Generated parts (division changes, signature changes on and off bar lines, pickups,
notated and musical beats) are built through the public API; the four maps and the
quarter-duration map are compared at every integer position with exact Fraction
arithmetic computed from the abstract spec.
"""

from fractions import Fraction

import numpy as np
from hypothesis import strategies as st

import partitura.score as S
from pbt.core import Outcome, SubCheck, SutRaised, call
from pbt.gen import scorespec as G
from pbt.gen.build import build_part

PROPERTY = "C02"
ENGINES = ["hypothesis"]
ASSUMPTIONS = [
    "the first time point, the first measure, the first time signature and the first divisions entry are at timeline position 0 (what every importer produces); values before the first signature are not judged",
    "float tolerance 1e-9*(1+|x|) for forward maps, 1e-6 for inverse maps",
    "zero of the maps = end of the first measure iff that measure starts at 0 together with a time signature and is shorter than a full bar, else position 0 (property statement)",
]

PROFILE = G.profile(max_bars=5, max_voices=1, max_staves=1, midbar_changes=True, irregular=True, key_changes=False,
                    clefs=False, grace=False, ties=False, chords=False, tuplets=True)


def strat(tier):
    prof = dict(PROFILE)
    if tier == "thorough":
        prof["max_bars"] = 8
    mb = st.dictionaries(st.sampled_from(["6/8", "9/8", "12/8", "4/4", "3/4", "5/8", "7/8", "6/4", "2/2", "5/4"]), st.integers(1, 6), max_size=3)
    return st.fixed_dictionaries(
        {
            "part": G.part_spec(prof),
            "mode": st.sampled_from(["notated", "musical", "musical-custom", "musical-then-notated"]),
            "mbeats": mb,
            "extra_first_ts": st.booleans(),
            # order in which the division changes are applied (any order is documented as valid)
            "div_order": st.one_of(st.just([]), st.lists(st.integers(0, 5), min_size=1, max_size=4)),
        }
    )


def oracle(spec):
    o = Outcome()
    ps = spec["part"]
    div_order = spec.get("div_order") or None
    part, _ = build_part(ps, div_order=div_order)
    if div_order and len(ps["divs"]) > 2:
        # set_quarter_duration is documented as: replace an entry at t, otherwise add unless the value
        # in force before t already is q. Applied out of order this yields another table than the
        # spec lists; the reference follows the documented rule on the applied order.
        changes = list(ps["divs"][1:])
        keyed = sorted(range(len(changes)), key=lambda i: (div_order[i % len(div_order)], i))
        table = [list(ps["divs"][0])]
        for i in keyed:
            t, q = changes[i]
            at = [e for e in table if e[0] == t]
            before = [e for e in table if e[0] < t]
            if at:
                at[0][1] = q
            elif not before or before[-1][1] != q:
                table.append([t, q])
                table.sort()
        ps = dict(ps, divs=table)
    ref = G.PartRef(ps)
    mode = spec["mode"]
    mbeats = spec["mbeats"] if mode == "musical-custom" else {}
    if mode in ("musical", "musical-then-notated"):
        call(part.use_musical_beat)
    elif mode == "musical-custom":
        call(part.use_musical_beat, dict(mbeats))
    if mode == "musical-then-notated":
        call(part.use_notated_beat)
    musical = mode in ("musical", "musical-custom")
    mb_by_beats = None
    if musical:
        # the reference takes musical beats per (beats, beat_type)
        mb_by_beats = {}
        for (t, b, bt) in ref.timesigs:
            key = "%d/%d" % (b, bt)
            mb_by_beats[(b, bt)] = mbeats.get(key, G.MUSICAL_BEATS.get(b, b))

    end = ps["end"]
    ts_changes = [t for (t, _, _) in ref.timesigs if 0 < t < end]
    div_changes = [t for (t, _) in ref.divs if 0 < t < end]
    o.nontrivial = bool(ts_changes) and bool(div_changes)
    o.cls("pickup", ps["pickup"] is not None)
    o.cls("musical-beats", musical)
    o.cls("musical-beats-with-ts-change", musical and bool(ts_changes))
    bars = set(m[0] for m in ps["measures"])
    o.cls("change-not-on-barline", any(t not in bars for t in ts_changes + div_changes))
    o.cls("coinciding-changes", bool(set(ts_changes) & set(div_changes)))
    o.cls("division-change", bool(div_changes))
    o.cls("division-changes-applied-out-of-order", len(ps["divs"]) > 2 and bool(spec.get("div_order")))
    o.cls("signature-change", bool(ts_changes))

    # ---- reference maps (Fractions) --------------------------------------
    def beat_factor(t):
        b, bt = ref.ts_at(t)
        f = Fraction(bt, 4)
        if musical:
            f *= Fraction(mb_by_beats[(b, bt)], b)
        return f

    cut = sorted(set([0, end] + ts_changes + div_changes))
    qpos = {0: Fraction(0)}
    bpos = {0: Fraction(0)}
    for a, b in zip(cut, cut[1:]):
        dq = Fraction(b - a, ref.divs_at(a))
        qpos[b] = qpos[a] + dq
        bpos[b] = bpos[a] + dq * beat_factor(a)

    def ref_at(t, table, beat):
        a = max(c for c in cut if c <= t)
        dq = Fraction(t - a, ref.divs_at(a))
        return table[a] + (dq * beat_factor(a) if beat else dq)

    # origin: pickup iff first measure (at 0, with a signature at 0) is shorter than a full bar
    m0 = ps["measures"][0]
    b0, bt0 = ref.ts_at(0)
    first_q = ref_at(m0[1], qpos, False) - ref_at(m0[0], qpos, False)
    first_b = ref_at(m0[1], bpos, True) - ref_at(m0[0], bpos, True)
    full_q = Fraction(b0 * 4, bt0)
    full_b = Fraction(mb_by_beats[(b0, bt0)]) if musical else Fraction(b0)
    q_shift = first_q if first_q < full_q else Fraction(0)
    b_shift = first_b if first_b < full_b else Fraction(0)
    o.cls("pickup-shift-applies", q_shift != 0)
    if (first_q < full_q) != (first_b < full_b):
        # user-supplied musical beats can make the two notions of "shorter than a bar" disagree
        o.excluded.append("pickup-ambiguous-under-custom-musical-beats")
        return o

    ts_ = np.arange(0, end + 1)
    qm = call(lambda: part.quarter_map)
    bm = call(lambda: part.beat_map)
    iqm = call(lambda: part.inv_quarter_map)
    ibm = call(lambda: part.inv_beat_map)
    qv = np.asarray(call(qm, ts_), dtype=float)
    bv = np.asarray(call(bm, ts_), dtype=float)
    for name, vals, table, shift, beat in (("quarter_map", qv, qpos, q_shift, False), ("beat_map", bv, bpos, b_shift, True)):
        for t, v in zip(ts_, vals):
            e = ref_at(int(t), table, beat) - shift
            if abs(Fraction(float(v)) - e) > Fraction(1, 10 ** 9) * (1 + abs(e)):
                o.add(name + "-wrong-value", t=int(t), got=float(v), expected=str(e), expected_float=float(e), mode=mode)
                break
        if np.any(np.diff(vals) < -1e-12):
            o.add(name + "-decreasing", mode=mode)
    # scalar == array
    for t in sorted(set([0, end] + cut + [min(end, 1), end // 2])):
        sv = call(qm, t)
        if abs(float(sv) - float(qv[t])) > 1e-12:
            o.add("quarter_map-scalar-array-disagree", t=t)
        sv = call(bm, t)
        if abs(float(sv) - float(bv[t])) > 1e-12:
            o.add("beat_map-scalar-array-disagree", t=t)
    # inverse maps undo forward maps at every position
    back = np.asarray(call(iqm, qv), dtype=float)
    bad = np.where(np.abs(back - ts_) > 1e-6)[0]
    if len(bad):
        o.add("inv_quarter_map-not-inverse", t=int(ts_[bad[0]]), back=float(back[bad[0]]))
    back = np.asarray(call(ibm, bv), dtype=float)
    bad = np.where(np.abs(back - ts_) > 1e-6)[0]
    if len(bad):
        o.add("inv_beat_map-not-inverse", t=int(ts_[bad[0]]), back=float(back[bad[0]]), mode=mode)
    # quarter duration map: divisions in force, also beyond the ends
    qd = call(lambda: part.quarter_duration_map)
    xs = np.array(list(ts_) + [end + 1, end + 1000], dtype=float)
    got = np.asarray(call(qd, xs))
    for x, g in zip(xs, got):
        if int(g) != ref.divs_at(int(x)):
            o.add("quarter_duration_map-wrong", t=int(x), got=float(g), expected=ref.divs_at(int(x)))
            break
    return o


# ------------------------------------------------------------------ divisions in force after any call order
def strat_qd(tier):
    call_ = st.tuples(st.integers(0, 14), st.sampled_from([1, 2, 3, 4, 6]))
    return st.fixed_dictionaries({"q0": st.sampled_from([1, 2, 4]), "calls": st.lists(call_, min_size=1, max_size=7), "end": st.integers(15, 24)})


def oracle_qd(spec):
    """quarter_duration_map / quarter_map after set_quarter_duration calls in arbitrary order, against the
    documented rule (replace an entry at t; otherwise add unless the value in force before t is q)."""
    o = Outcome()
    part = S.Part("P", quarter_duration=spec["q0"])
    table = [[0, spec["q0"]]]
    order_increasing = True
    last_t = -1
    for (t, q) in spec["calls"]:
        call(part.set_quarter_duration, t, q)
        at = [e for e in table if e[0] == t]
        before = [e for e in table if e[0] < t]
        if at:
            at[0][1] = q
        elif not before or before[-1][1] != q:
            table.append([t, q])
            table.sort()
        if t <= last_t:
            order_increasing = False
        last_t = t
    part.add(S.Measure(number=1), 0, spec["end"])
    part.add(S.TimeSignature(4, 4), 0)
    o.nontrivial = not order_increasing and len(table) >= 3
    o.cls("calls-out-of-order", not order_increasing)
    o.cls("three-or-more-entries", len(table) >= 3)

    def f(x):
        cur = table[0][1]
        for (tt, qq) in table:
            if tt <= x:
                cur = qq
        return cur

    xs = np.arange(0, spec["end"] + 1)
    got = np.asarray(call(part.quarter_duration_map, xs.astype(float)))
    for x, g in zip(xs, got):
        if int(g) != f(int(x)):
            o.add("quarter_duration_map-wrong-after-unordered-calls", t=int(x), got=float(g), expected=f(int(x)), calls=spec["calls"], q0=spec["q0"])
            return o
    # the quarter map advances by 1/divisions per timeline unit
    qm = np.asarray(call(part.quarter_map, xs), dtype=float)
    for a in range(len(xs) - 1):
        exp = 1.0 / f(int(xs[a]))
        if abs((qm[a + 1] - qm[a]) - exp) > 1e-9:
            o.add("quarter_map-slope-wrong-after-unordered-calls", t=int(xs[a]), got=float(qm[a + 1] - qm[a]), expected=exp, calls=spec["calls"], q0=spec["q0"])
            return o
    return o


SUBCHECKS = [
    SubCheck(
        "time_maps",
        oracle,
        strategy=strat,
        budget={"quick": 250, "thorough": 6000},
        rule="generated parts with division/time-signature changes (on and off bar lines), pickups, irregular bars, notated/musical beats; maps compared with Fraction arithmetic at every integer position; non-trivial = >=1 division change and >=1 signature change strictly inside the timeline",
        floors={"pickup": 0.05, "musical-beats-with-ts-change": 0.03, "change-not-on-barline": 0.05},
    ),
    SubCheck(
        "divisions_after_unordered_calls",
        oracle_qd,
        strategy=strat_qd,
        budget={"quick": 300, "thorough": 20000},
        rule="set_quarter_duration called 1-7 times in arbitrary order with repeated values; quarter_duration_map at every position and the slope of quarter_map compared with the documented rule; non-trivial = calls out of temporal order and >= 3 table entries",
        floors={"calls-out-of-order": 0.3},
    ),
]
