"""C02 - quarter and beat maps are exact, monotone and mutually inverse.

Generated parts (division changes, signature changes on and off bar lines, pickups,
notated and musical beats) are built through the public API; the four maps and the
quarter-duration map are compared at every integer position with exact Fraction
arithmetic computed from the abstract spec.
"""

from fractions import Fraction

import numpy as np
from hypothesis import strategies as st

import partitura.score as S
from pbt.core import Outcome, SubCheck, SutRaised, call
from pbt.gen import scorespec as G
from pbt.gen.build import build_part

PROPERTY = "C02"
ENGINES = ["hypothesis"]
ASSUMPTIONS = [
    "the first time point, the first measure, the first time signature and the first divisions entry are at timeline position 0 (what every importer produces); values before the first signature are not judged",
    "float tolerance 1e-9*(1+|x|) for forward maps, 1e-6 for inverse maps",
    "zero of the maps = end of the first measure iff that measure starts at 0 together with a time signature and is shorter than a full bar, else position 0 (property statement)",
    "a signature object that repeats the signature in force, a second identical signature object at position 0 and division entries at or after the last time point change no value between the first and the last time point",
    "a part with one time point has exactly one position (the first point), where all maps are 0",
]

PROFILE = G.profile(max_bars=5, max_voices=1, max_staves=1, midbar_changes=True, irregular=True, key_changes=False,
                    clefs=False, grace=False, ties=False, chords=False, tuplets=True)


def strat(tier):
    prof = dict(PROFILE)
    if tier == "thorough":
        prof["max_bars"] = 8
    mb = st.dictionaries(st.sampled_from(["6/8", "9/8", "12/8", "4/4", "3/4", "5/8", "7/8", "6/4", "2/2", "5/4"]), st.integers(1, 6), max_size=3)
    return st.fixed_dictionaries(
        {
            "part": G.part_spec(prof),
            "mode": st.sampled_from(MODES),
            "mbeats": mb,
            # user-supplied musical beats for signatures the part really has: [index into the part's signatures, beats]
            "mbeats_rel": st.one_of(st.just([]), st.lists(st.tuples(st.integers(0, 5), st.integers(1, 6)), min_size=1, max_size=3), st.lists(st.tuples(st.integers(0, 5), st.integers(1, 6)), min_size=2, max_size=3)),
            # a second, identical signature object at position 0 (one <time> per staff in multi-staff imports)
            "extra_first_ts": st.booleans(),
            # order in which the division changes are applied (any order is documented as valid)
            "div_order": st.one_of(st.just([]), st.lists(st.integers(0, 5), min_size=1, max_size=4)),
            # which measures exist: all / none (parts from MIDI or note arrays before add_measures) /
            # all but the first (the part does not open with a measure: zero at the first time point); "late-short":
            # the same, and the now first measure is cut to half its length and has a signature object at its start
            "measure_mode": st.sampled_from(["all", "all", "all", "all", "none", "late-first", "late-short"]),
            # one more division entry at (0) or after (k > 0) the last time point, or none (None)
            "late_div": st.one_of(st.none(), st.none(), st.none(), st.tuples(st.integers(0, 3), st.sampled_from([1, 2, 3, 4, 8]))),
            # type of the argument the maps are called with besides int arrays and python ints
            "arg_type": st.sampled_from(["list", "tuple", "float-array", "numpy-scalar", "python-float"]),
        }
    )


# beat mode histories: (calls, musical mode in force afterwards, user-supplied beats in force afterwards)
MODES = ["notated", "musical", "musical-custom", "musical-then-notated",
         "set-custom-while-notated", "musical-then-set-custom", "custom-notated-musical", "musical-twice", "custom-then-reset-defaults"]


def oracle(spec):
    o = Outcome()
    ps = spec["part"]
    div_order = spec.get("div_order") or None
    mmode = spec.get("measure_mode", "all")
    built_measures = list(ps["measures"]) if mmode == "all" else ([] if mmode == "none" else list(ps["measures"][1:]))
    late_short = None
    if mmode == "late-short" and built_measures:
        m = built_measures[0]
        built_measures[0] = [m[0], m[0] + max(1, (m[1] - m[0]) // 2)] + list(m[2:])
        if all(x[0] != m[0] for x in ps["timesigs"]):
            late_short = m[0]
    part, _ = build_part(dict(ps, measures=built_measures), div_order=div_order)
    if late_short is not None:
        # a signature object repeating the signature in force: changes no value
        cur = [x for x in sorted(ps["timesigs"]) if x[0] <= late_short][-1]
        call(part.add, S.TimeSignature(cur[1], cur[2]), late_short)
    if spec.get("extra_first_ts"):
        t0, b0_, bt0_ = sorted(ps["timesigs"])[0]
        call(part.add, S.TimeSignature(b0_, bt0_), t0)
    late_div = spec.get("late_div")
    if late_div:
        call(part.set_quarter_duration, ps["end"] + late_div[0], late_div[1])
    if div_order and len(ps["divs"]) > 2:
        # set_quarter_duration is documented as: replace an entry at t, otherwise add unless the value
        # in force before t already is q. Applied out of order this yields another table than the
        # spec lists; the reference follows the documented rule on the applied order.
        changes = list(ps["divs"][1:])
        keyed = sorted(range(len(changes)), key=lambda i: (div_order[i % len(div_order)], i))
        table = [list(ps["divs"][0])]
        for i in keyed:
            t, q = changes[i]
            at = [e for e in table if e[0] == t]
            before = [e for e in table if e[0] < t]
            if at:
                at[0][1] = q
            elif not before or before[-1][1] != q:
                table.append([t, q])
                table.sort()
        ps = dict(ps, divs=table)
    if late_div:
        # an entry at or after the last time point: changes nothing between the first and the last point
        ps = dict(ps, divs=[list(e) for e in ps["divs"]] + [[ps["end"] + late_div[0], late_div[1]]])
    ref = G.PartRef(ps)
    mode = spec["mode"]
    user = dict(spec["mbeats"])
    for (i, v) in spec.get("mbeats_rel") or []:
        tsig = ref.timesigs[i % len(ref.timesigs)]
        user["%d/%d" % (tsig[1], tsig[2])] = v
    mbeats = {}
    if mode in ("musical", "musical-then-notated"):
        call(part.use_musical_beat)
    elif mode == "musical-custom":
        call(part.use_musical_beat, dict(user))
        mbeats = user
    elif mode == "set-custom-while-notated":
        # the per-signature numbers may be set at any time; they only count while musical beats are enabled
        call(part.set_musical_beat_per_ts, dict(user))
    elif mode == "musical-then-set-custom":
        call(part.use_musical_beat)
        call(part.set_musical_beat_per_ts, dict(user))
        mbeats = user
    elif mode == "custom-notated-musical":
        # use_notated_beat "also reset[s] the number of musical beats for each time signature to default values"
        call(part.use_musical_beat, dict(user))
        call(part.use_notated_beat)
        call(part.use_musical_beat)
    elif mode == "musical-twice":
        call(part.use_musical_beat)
        call(part.use_musical_beat)  # warns, stays enabled
    elif mode == "custom-then-reset-defaults":
        # set_musical_beat_per_ts(): "If a certain time signature is not specified, the default values are used"
        call(part.use_musical_beat, dict(user))
        call(part.set_musical_beat_per_ts, {})
    if mode == "musical-then-notated":
        call(part.use_notated_beat)
    musical = mode in ("musical", "musical-custom", "musical-then-set-custom", "custom-notated-musical", "musical-twice", "custom-then-reset-defaults")
    mb_by_beats = None
    if musical:
        # the reference takes musical beats per (beats, beat_type)
        mb_by_beats = {}
        for (t, b, bt) in ref.timesigs:
            key = "%d/%d" % (b, bt)
            mb_by_beats[(b, bt)] = mbeats.get(key, G.MUSICAL_BEATS.get(b, b))

    end = ps["end"]
    ts_changes = [t for (t, _, _) in ref.timesigs if 0 < t < end]
    div_changes = [t for (t, _) in ref.divs if 0 < t < end]
    o.nontrivial = bool(ts_changes) and bool(div_changes)
    o.cls("pickup", ps["pickup"] is not None)
    o.cls("musical-beats", musical)
    o.cls("musical-beats-with-ts-change", musical and bool(ts_changes))
    bars = set(m[0] for m in ps["measures"])
    o.cls("change-not-on-barline", any(t not in bars for t in ts_changes + div_changes))
    o.cls("coinciding-changes", bool(set(ts_changes) & set(div_changes)))
    o.cls("division-change", bool(div_changes))
    o.cls("division-changes-applied-out-of-order", len(ps["divs"]) > 2 and bool(spec.get("div_order")))
    o.cls("signature-change", bool(ts_changes))
    o.cls("three-or-more-division-changes", len(div_changes) >= 3)
    o.cls("three-or-more-signature-changes", len(ts_changes) >= 3)
    o.cls("no-measures", not built_measures)
    o.cls("first-measure-starts-after-first-point", bool(built_measures) and built_measures[0][0] > 0)
    o.cls("late-first-measure-short-with-signature", mmode == "late-short" and bool(built_measures))
    o.cls("dropped-first-measure-was-a-pickup", mmode != "all" and ps["pickup"] is not None)
    o.cls("second-signature-object-at-first-point", bool(spec.get("extra_first_ts")))
    o.cls("division-entry-at-last-point", bool(late_div) and late_div[0] == 0)
    o.cls("division-entry-after-last-point", bool(late_div) and late_div[0] > 0)
    o.cls("beat-mode-" + mode)
    o.cls("user-beats-in-force-differ-from-default", musical and any(mb_by_beats[k] != G.MUSICAL_BEATS.get(k[0], k[0]) for k in mb_by_beats))
    o.cls("user-beats-given-but-not-in-force", not mbeats and mode in ("set-custom-while-notated", "custom-notated-musical", "custom-then-reset-defaults")
          and any(user.get("%d/%d" % (b_, bt_), G.MUSICAL_BEATS.get(b_, b_)) != G.MUSICAL_BEATS.get(b_, b_) for (_, b_, bt_) in ref.timesigs))

    # ---- reference maps (Fractions) --------------------------------------
    def beat_factor(t):
        b, bt = ref.ts_at(t)
        f = Fraction(bt, 4)
        if musical:
            f *= Fraction(mb_by_beats[(b, bt)], b)
        return f

    cut = sorted(set([0, end] + ts_changes + div_changes))
    qpos = {0: Fraction(0)}
    bpos = {0: Fraction(0)}
    for a, b in zip(cut, cut[1:]):
        dq = Fraction(b - a, ref.divs_at(a))
        qpos[b] = qpos[a] + dq
        bpos[b] = bpos[a] + dq * beat_factor(a)

    def ref_at(t, table, beat):
        a = max(c for c in cut if c <= t)
        dq = Fraction(t - a, ref.divs_at(a))
        return table[a] + (dq * beat_factor(a) if beat else dq)

    # origin: pickup iff first measure (at 0, with a signature at 0) is shorter than a full bar
    # (without a measure at the first point the part does not open with a pickup: zero at the first time point)
    b0, bt0 = ref.ts_at(0)
    full_q = Fraction(b0 * 4, bt0)
    full_b = Fraction(mb_by_beats[(b0, bt0)]) if musical else Fraction(b0)
    if built_measures and built_measures[0][0] == 0:
        m0 = built_measures[0]
        first_q = ref_at(m0[1], qpos, False) - ref_at(m0[0], qpos, False)
        first_b = ref_at(m0[1], bpos, True) - ref_at(m0[0], bpos, True)
    else:
        first_q, first_b = full_q, full_b
    q_shift = first_q if first_q < full_q else Fraction(0)
    b_shift = first_b if first_b < full_b else Fraction(0)
    o.cls("pickup-shift-applies", q_shift != 0)
    if (first_q < full_q) != (first_b < full_b):
        # user-supplied musical beats can make the two notions of "shorter than a bar" disagree
        o.excluded.append("pickup-ambiguous-under-custom-musical-beats")
        return o

    ts_ = np.arange(0, end + 1)
    qm = call(lambda: part.quarter_map)
    bm = call(lambda: part.beat_map)
    iqm = call(lambda: part.inv_quarter_map)
    ibm = call(lambda: part.inv_beat_map)
    qv = np.asarray(call(qm, ts_), dtype=float)
    bv = np.asarray(call(bm, ts_), dtype=float)
    for name, vals, table, shift, beat in (("quarter_map", qv, qpos, q_shift, False), ("beat_map", bv, bpos, b_shift, True)):
        for t, v in zip(ts_, vals):
            e = ref_at(int(t), table, beat) - shift
            if abs(Fraction(float(v)) - e) > Fraction(1, 10 ** 9) * (1 + abs(e)):
                o.add(name + "-wrong-value", t=int(t), got=float(v), expected=str(e), expected_float=float(e), mode=mode)
                break
        if np.any(np.diff(vals) < -1e-12):
            o.add(name + "-decreasing", mode=mode)
    # scalar == array
    for t in sorted(set([0, end] + cut + [min(end, 1), end // 2])):
        sv = call(qm, t)
        if abs(float(sv) - float(qv[t])) > 1e-12:
            o.add("quarter_map-scalar-array-disagree", t=t)
        sv = call(bm, t)
        if abs(float(sv) - float(bv[t])) > 1e-12:
            o.add("beat_map-scalar-array-disagree", t=t)
    # other documented argument types ("scalar values or lists/arrays of values") give the same values
    at = spec.get("arg_type")
    if at:
        o.cls("argument-type-" + at)
        ints = [int(t) for t in ts_]
        for name, fn, vals in (("quarter_map", qm, qv), ("beat_map", bm, bv)):
            if at == "list":
                got = np.asarray(call(fn, ints), dtype=float)
            elif at == "tuple":
                got = np.asarray(call(fn, tuple(ints)), dtype=float)
            elif at == "float-array":
                got = np.asarray(call(fn, ts_.astype(float)), dtype=float)
            elif at == "numpy-scalar":
                got = np.array([float(call(fn, np.int64(t))) for t in ints[:: max(1, len(ints) // 6)]])
                vals = vals[:: max(1, len(ints) // 6)]
            else:
                got = np.array([float(call(fn, float(t))) for t in ints[:: max(1, len(ints) // 6)]])
                vals = vals[:: max(1, len(ints) // 6)]
            if got.shape != vals.shape or np.any(np.abs(got - vals) > 1e-12):
                o.add(name + "-argument-type-changes-value", arg_type=at)
        for name, fn, vals in (("inv_quarter_map", iqm, qv), ("inv_beat_map", ibm, bv)):
            if at in ("list", "tuple"):
                seq = [float(v) for v in vals]
                got = np.asarray(call(fn, seq if at == "list" else tuple(seq)), dtype=float)
                if got.shape != ts_.shape or np.any(np.abs(got - ts_) > 1e-6):
                    o.add(name + "-argument-type-changes-value", arg_type=at)
            elif at in ("numpy-scalar", "python-float"):
                for t in ints[:: max(1, len(ints) // 6)]:
                    v = np.float64(vals[t]) if at == "numpy-scalar" else float(vals[t])
                    if abs(float(call(fn, v)) - t) > 1e-6:
                        o.add(name + "-argument-type-changes-value", arg_type=at, t=t)
                        break
    # inverse maps undo forward maps at every position
    back = np.asarray(call(iqm, qv), dtype=float)
    bad = np.where(np.abs(back - ts_) > 1e-6)[0]
    if len(bad):
        o.add("inv_quarter_map-not-inverse", t=int(ts_[bad[0]]), back=float(back[bad[0]]))
    back = np.asarray(call(ibm, bv), dtype=float)
    bad = np.where(np.abs(back - ts_) > 1e-6)[0]
    if len(bad):
        o.add("inv_beat_map-not-inverse", t=int(ts_[bad[0]]), back=float(back[bad[0]]), mode=mode)
    # quarter duration map: divisions in force, also beyond the ends
    qd = call(lambda: part.quarter_duration_map)
    xs = np.array(list(ts_) + [end + 1, end + 1000], dtype=float)
    got = np.asarray(call(qd, xs))
    for x, g in zip(xs, got):
        if int(g) != ref.divs_at(int(x)):
            o.add("quarter_duration_map-wrong", t=int(x), got=float(g), expected=ref.divs_at(int(x)))
            break
    return o


# ------------------------------------------------------------------ divisions in force after any call order
def strat_qd(tier):
    # times also at and after the last time point (end is 15..24), larger divisions as importers use them
    call_ = st.tuples(st.one_of(st.integers(0, 14), st.integers(0, 14).map(lambda x: x), st.integers(0, 30)), st.sampled_from([1, 2, 3, 4, 6, 12, 480]))
    return st.fixed_dictionaries({
        "q0": st.sampled_from([1, 2, 4]), "calls": st.lists(call_, min_size=1, max_size=7), "end": st.integers(15, 24),
        # the timed objects are added before (True) or after (False) the calls; the maps are read between the calls
        "objects_first": st.booleans(), "read_between": st.booleans(),
    })


def oracle_qd(spec):
    """quarter_duration_map / quarter_map after set_quarter_duration calls in arbitrary order, against the
    documented rule (replace an entry at t; otherwise add unless the value in force before t is q)."""
    o = Outcome()
    part = S.Part("P", quarter_duration=spec["q0"])
    table = [[0, spec["q0"]]]
    order_increasing = True
    last_t = -1
    objects_first = bool(spec.get("objects_first"))
    if objects_first:
        part.add(S.Measure(number=1), 0, spec["end"])
        part.add(S.TimeSignature(4, 4), 0)
    for (t, q) in spec["calls"]:
        if spec.get("read_between"):
            # reading the maps must not freeze them
            call(part.quarter_duration_map, float(t))
            if objects_first:
                call(part.quarter_map, t)
        call(part.set_quarter_duration, t, q)
        at = [e for e in table if e[0] == t]
        before = [e for e in table if e[0] < t]
        if at:
            at[0][1] = q
        elif not before or before[-1][1] != q:
            table.append([t, q])
            table.sort()
        if t <= last_t:
            order_increasing = False
        last_t = t
    if not objects_first:
        part.add(S.Measure(number=1), 0, spec["end"])
        part.add(S.TimeSignature(4, 4), 0)
    o.nontrivial = not order_increasing and len(table) >= 3
    o.cls("calls-out-of-order", not order_increasing)
    o.cls("three-or-more-entries", len(table) >= 3)
    o.cls("call-at-or-after-last-point", any(t >= spec["end"] for t, _ in spec["calls"]))
    o.cls("call-at-last-point", any(t == spec["end"] for t, _ in spec["calls"]))
    o.cls("objects-added-before-the-calls", objects_first)
    o.cls("maps-read-between-the-calls", bool(spec.get("read_between")))
    o.cls("call-replaces-the-entry-at-zero", any(t == 0 for t, _ in spec["calls"]))

    def f(x):
        cur = table[0][1]
        for (tt, qq) in table:
            if tt <= x:
                cur = qq
        return cur

    xs = np.arange(0, spec["end"] + 1)
    xs_far = np.arange(0, 34)  # the divisions in force also beyond the last time point
    got = np.asarray(call(part.quarter_duration_map, xs_far.astype(float)))
    for x, g in zip(xs_far, got):
        if int(g) != f(int(x)):
            o.add("quarter_duration_map-wrong-after-unordered-calls", t=int(x), got=float(g), expected=f(int(x)), calls=spec["calls"], q0=spec["q0"])
            return o
    got = np.asarray(call(part.quarter_duration_map, xs.astype(float)))
    for x, g in zip(xs, got):
        if int(g) != f(int(x)):
            o.add("quarter_duration_map-wrong-after-unordered-calls", t=int(x), got=float(g), expected=f(int(x)), calls=spec["calls"], q0=spec["q0"])
            return o
    # the quarter map advances by 1/divisions per timeline unit
    qm = np.asarray(call(part.quarter_map, xs), dtype=float)
    for a in range(len(xs) - 1):
        exp = 1.0 / f(int(xs[a]))
        if abs((qm[a + 1] - qm[a]) - exp) > 1e-9:
            o.add("quarter_map-slope-wrong-after-unordered-calls", t=int(xs[a]), got=float(qm[a + 1] - qm[a]), expected=exp, calls=spec["calls"], q0=spec["q0"])
            return o
    return o


# ------------------------------------------------------------------ the smallest timeline: one time point
def enum_single(tier):
    out = []
    for q0 in (1, 4):
        for obj in ("timesig", "timesig+zero-length-measure", "clef"):
            for arg in ("int-array", "list", "python-int", "python-float", "numpy-scalar"):
                for mode in ("notated", "musical"):
                    out.append({"q0": q0, "objects": obj, "arg_type": arg, "mode": mode})
    return out


def oracle_single(spec):
    """A part whose only time point is 0 (e.g. a silent staff that carries nothing but its attributes): the only
    position between the first and the last time point is 0, where zero lies; scalar, list and array arguments
    are the documented argument types of the maps."""
    o = Outcome()
    part = S.Part("P", quarter_duration=spec["q0"])
    if spec["objects"].startswith("timesig"):
        part.add(S.TimeSignature(6, 8), 0)
        if "measure" in spec["objects"]:
            part.add(S.Measure(number=1), 0, 0)
    else:
        part.add(S.Clef(1, "G", 2, 0), 0)
    if spec["mode"] == "musical":
        call(part.use_musical_beat)
    at = spec["arg_type"]
    arg = {"int-array": np.array([0]), "list": [0], "python-int": 0, "python-float": 0.0, "numpy-scalar": np.int64(0)}[at]
    o.nontrivial = True
    o.cls("argument-type-" + at)
    for name in ("quarter_map", "beat_map", "inv_quarter_map", "inv_beat_map"):
        fn = call(lambda: getattr(part, name))
        try:
            got = call(fn, arg)
        except SutRaised as e:
            o.add("single-point-part-" + e.kind, map=name, arg_type=at, text=e.text)
            continue
        got = np.asarray(got, dtype=float)
        if got.size != 1 or abs(float(got.reshape(-1)[0])) > 1e-12:
            o.add("single-point-part-map-not-zero-at-the-first-point", map=name, arg_type=at, got=got.tolist())
    qd = np.asarray(call(part.quarter_duration_map, arg), dtype=float)
    if qd.size != 1 or int(qd.reshape(-1)[0]) != spec["q0"]:
        o.add("single-point-part-quarter-duration-map-wrong", got=qd.tolist(), arg_type=at)
    return o


SUBCHECKS = [
    SubCheck(
        "time_maps",
        oracle,
        strategy=strat,
        budget={"quick": 250, "thorough": 6000},
        rule="generated parts with division/time-signature changes (on and off bar lines), pickups, irregular bars, notated/musical beats; maps compared with Fraction arithmetic at every integer position; non-trivial = >=1 division change and >=1 signature change strictly inside the timeline",
        floors={"pickup": 0.05, "musical-beats-with-ts-change": 0.03, "change-not-on-barline": 0.05, "no-measures": 0.05, "first-measure-starts-after-first-point": 0.03, "late-first-measure-short-with-signature": 0.03,
                "user-beats-in-force-differ-from-default": 0.04, "user-beats-given-but-not-in-force": 0.03, "argument-type-list": 0.05, "division-entry-after-last-point": 0.03},
    ),
    SubCheck(
        "divisions_after_unordered_calls",
        oracle_qd,
        strategy=strat_qd,
        budget={"quick": 300, "thorough": 20000},
        rule="set_quarter_duration called 1-7 times in arbitrary order with repeated values; quarter_duration_map at every position and the slope of quarter_map compared with the documented rule; non-trivial = calls out of temporal order and >= 3 table entries",
        floors={"calls-out-of-order": 0.3, "call-at-or-after-last-point": 0.1, "objects-added-before-the-calls": 0.2},
    ),
    SubCheck(
        "single_time_point",
        oracle_single,
        enumerate=enum_single,
        shards=1,
        rule="parts with exactly one time point (at 0), all four maps and the quarter-duration map called with every documented argument type; every case counts",
        known={
            "scalar-query-on-single-point-part-raises": lambda spec, disc: disc["kind"].startswith("single-point-part-sut-raised:TypeError")
            and spec["arg_type"] in ("python-int", "python-float", "numpy-scalar"),
        },
    ),
]
