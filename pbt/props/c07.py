"""C07 - match-file lines survive format/parse round trips in every version.

Sub-checks
----------
lines_*           object (built through the constructors / make_* helpers) -> ``.matchline`` ->
                  ``importmatch.parse_matchline`` with the version's real method list -> same class,
                  fields equal to the generated values, second ``.matchline`` identical (fixpoint);
                  the first text is also compared with the text the format description prescribes
                  (independent renderer in pbt/gen/c07_lines.py).  Pre-1.0 lines are additionally
                  upgraded with ``to_v1``: kind by the documented table, text of the upgraded line equal
                  to the prescribed 1.0.0 text of the same content, and that text round-trips.
text_variants     second direction: non-canonical but accepted spellings written directly from the
                  grammar (accidental synonyms, letter case, n/1 durations, extra decimals, blanks in
                  lists, long mode words, two-number versions) -> parse -> canonical text -> fixpoint.
durations         FractionalSymbolicDuration: from_string(str(x)), exact addition below the bound.
keys_timesigs     all 30 keys x four historical spellings (x alternative key), time signatures.
version_and_names interpret_version / format_version / get_version, to_snake_case / to_camel_case.
"""

import contextlib
import io
import math
from fractions import Fraction

from hypothesis import strategies as st

from pbt.core import Outcome, SubCheck, SutRaised, call
from pbt.gen import c07_lines as G

import partitura.io.importmatch as IM
import partitura.io.matchfile_utils as U
import partitura.io.matchlines_v0 as V0
import partitura.io.matchlines_v1 as V1
from partitura.io.matchfile_utils import FractionalSymbolicDuration as FSD
from partitura.io.matchfile_utils import Version

PROPERTY = "C07"
ENGINES = ["hypothesis", "exhaustive enumeration"]
ASSUMPTIONS = [
    "field values stay inside what the version's patterns can carry: identifiers of letters/digits/underscore with an optional -<digits> suffix, attribute tokens and free text without brackets/parentheses/line breaks, free text and tokens without leading/trailing blanks, non-negative durations, alterations -2..2 (rests: R,-,-)",
    "floats are compared exactly when the format can write them exactly (4, 5 or 2 decimals, or repr for the unconstrained formats) and within half a unit of the last written decimal otherwise",
    "FractionalSymbolicDuration values are compared as exact fractions and by str(); sums whose unreduced numerator/denominator exceed the class's bound 1024 are only required to keep their text",
    "a time signature built with other_components=None is considered equal to the parsed one with other_components=[]",
    "pre-0.3.0 additive durations made of integers only are written as one n/1 number by design (format_fractional_rational); only the value is demanded there",
    "to_v1: float onsets of 0.1.0/0.2.0 notes become the nearest integer (exact .5 ties are not judged); lines without 1.0.0 equivalent (partSequence, mergedFrom) must raise MatchError",
    "the expected text of every line is produced by an independent renderer written from the format descriptions",
    "alterations -3..3 (### and bbb are accepted by the readers and written since the triple-alteration repair); adj_offset of a 0.3.0-0.5.0 note may be left to the constructor's default (the offset)",
    "to_v1 of the parsed line must give the text of to_v1 of the built line when the first text carries the built values exactly (no off-grid float, no pre-0.3.0 folded integer sum); to_v1 must leave the text of its argument unchanged; reading .matchline twice gives the same text",
]

METHODS = {True: V1.FROM_MATCHLINE_METHODS, False: V0.FROM_MATCHLINE_METHODS}


def quiet(fn, *a, **k):
    """Call into partitura with stdout swallowed (parse_matchline / to_v1 print diagnostics)."""
    with contextlib.redirect_stdout(io.StringIO()):
        return call(fn, *a, **k)


def parse(text, v):
    v = Version(*v)
    return quiet(IM.parse_matchline, text, METHODS[v >= Version(1, 0, 0)], v)


# ----------------------------------------------------------------------------- building objects
def build_dur(comps):
    x = FSD(comps[0][0], comps[0][1], comps[0][2])
    for n, d, t in comps[1:]:
        x = x + FSD(n, d, t)
    return x


def mode_name(minor):
    return "minor" if minor else "major"


def build_key(k):
    alt = k.get("alt")
    return U.MatchKeySignature(
        fifths=k["fifths"],
        mode=mode_name(k["minor"]),
        fifths_alt=alt["fifths"] if alt else None,
        mode_alt=mode_name(alt["minor"]) if alt else None,
        other_components=[build_key(o) for o in k.get("others", [])] or None,
    )


def build_timesig(ts):
    others = None if ts.get("others_none") else [FSD(n, d) for n, d in ts["others"]]
    return U.MatchTimeSignature(ts["num"], ts["den"], others)


def build_value(v, kind, attr, value):
    if kind == "scoreprop":
        typ = {"keySignature": "key", "timeSignature": "timesig", "tempoIndication": "tempo",
               "beatSubDivision": "intlist", "directions": "list"}[attr]
    elif kind == "meta":
        typ = {"keySignature": "key", "timeSignature": "timesig"}[attr]
    else:
        typ = G.info_value_type(v, attr)
    if typ == "version":
        return typ, Version(*value)
    if typ == "key":
        return typ, build_key(value)
    if typ == "timesig":
        return typ, build_timesig(value)
    if typ == "tempo":
        return typ, U.MatchTempoIndication(value)
    if typ in ("list", "intlist"):
        return typ, list(value)
    return typ, value


def build_snote(v, s):
    mod = V1 if tuple(v) == G.V100 else V0
    return mod.MatchSnote(
        version=Version(*v), anchor=s["anchor"], note_name=s["step"], modifier=s["alter"], octave=s["octave"],
        measure=s["measure"], beat=s["beat"], offset=build_dur(s["offset"]), duration=build_dur(s["duration"]),
        onset_in_beats=s["onset"], offset_in_beats=s["end"], score_attributes_list=list(s["attrs"]),
    )


def build_note(v, n):
    if tuple(v) == G.V100:
        return V1.MatchNote(version=Version(*v), id=n["id"], midi_pitch=n["pitch"], onset=n["onset"], offset=n["offset"],
                            velocity=n["velocity"], channel=n["channel"], track=n["track"])
    kw = {}
    if "adj_offset" in n:
        kw["adj_offset"] = n["adj_offset"]
    return V0.MatchNote(version=Version(*v), id=n["id"], note_name=n["step"], modifier=n["alter"], octave=n["octave"],
                        onset=n["onset"], offset=n["offset"], velocity=n["velocity"], **kw)


def expected_class(v, kind):
    mod = V1 if tuple(v) == G.V100 else V0
    return {
        "snote": "MatchSnote", "note": "MatchNote", "snote_note": "MatchSnoteNote", "deletion": "MatchSnoteDeletion",
        "trailing_score": "MatchSnoteTrailingScore", "no_played": "MatchSnoteNoPlayedNote", "insertion": "MatchInsertionNote",
        "hammer_bounce": "MatchHammerBounceNote", "trailing_played": "MatchTrailingPlayedNote", "trill": "MatchTrillNote",
        "ornament": "MatchOrnamentNote", "sustain": "MatchSustainPedal", "soft": "MatchSoftPedal", "info": "MatchInfo",
        "meta": "MatchMeta", "scoreprop": "MatchScoreProp", "section": "MatchSection", "stime": "MatchStime",
        "ptime": "MatchPtime", "stime_ptime": "MatchStimePtime",
    }[kind], mod


def build_line(spec):
    v, kind = tuple(spec["v"]), spec["kind"]
    ver = Version(*v)
    name, mod = expected_class(v, kind)
    cls = getattr(mod, name)
    if kind == "snote":
        return build_snote(v, spec["snote"])
    if kind == "note":
        return build_note(v, spec["note"])
    if kind == "snote_note":
        return cls(version=ver, snote=build_snote(v, spec["snote"]), note=build_note(v, spec["note"]))
    if kind in ("deletion", "trailing_score", "no_played"):
        return cls(version=ver, snote=build_snote(v, spec["snote"]))
    if kind in ("insertion", "hammer_bounce", "trailing_played"):
        return cls(version=ver, note=build_note(v, spec["note"]))
    if kind == "trill":
        return cls(version=ver, anchor=spec["anchor"], note=build_note(v, spec["note"]))
    if kind == "ornament":
        return cls(version=ver, anchor=spec["anchor"], ornament_type=list(spec["types"]), note=build_note(v, spec["note"]))
    if kind in ("sustain", "soft"):
        return cls(version=ver, time=spec["time"], value=spec["value"])
    if kind == "info":
        _, value = build_value(v, kind, spec["attr"], spec["value"])
        if v == G.V100:
            return V1.make_info(ver, spec["attr"], value)
        _, fmt, typ = V0.INFO_LINE[ver][spec["attr"]]
        return V0.MatchInfo(version=ver, attribute=spec["attr"], value=value, value_type=typ, format_fun=fmt)
    if kind == "meta":
        _, value = build_value(v, kind, spec["attr"], spec["value"])
        _, fmt, typ = V0.META_LINE[ver][spec["attr"]]
        return V0.MatchMeta(version=ver, attribute=spec["attr"], value=value, value_type=typ, format_fun=fmt,
                            measure=spec["measure"], time_in_beats=spec["time"])
    if kind == "scoreprop":
        _, value = build_value(v, kind, spec["attr"], spec["value"])
        return V1.make_scoreprop(ver, spec["attr"], value, spec["measure"], spec["beat"], build_dur(spec["offset"]), spec["time"])
    if kind == "section":
        a, b, c, d = spec["times"]
        return V1.make_section(ver, a, b, c, d, list(spec["types"]))
    if kind == "stime":
        return V1.MatchStime(ver, spec["measure"], spec["beat"], build_dur(spec["offset"]), spec["onset"], list(spec["types"]))
    if kind == "ptime":
        return V1.MatchPtime(ver, list(spec["onsets"]))
    if kind == "stime_ptime":
        return V1.MatchStimePtime(
            ver,
            V1.MatchStime(ver, spec["measure"], spec["beat"], build_dur(spec["offset"]), spec["onset"], list(spec["types"])),
            V1.MatchPtime(ver, list(spec["onsets"])),
        )
    raise ValueError(kind)


def parse_any(text, spec):
    """Dispatch through importmatch.parse_matchline; the component lines (snote, note, stime,
    ptime) are not in the dispatch lists and are parsed with their own from_matchline."""
    v, kind = tuple(spec["v"]), spec["kind"]
    if kind in ("snote", "note", "stime", "ptime"):
        name, mod = expected_class(v, kind)
        return quiet(getattr(mod, name).from_matchline, text, version=Version(*v))
    return parse(text, v)


# ----------------------------------------------------------------------------- comparing fields with the spec
class Cmp(object):
    def __init__(self, o, prefix="field-changed"):
        self.o = o
        self.prefix = prefix

    def bad(self, field, got, exp, **kw):
        self.o.add("%s:%s" % (self.prefix, field), got=repr(got)[:200], expected=repr(exp)[:200], **kw)

    def eq(self, field, got, exp):
        if isinstance(exp, bool) or exp is None:
            ok = got is exp
        elif isinstance(exp, int):
            ok = isinstance(got, (int,)) and not isinstance(got, bool) and got == exp
        else:
            ok = type(got) is type(exp) and got == exp
        if not ok:
            self.bad(field, got, exp)

    def flt(self, field, got, exp, decimals):
        if isinstance(got, bool) or not isinstance(got, (float, int)):
            return self.bad(field, got, exp)
        if decimals is None or G.on_grid(exp, decimals):
            if got != exp:
                self.bad(field, got, exp, exact=True)
        else:
            self.o.cls("float-off-grid")
            tol = 0.5 * 10 ** (-decimals) * (1 + 1e-9) + 1e-12 * abs(exp)
            if not abs(got - exp) <= tol:
                self.bad(field, got, exp, tolerance=tol)

    def lst(self, field, got, exp):
        if not isinstance(got, list) or got != exp:
            if exp == [] and got == [""]:
                self.o.add("empty-list-parsed-as-empty-string", field=field)
            else:
                self.bad(field, got, exp)

    def dur(self, field, got, comps, rational=False):
        if not isinstance(got, FSD):
            return self.bad(field, got, comps)
        num, den, bounded = G.dur_fold(comps)
        if len(comps) == 1:
            n, d, t = comps[0]
            if (got.numerator, got.denominator, got.tuple_div) != (n, d, t) or got.add_components is not None:
                self.bad(field, [got.numerator, got.denominator, got.tuple_div, got.add_components], comps)
            if str(got) != G.comp_text(comps[0]):
                self.bad(field + ".str", str(got), G.comp_text(comps[0]))
            return
        collapsed = rational and den == 1 and not bounded
        self.o.cls("duration-additive")
        if collapsed:
            self.o.cls("pre-0.3-integer-sum-written-as-one-number")
        elif str(got) != G.dur_text(comps):
            self.bad(field + ".str", str(got), G.dur_text(comps))
        if bounded:
            self.o.cls("duration-sum-bounded")
            self.o.excluded.append("value of a duration sum beyond the bound 1024")
            f = float(got)
            if not (math.isfinite(f) and f > 0):
                self.bad(field + ".bounded", f, "finite positive")
        else:
            val = Fraction(int(got.numerator), int(got.denominator) * int(got.tuple_div or 1))
            if val != G.dur_value(comps):
                self.bad(field + ".value", str(val), str(G.dur_value(comps)))

    def key(self, field, got, k):
        if not isinstance(got, U.MatchKeySignature):
            return self.bad(field, got, k)

        def tup(x):
            return (x.fifths, x.mode, x.fifths_alt, x.mode_alt)

        def exp(kk):
            alt = kk.get("alt")
            return (kk["fifths"], mode_name(kk["minor"]), alt["fifths"] if alt else None, mode_name(alt["minor"]) if alt else None)

        g = [tup(got)] + [tup(c) for c in (got.other_components or [])]
        e = [exp(k)] + [exp(c) for c in k.get("others", [])]
        if g != e:
            self.bad(field, g, e)
        elif not (got == build_key(k)):
            self.bad(field + ".__eq__", g, e)

    def timesig(self, field, got, ts):
        if not isinstance(got, U.MatchTimeSignature):
            return self.bad(field, got, ts)
        g = [got.numerator, got.denominator, [[c.numerator, c.denominator] for c in (got.other_components or [])]]
        e = [ts["num"], ts["den"], [list(x) for x in ts["others"]]]
        if g != e:
            self.bad(field, g, e)

    def value(self, field, got, v, kind, attr, value):
        typ, _ = build_value(v, kind, attr, value)
        if typ == "version":
            if not isinstance(got, Version) or tuple(got) != tuple(value):
                self.bad(field, got, value)
        elif typ == "key":
            self.key(field, got, value)
        elif typ == "timesig":
            self.timesig(field, got, value)
        elif typ == "tempo":
            if not isinstance(got, U.MatchTempoIndication) or str(got) != value:
                self.bad(field, got, value)
        elif typ in ("str", "qstr"):
            self.eq(field, got, value)
        elif typ == "float":
            self.flt(field, got, value, 4)
        elif typ == "ufloat":
            self.flt(field, got, value, None)
        elif typ == "int":
            self.eq(field, got, value)
        elif typ in ("list", "intlist"):
            self.lst(field, got, list(value))


def compare_snote(c, got, v, s):
    v = tuple(v)
    dec = G.snote_decimals(v)
    rational = v < G.V030
    c.eq("Anchor", got.Anchor, s["anchor"])
    c.eq("NoteName", got.NoteName, s["step"])
    c.eq("Modifier", got.Modifier, s["alter"])
    c.eq("Octave", got.Octave, s["octave"])
    c.eq("Measure", got.Measure, s["measure"])
    c.eq("Beat", got.Beat, s["beat"])
    c.dur("Offset", got.Offset, s["offset"], rational)
    c.dur("Duration", got.Duration, s["duration"], rational)
    c.flt("OnsetInBeats", got.OnsetInBeats, s["onset"], dec)
    c.flt("OffsetInBeats", got.OffsetInBeats, s["end"], dec)
    c.lst("ScoreAttributesList", got.ScoreAttributesList, list(s["attrs"]))
    if s["octave"] is not None:
        mp = call(lambda: got.MidiPitch)
        if mp != G.ref_midi_pitch(s["step"], s["alter"], s["octave"]):
            c.bad("snote.MidiPitch", mp, G.ref_midi_pitch(s["step"], s["alter"], s["octave"]))


def compare_note(c, got, v, n):
    v = tuple(v)
    c.eq("Id", got.Id, n["id"])
    c.eq("Velocity", got.Velocity, n["velocity"])
    if v == G.V100:
        c.eq("MidiPitch", got.MidiPitch, n["pitch"])
        c.eq("Onset", got.Onset, n["onset"])
        c.eq("Offset", got.Offset, n["offset"])
        c.eq("Channel", got.Channel, n["channel"])
        c.eq("Track", got.Track, n["track"])
        return
    c.eq("NoteName", got.NoteName, n["step"])
    c.eq("Modifier", got.Modifier, n["alter"])
    c.eq("Octave", got.Octave, n["octave"])
    c.eq("MidiPitch", got.MidiPitch, G.ref_midi_pitch(n["step"], n["alter"], n["octave"]))
    if v < G.V030:
        c.flt("Onset", got.Onset, n["onset"], 2)
        c.flt("Offset", got.Offset, n["offset"], 2)
    else:
        c.eq("Onset", got.Onset, n["onset"])
        c.eq("Offset", got.Offset, n["offset"])
        c.eq("AdjOffset", got.AdjOffset, n.get("adj_offset", n["offset"]))


def compare_line(c, got, spec):
    v, kind = tuple(spec["v"]), spec["kind"]
    if kind == "snote":
        compare_snote(c, got, v, spec["snote"])
    elif kind == "note":
        compare_note(c, got, v, spec["note"])
    elif kind == "snote_note":
        compare_snote(c, got.snote, v, spec["snote"])
        compare_note(c, got.note, v, spec["note"])
    elif kind in ("deletion", "trailing_score", "no_played"):
        compare_snote(c, got.snote, v, spec["snote"])
        c.eq("Anchor(copied)", got.Anchor, spec["snote"]["anchor"])
    elif kind in ("insertion", "hammer_bounce", "trailing_played"):
        compare_note(c, got.note, v, spec["note"])
        c.eq("Id(copied)", got.Id, spec["note"]["id"])
    elif kind in ("trill", "ornament"):
        c.eq("Anchor", got.Anchor, spec["anchor"])
        compare_note(c, got.note, v, spec["note"])
        if kind == "ornament":
            c.lst("OrnamentType", got.OrnamentType, list(spec["types"]))
    elif kind in ("sustain", "soft"):
        c.eq("Time", got.Time, spec["time"])
        c.eq("Value", got.Value, spec["value"])
    elif kind == "info":
        c.eq("Attribute", got.Attribute, spec["attr"])
        c.value("Value", got.Value, v, kind, spec["attr"], spec["value"])
    elif kind == "meta":
        c.eq("Attribute", got.Attribute, spec["attr"])
        c.value("Value", got.Value, v, kind, spec["attr"], spec["value"])
        c.eq("Measure", got.Measure, spec["measure"])
        c.flt("TimeInBeats", got.TimeInBeats, spec["time"], None)
    elif kind == "scoreprop":
        c.eq("Attribute", got.Attribute, spec["attr"])
        c.value("Value", got.Value, v, kind, spec["attr"], spec["value"])
        c.eq("Measure", got.Measure, spec["measure"])
        c.eq("Beat", got.Beat, spec["beat"])
        c.dur("Offset", got.Offset, spec["offset"])
        c.flt("TimeInBeats", got.TimeInBeats, spec["time"], 4)
    elif kind == "section":
        for name, x in zip(("StartInBeatsUnfolded", "EndInBeatsUnfolded", "StartInBeatsOriginal", "EndInBeatsOriginal"), spec["times"]):
            c.flt(name, getattr(got, name), x, 4)
        c.lst("RepeatEndType", got.RepeatEndType, list(spec["types"]))
    elif kind in ("stime", "ptime", "stime_ptime"):
        s = got.stime if kind == "stime_ptime" else got
        p = got.ptime if kind == "stime_ptime" else got
        if kind != "ptime":
            c.eq("Measure", s.Measure, spec["measure"])
            c.eq("Beat", s.Beat, spec["beat"])
            c.dur("Offset", s.Offset, spec["offset"])
            c.flt("OnsetInBeats", s.OnsetInBeats, spec["onset"], 4)
            c.lst("AnnotationType", s.AnnotationType, list(spec["types"]))
        if kind != "stime":
            c.lst("Onsets", p.Onsets, list(spec["onsets"]))


# ----------------------------------------------------------------------------- upgrade to 1.0.0 (reference)
TO_V1_KIND = {
    "snote_note": "snote_note", "deletion": "deletion", "trailing_score": "deletion", "no_played": "deletion",
    "insertion": "insertion", "hammer_bounce": "insertion", "trailing_played": "insertion", "trill": "ornament",
    "sustain": "sustain", "soft": "soft",
}


def _is_tie(x):
    return abs(x - math.floor(x) - 0.5) < 1e-9


def upgrade_spec(spec):
    """1.0.0 spec with the same content, or a string naming why no expectation exists."""
    kind = spec["kind"]
    out = {"v": list(G.V100)}
    if kind in TO_V1_KIND:
        out["kind"] = TO_V1_KIND[kind]
        if "snote" in spec:
            out["snote"] = dict(spec["snote"])
        if "note" in spec:
            n = spec["note"]
            if isinstance(n["onset"], float) and (_is_tie(n["onset"]) or _is_tie(n["offset"])):
                return "tie"
            out["note"] = {"id": n["id"], "pitch": G.ref_midi_pitch(n["step"], n["alter"], n["octave"]),
                           "onset": int(round(n["onset"])), "offset": int(round(n["offset"])),
                           "velocity": n["velocity"], "channel": 1, "track": 0}
        if kind == "trill":
            out["anchor"] = spec["anchor"]
            out["types"] = ["trill"]
        if kind in ("sustain", "soft"):
            out["time"], out["value"] = spec["time"], spec["value"]
        return out
    if kind == "meta":
        out.update(kind="scoreprop", attr=spec["attr"], value=spec["value"], measure=spec["measure"], beat=1,
                   offset=[[0, 1, None]], time=spec["time"])
        if spec["attr"] == "timeSignature":
            out["value"] = dict(spec["value"], others=[])
        return out
    if kind == "info":
        attr, value = spec["attr"], spec["value"]
        if attr in ("partSequence", "mergedFrom"):
            return "no-equivalent"
        if attr in ("keySignature", "timeSignature", "beatSubDivision", "beatSubdivision", "tempoIndication"):
            out.update(kind="scoreprop", attr={"beatSubdivision": "beatSubDivision"}.get(attr, attr), measure=1, beat=1,
                       offset=[[0, 1, None]], time=0.0)
            if attr == "keySignature":
                out["value"] = dict(value, others=[])
                if value.get("others"):
                    return "key-list"  # 1.0.0 carries one (double) key per line
            elif attr == "timeSignature":
                if value["others"]:
                    return "timesig-list"
                out["value"] = dict(value, others=[])
            elif attr == "tempoIndication":
                if not value:
                    return "empty-list"
                out["value"] = None  # text of the joined list not prescribed
            else:
                if not value:
                    return "empty-list"
                out["value"] = [int(x) for x in value]
            return out
        out.update(kind="info", attr={"midiFilename": "midiFileName"}.get(attr, attr))
        if attr == "subtitle":
            return "subtitle-list"
        out["value"] = value
        return out
    return "not-a-dispatch-line"


# ----------------------------------------------------------------------------- oracle: lines
def nontrivial_line(spec):
    kind = spec["kind"]
    s, n = spec.get("snote"), spec.get("note")
    if s is not None:
        if s["attrs"] or s["alter"] not in (0,) or len(s["offset"]) > 1 or len(s["duration"]) > 1:
            return True
        if any(c[2] is not None for c in s["offset"] + s["duration"]):
            return True
    if n is not None and n.get("alter", 0) != 0:
        return True
    if kind in ("ornament", "section", "stime", "stime_ptime") and spec.get("types"):
        return True
    if kind in ("ptime", "stime_ptime") and len(spec["onsets"]) > 1:
        return True
    if kind in ("info", "meta", "scoreprop"):
        val = spec["value"]
        if isinstance(val, dict):
            return bool(val.get("alt") or val.get("others") or val.get("fifths") or val.get("minor") or val.get("num"))
        if isinstance(val, list):
            return len(val) > 0
        if isinstance(val, str):
            return " " in val or "," in val
        return isinstance(val, float)
    if kind in ("sustain", "soft"):
        return 0 < spec["value"] < 127 and spec["time"] > 0
    return False


def check_roundtrip(o, spec, text1, prefix=""):
    """parse text1 -> class, fields, fixpoint. Returns the parsed object or None."""
    name, mod = expected_class(spec["v"], spec["kind"])
    try:
        o2 = parse_any(text1, spec)
    except SutRaised as e:
        o.add(prefix + "parse-raised", text=text1, exc=e.text, where=e.kind)
        return None
    if o2 is None:
        o.add(prefix + "parse-returned-none", text=text1)
        return None
    if type(o2) is not getattr(mod, name):
        o.add(prefix + "class-changed", text=text1, got=type(o2).__name__, expected=name)
        return None
    compare_line(Cmp(o, prefix + "field-changed"), o2, spec)
    try:
        text2 = call(lambda: o2.matchline)
    except SutRaised as e:
        o.add(prefix + "rewrite-raised", text=text1, exc=e.text, where=e.kind)
        return o2
    if text2 != text1:
        o.add(prefix + "not-fixpoint", first=text1, second=text2)
    try:
        if call(o2.check_types, False) is not True:
            o.add(prefix + "parsed-field-types-wrong", text=text1)
    except SutRaised as e:
        o.add(prefix + "check-types-raised", text=text1, exc=e.text)
    return o2


def oracle_line(spec):
    v, kind = tuple(spec["v"]), spec["kind"]
    o = Outcome(nontrivial=nontrivial_line(spec))
    o.cls("%s@%d.%d.%d" % ((kind,) + v))
    o.cls("kind:" + kind)
    if "snote" in spec:
        o.cls("rest", spec["snote"]["step"] == "R")
        o.cls("attribute-list-empty", not spec["snote"]["attrs"])
        o.cls("attribute-list-3+", len(spec["snote"]["attrs"]) >= 3)
        o.cls("tuplet-divisor", any(c[2] is not None for c in spec["snote"]["offset"] + spec["snote"]["duration"]))
        o.cls("attribute-list-6+", len(spec["snote"]["attrs"]) >= 6)
        o.cls("triple-alteration", spec["snote"]["alter"] in (3, -3))
        o.cls("identifier-with-two-dash-groups", spec["snote"]["anchor"].count("-") >= 2)
    if "note" in spec and tuple(spec["v"]) != G.V100:
        o.cls("triple-alteration", spec["note"]["alter"] in (3, -3))
        o.cls("adj-offset-keyword-absent", tuple(spec["v"]) >= G.V030 and "adj_offset" not in spec["note"])
    if kind in ("info", "meta", "scoreprop"):
        o.cls("attr:%s:%s" % (kind, spec["attr"]))
    try:
        obj = build_line_called(spec)
    except SutRaised as e:
        o.add("build-raised", exc=e.text, where=e.kind)
        return o
    try:
        text1 = call(lambda: obj.matchline)
    except SutRaised as e:
        o.add("write-raised", exc=e.text, where=e.kind)
        return o
    want = G.line_text(spec)
    if text1 != want:
        o.add("text-differs-from-format", got=text1, expected=want)
    # writing is a read-only operation: a second reading of the property gives the same text, and the object
    # built from well-typed values passes its own type check
    again = call(lambda: obj.matchline)
    if again != text1:
        o.add("second-write-of-the-same-object-differs", first=text1, second=again)
    try:
        if call(obj.check_types, False) is not True:
            o.add("built-field-types-wrong", text=text1)
    except SutRaised as e:
        o.add("check-types-raised", text=text1, exc=e.text)
    n_before = len(o.discs)
    parsed = check_roundtrip(o, spec, text1)
    # (a text that cannot carry the built values exactly - off-grid floats, pre-0.3.0 integer sums folded into
    # one number - upgrades to another text by design)
    parsed_clean = (parsed is not None and len(o.discs) == n_before and "float-off-grid" not in o.classes
                    and "pre-0.3-integer-sum-written-as-one-number" not in o.classes)

    # ---- upgrade to 1.0.0
    if v != G.V100 and kind not in ("snote", "note"):
        up = upgrade_spec(spec)
        o.cls("to_v1")
        try:
            conv = quiet(V1.to_v1, obj)
        except SutRaised as e:
            if up == "no-equivalent" and "MatchError" in e.kind:
                o.cls("to_v1-no-equivalent-rejected")
                return o
            if up == "empty-list":
                # an empty list value has no 1.0.0 spelling (the value pattern needs one character)
                o.excluded.append("to_v1 content not judged: empty-list")
                return o
            o.add("to-v1-raised", exc=e.text, where=e.kind)
            return o
        if up == "no-equivalent":
            o.add("to-v1-accepted-line-without-equivalent", got=type(conv).__name__)
            return o
        if isinstance(up, str):
            o.excluded.append("to_v1 content not judged: " + up)
            up = None
        if conv is None:
            o.add("to-v1-returned-none")
            return o
        if up is not None:
            name, mod = expected_class(G.V100, up["kind"])
            if type(conv) is not getattr(mod, name):
                o.add("to-v1-kind-changed", got=type(conv).__name__, expected=name)
                return o
        try:
            ctext = call(lambda: conv.matchline)
        except SutRaised as e:
            o.add("to-v1-line-unwritable", exc=e.text, where=e.kind, line_class=type(conv).__name__)
            return o
        # the upgraded line shares its values with the source line: the source must still write its own text
        src_again = call(lambda: obj.matchline)
        if src_again != text1:
            o.add("to-v1-changed-the-source-line", before=text1, after=src_again)
        # the upgrade of the PARSED line (what load_matchfile holds) is the upgrade of the built line
        if parsed_clean:
            o.cls("to_v1-of-parsed-line")
            try:
                ptext = call(lambda: quiet(V1.to_v1, parsed).matchline)
            except SutRaised as e:
                o.add("to-v1-of-parsed-line-raised", exc=e.text, where=e.kind, line=text1)
                ptext = ctext
            if ptext != ctext:
                o.add("to-v1-of-parsed-line-differs", line=text1, from_built=ctext, from_parsed=ptext)
        if up is None or up.get("value", 0) is None:
            return o
        if "note" in up:
            # channel and track do not exist before 1.0.0; whatever integers to_v1 chooses are accepted
            ch, tr = getattr(conv.note, "Channel", None), getattr(conv.note, "Track", None)
            if isinstance(ch, int) and isinstance(tr, int) and not isinstance(ch, bool) and ch >= 0 and tr >= 0:
                up["note"]["channel"], up["note"]["track"] = ch, tr
        cwant = G.line_text(up)
        if ctext != cwant:
            o.add("to-v1-text-wrong", got=ctext, expected=cwant)
        else:
            check_roundtrip(o, up, ctext, prefix="to-v1-")
    return o


def build_line_called(spec):
    return call(build_line, spec)


# ----------------------------------------------------------------------------- known findings (lines)
def _v1_key_with_letters(spec):
    return spec.get("attr") == "keySignature" and isinstance(spec.get("value"), dict) and not G.v1_key_name_is_plain(spec["value"])


def known_v1_key_names(spec, d):
    """1.0.0 key names with a letter after the tonic (flat sign b, minor suffix m) are read by the 0.3.0 pattern."""
    if tuple(spec["v"]) == G.V100:
        return spec["kind"] == "scoreprop" and _v1_key_with_letters(spec) and d.kind in (
            "field-changed:Value", "not-fixpoint", "rewrite-raised")
    return spec["kind"] in ("info", "meta") and _v1_key_with_letters(spec) and d.kind in (
        "to-v1-field-changed:Value", "to-v1-not-fixpoint", "to-v1-rewrite-raised")


def known_soft_to_v1(spec, d):
    return spec["kind"] == "soft" and tuple(spec["v"]) != G.V100 and d.kind == "to-v1-raised" and "from_instance" in d["detail"].get("where", "")


def _has_empty_list(spec):
    if spec.get("snote") is not None and not spec["snote"]["attrs"]:
        return True
    if spec["kind"] in ("ornament", "section", "stime", "stime_ptime") and not spec.get("types"):
        return True
    return spec["kind"] in ("info", "scoreprop") and spec.get("value") == []


def known_empty_list(spec, d):
    return d.kind in ("empty-list-parsed-as-empty-string", "to-v1-empty-list-parsed-as-empty-string") and _has_empty_list(spec)


def known_tempo_indication(spec, d):
    if spec.get("attr") != "tempoIndication":
        return False
    if tuple(spec["v"]) == G.V100:
        return d.kind in ("field-changed:Value", "rewrite-raised")
    return d.kind == "to-v1-line-unwritable"


# ----------------------------------------------------------------------------- text variants (second direction)
# kinds that have an accepted non-canonical spelling
VARIANT_KINDS = G.SCORE_NOTE_KINDS + G.PERFORMED_NOTE_KINDS + ["sustain", "soft", "section", "section", "info", "meta", "meta"]


@st.composite
def strat_variants(draw, tier="quick"):
    base = draw(G.line_spec(tier, kinds=VARIANT_KINDS))
    return {"base": base, "seed": draw(st.lists(st.integers(0, 7), min_size=12, max_size=12))}


def variant_text(spec, seed):
    """A non-canonical spelling of the line of ``spec`` that the readers accept, and the list of
    variation names applied. Works on the canonical text by replacing the fields it knows."""
    v, kind = tuple(spec["v"]), spec["kind"]
    it = iter(seed)
    applied = []

    def snote_var(s):
        s2 = dict(s)
        txt = G.snote_text(v, s)
        canon_mod = G.MOD_TEXT[s["alter"]]
        step_txt = s["step"].lower() if v <= G.V030 else s["step"].upper()
        head = "snote(%s,[%s,%s]," % (s["anchor"], step_txt, canon_mod)
        assert txt.startswith(head)
        k = next(it)
        mods = G.MOD_VARIANTS[s["alter"]]
        mod = mods[k % len(mods)]
        if mod != canon_mod:
            applied.append("accidental-synonym")
        k = next(it)
        step2 = step_txt.swapcase() if k % 2 else step_txt
        if step2 != step_txt:
            applied.append("note-name-case")
        rest = txt[len(head):]
        # audit: integer durations spelled n/1 (the pre-0.3.0 habit, accepted by every reader) and further
        # decimals on the beat times of the fixed-point formats
        pieces = rest.split(",", 6)  # octave, measure:beat, offset, duration, onset, end, [attrs])
        k = next(it)
        if v >= G.V030 and k % 3 == 0:
            for i in (2, 3):
                if pieces[i].isdigit():
                    pieces[i] += "/1"
                    applied.append("integer-duration-as-n/1")
        k = next(it)
        if G.snote_decimals(v) is not None and k % 3 == 0 and G.on_grid(s["onset"], G.snote_decimals(v)) and G.on_grid(s["end"], G.snote_decimals(v)):
            pieces[4] += "00"
            pieces[5] += "0"
            applied.append("extra-decimals")
        rest = ",".join(pieces)
        k = next(it)
        if k % 2 and s["attrs"]:
            inner = ",".join(s["attrs"])
            assert rest.endswith("[" + inner + "])")
            rest = rest[: -len(inner) - 3] + "[" + " , ".join(s["attrs"]) + " ])"
            applied.append("blanks-in-list")
        return "snote(%s,[%s,%s]," % (s["anchor"], step2, mod) + rest, s2

    def note_var(n):
        txt = G.note_text(v, n)
        if v == G.V100:
            return txt
        canon_mod = G.MOD_TEXT[n["alter"]]
        step_txt = n["step"].lower() if v <= G.V030 else n["step"].upper()
        head = "note(%s,[%s,%s]," % (n["id"], step_txt, canon_mod)
        assert txt.startswith(head)
        k = next(it)
        mods = G.MOD_VARIANTS[n["alter"]]
        mod = mods[k % len(mods)]
        if mod != canon_mod:
            applied.append("accidental-synonym")
        k = next(it)
        step2 = step_txt.swapcase() if k % 2 else step_txt
        if step2 != step_txt:
            applied.append("note-name-case")
        return "note(%s,[%s,%s]," % (n["id"], step2, mod) + txt[len(head):]

    if kind in ("snote", "snote_note", "deletion", "trailing_score", "no_played"):
        st_, _ = snote_var(spec["snote"])
        tail = {"snote": "", "deletion": "-deletion.", "trailing_score": "-trailing_score_note.", "no_played": "-no_played_note."}.get(kind)
        if kind == "snote_note":
            tail = "-" + note_var(spec["note"])
        return st_ + tail, applied
    if kind in ("note", "insertion", "hammer_bounce", "trailing_played", "trill", "ornament"):
        canon = G.line_text(spec)
        ntxt = G.note_text(v, spec["note"])
        assert canon.endswith(ntxt)
        return canon[: -len(ntxt)] + note_var(spec["note"]), applied
    if kind == "info" and spec["attr"] == "matchFileVersion" and spec["value"][0] == 0 and v != G.V100:
        applied.append("two-number-version")
        return "info(matchFileVersion,%d.%d)." % (spec["value"][1], spec["value"][2]), applied
    if kind in ("info", "meta") and spec["attr"] == "keySignature" and v >= G.V030 and v != G.V100:
        k = next(it)
        words = [("Maj", "min"), ("major", "minor"), ("maj", "min"), ("Major", "Minor")][k % 4]
        if words != ("Maj", "min"):
            applied.append("long-mode-words")
        val = G.key_text_v03(spec["value"], words)
        if kind == "meta":
            return "meta(keySignature,%s,%d,%s)." % (val, spec["measure"], G.frepr(spec["time"])), applied
        vals = [val] + [G.key_text_v03(o_, words) for o_ in spec["value"].get("others", [])]
        return "info(keySignature,[%s])." % ",".join(vals), applied
    if kind in ("sustain", "soft"):
        applied.append("blank-after-comma")
        return "%s(%d, %d)." % (kind, spec["time"], spec["value"]), applied
    if kind == "section":
        applied.append("extra-decimals")
        return "section(%s,%s,%s,%s,[%s])." % tuple([G.ffix(x, 6) for x in spec["times"]] + [" ,".join(spec["types"])]), applied
    return G.line_text(spec), applied


def oracle_triple_alteration(o, base, flat):
    """The readers accept ### and bbb (SIGN_TO_ALTER): the line must survive like any other."""
    o.cls("variant:triple-alteration")
    o.nontrivial = True
    v = tuple(base["v"])
    s = dict(base["snote"], alter=0)
    canon = G.line_text(dict(base, snote=s))
    step_txt = s["step"].lower() if v <= G.V030 else s["step"].upper()
    head = "snote(%s,[%s,n]," % (s["anchor"], step_txt)
    assert canon.startswith(head)
    sign, alter = ("bbb", -3) if flat else ("###", 3)
    text0 = "snote(%s,[%s,%s]," % (s["anchor"], step_txt, sign) + canon[len(head):]
    try:
        o1 = parse_any(text0, base)
    except SutRaised as e:
        o.add("triple-alteration-parse-raised", text=text0, exc=e.text)
        return o
    if o1 is None:
        o.add("triple-alteration-not-parsed", text=text0)
        return o
    sn = o1 if base["kind"] == "snote" else o1.snote
    if sn.Modifier != alter:
        o.add("triple-alteration-misread", text=text0, got=repr(sn.Modifier))
    try:
        text1 = call(lambda: o1.matchline)
    except SutRaised as e:
        o.add("triple-alteration-unwritable", text=text0, exc=e.text, where=e.kind)
        return o
    o2 = parse_any(text1, base)
    if o2 is None or call(lambda: o2.matchline) != text1:
        o.add("triple-alteration-not-fixpoint", first=text1)
    elif (o2 if base["kind"] == "snote" else o2.snote).Modifier != alter:
        o.add("triple-alteration-lost", first=text0, second=text1)
    return o


def known_triple_alteration(spec, d):
    return d.kind == "triple-alteration-unwritable" and "KeyError" in d["detail"].get("exc", "")


def oracle_variant(spec):
    base = spec["base"]
    o = Outcome()
    v, kind = tuple(base["v"]), base["kind"]
    if kind == "section" and not all(G.on_grid(x, 4) for x in base["times"]):
        o.excluded.append("section variant with off-grid times")
        return o
    if spec["seed"][11] == 7 and base.get("snote") is not None and base["snote"]["step"] != "R":
        return oracle_triple_alteration(o, base, spec["seed"][10] % 2)
    text0, applied = variant_text(base, spec["seed"])
    canon = G.line_text(base)
    for a in applied:
        o.cls("variant:" + a)
    o.cls("kind:" + kind)
    o.nontrivial = text0 != canon
    name, mod = expected_class(v, kind)
    try:
        o1 = parse_any(text0, base)
    except SutRaised as e:
        o.add("variant-parse-raised", text=text0, exc=e.text, where=e.kind)
        return o
    if o1 is None:
        o.add("variant-parse-returned-none", text=text0)
        return o
    if type(o1) is not getattr(mod, name):
        o.add("variant-class-changed", text=text0, got=type(o1).__name__, expected=name)
        return o
    compare_line(Cmp(o, "variant-field-changed"), o1, base)
    try:
        text1 = call(lambda: o1.matchline)
    except SutRaised as e:
        o.add("variant-rewrite-raised", text=text0, exc=e.text, where=e.kind)
        return o
    if text1 != canon:
        o.add("variant-not-canonicalised", given=text0, got=text1, expected=canon)
    # format(parse(format(parse(s)))) == format(parse(s))
    try:
        o2 = parse_any(text1, base)
        text2 = call(lambda: o2.matchline) if o2 is not None else None
    except SutRaised as e:
        o.add("variant-second-round-raised", text=text1, exc=e.text, where=e.kind)
        return o
    if text2 != text1:
        o.add("variant-not-fixpoint", first=text1, second=text2)
    return o


def known_variant_v1_key(spec, d):
    b = spec["base"]
    return tuple(b["v"]) == G.V100 and b["kind"] == "scoreprop" and _v1_key_with_letters(b) and d.kind in (
        "variant-field-changed:Value", "variant-not-canonicalised", "variant-rewrite-raised", "variant-not-fixpoint")


def known_variant_empty_list(spec, d):
    return d.kind == "empty-list-parsed-as-empty-string" and _has_empty_list(spec["base"])


def known_variant_tempo(spec, d):
    b = spec["base"]
    return b.get("attr") == "tempoIndication" and tuple(b["v"]) == G.V100 and d.kind in ("variant-field-changed:Value", "variant-rewrite-raised")


# ----------------------------------------------------------------------------- durations
@st.composite
def strat_durations(draw, tier="quick"):
    mode = draw(st.sampled_from(["roundtrip", "roundtrip", "add", "add", "add-int", "sum", "list", "chain", "chain"]))
    wide = draw(st.integers(0, 4)) == 0
    comp = G.component(allow_zero=True, musical=not wide)
    if mode == "roundtrip":
        return {"mode": mode, "dur": draw(G.duration())}
    if mode == "add":
        return {"mode": mode, "a": draw(comp), "b": draw(comp)}
    if mode == "add-int":
        return {"mode": mode, "a": draw(comp), "k": draw(st.integers(0, 40)), "right": draw(st.booleans())}
    if mode == "sum":
        return {"mode": mode, "parts": draw(st.lists(comp, min_size=2, max_size=5))}
    if mode == "chain":
        # a history of additions in which earlier (compound) results are reused as operands
        return {"mode": mode, "parts": draw(st.lists(G.component(allow_zero=False, musical=True), min_size=3, max_size=5)),
                "reuse": draw(st.lists(st.integers(0, 3), min_size=1, max_size=3))}
    return {"mode": mode, "items": draw(st.lists(G.duration(), min_size=1, max_size=4))}


def _exact(x):
    return Fraction(int(x.numerator), int(x.denominator) * int(x.tuple_div or 1))


def oracle_durations(spec):
    o = Outcome()
    mode = spec["mode"]
    o.cls("mode:" + mode)
    if mode == "roundtrip":
        comps = spec["dur"]
        o.nontrivial = len(comps) > 1 or comps[0][2] is not None
        x = call(build_dur, comps)
        s = call(str, x)
        if s != G.dur_text(comps):
            o.add("duration-str-wrong", got=s, expected=G.dur_text(comps))
        y = call(FSD.from_string, s)
        c = Cmp(o, "duration-from-string")
        c.dur("value", y, comps)
        if call(str, y) != s:
            o.add("duration-str-not-fixpoint", first=s, second=str(y))
        _, _, bounded = G.dur_fold(comps)
        if not bounded and call(float, y) != float(G.dur_value(comps)) and abs(float(y) - float(G.dur_value(comps))) > 1e-12:
            o.add("duration-float-wrong", got=float(y), expected=float(G.dur_value(comps)))
        if len(comps) == 1 and (not (y == x) or (y != x)):
            o.add("duration-eq-fails-after-roundtrip", text=s)
        # interpret_as_fractional / format_fractional are the entry points used by the line classes
        z = call(U.interpret_as_fractional, s)
        if call(U.format_fractional, z) != s:
            o.add("format-interpret-fractional-not-inverse", text=s)
        return o
    if mode == "list":
        items = spec["items"]
        o.nontrivial = len(items) > 1
        text = "[" + ",".join(G.dur_text(c) for c in items) + "]"
        z = call(U.interpret_as_fractional, text)
        if not isinstance(z, list) or len(z) != len(items):
            o.add("fractional-list-wrong-shape", text=text, got=repr(z)[:100])
            return o
        for zi, comps in zip(z, items):
            Cmp(o, "fractional-list").dur("item", zi, comps)
        if call(U.format_fractional, z) != text:
            o.add("fractional-list-format-not-inverse", text=text, got=U.format_fractional(z))
        return o
    if mode == "chain":
        # acc_k = acc_{k-1} + part_k; every intermediate (compound) value is kept and must not change
        # when it is used again as an operand
        o.nontrivial = True
        parts = spec["parts"]
        objs = [FSD(n, d, t) for n, d, t in parts]
        kept = []  # (object, text, exact value)
        acc = objs[0]
        for k in range(1, len(objs)):
            acc = call(lambda a=acc, b=objs[k]: a + b)
            if not isinstance(acc, FSD):
                o.add("duration-add-not-a-duration", got=repr(acc)[:100])
                return o
            kept.append((acc, call(str, acc), _exact(acc), call(float, acc), G.dur_fold(parts[: k + 1])[2]))
        # reuse earlier intermediates as left and right operands
        for r in spec["reuse"]:
            left = kept[r % len(kept)][0]
            call(lambda: left + objs[-1])
            call(lambda: objs[0] + left)
        for k, (obj, text, exact, f, bounded) in enumerate(kept):
            if call(str, obj) != text or _exact(obj) != exact or call(float, obj) != f:
                o.add("duration-add-modified-operand", step=k, before=text, after=str(obj))
                break
            back = call(FSD.from_string, text)
            # beyond the class's integer bound the folded value is an approximation (documented)
            if call(str, back) != text or (not bounded and abs(call(float, back) - f) > 1e-12):
                o.add("duration-str-not-fixpoint", first=text, second=str(back))
                break
        for obj, c in zip(objs, parts):
            if (obj.numerator, obj.denominator, obj.tuple_div, obj.add_components) != (c[0], c[1], c[2], None):
                o.add("duration-add-modified-operand", comp=c)
        return o
    if mode == "add":
        comps = [spec["a"], spec["b"]]
    elif mode == "add-int":
        comps = [spec["a"], [spec["k"], 1, None]]
        if not spec["right"]:
            comps = comps[::-1]
    else:
        comps = spec["parts"]
    o.nontrivial = True
    objs = [FSD(n, d, t) for n, d, t in comps]
    if mode == "add":
        r = call(lambda: objs[0] + objs[1])
    elif mode == "add-int":
        r = call((lambda: objs[0] + spec["k"]) if spec["right"] else (lambda: spec["k"] + objs[1]))
    else:
        r = call(sum, objs)
    if not isinstance(r, FSD):
        o.add("duration-add-not-a-duration", got=repr(r)[:100])
        return o
    # sum() starts from 0 + first: fold exactly like the class does
    fold = ([[0, 1, None]] + comps) if mode == "sum" else comps
    num, den, bounded = G.dur_fold(fold)
    exact = G.dur_value(comps)
    if bounded:
        o.cls("duration-sum-bounded")
        o.excluded.append("value of a duration sum beyond the bound 1024")
        f = call(float, r)
        if not (math.isfinite(f) and f >= 0):
            o.add("duration-bounded-sum-not-finite", got=f)
    else:
        o.cls("duration-sum-exact")
        if _exact(r) != exact:
            o.add("duration-addition-inexact", comps=comps, got=str(_exact(r)), expected=str(exact))
        elif abs(call(float, r) - float(exact)) > 1e-12:
            o.add("duration-float-wrong", got=float(r), expected=float(exact))
    # int + a is evaluated as a.__radd__(int): the components are listed as (a, int)
    order = comps[::-1] if (mode == "add-int" and not spec["right"]) else comps
    want = "+".join(G.comp_text(c) for c in order if c[0] != 0)
    nz = [c for c in comps if c[0] != 0]
    if not nz:
        o.excluded.append("text of a sum of zero durations")
    elif call(str, r) != want:
        o.add("duration-sum-components-wrong", got=str(r), expected=want)
    # operands untouched
    for obj, c in zip(objs, comps):
        if (obj.numerator, obj.denominator, obj.tuple_div, obj.add_components) != (c[0], c[1], c[2], None):
            o.add("duration-add-modified-operand", comp=c)
    return o


# ----------------------------------------------------------------------------- keys and time signatures (exhaustive)
KEY_STYLES = ["v1", "v03", "v03list", "v01"]
FORMATTERS = {
    "v1": U.format_key_signature_v1_0_0,
    "v03": U.format_key_signature_v0_3_0,
    "v03list": U.format_key_signature_v0_3_0_list,
    "v01": U.format_key_signature_v0_1_0,
}


def enum_keys(tier):
    out = []
    for f in range(-7, 8):
        for minor in (False, True):
            for style in KEY_STYLES:
                out.append({"style": style, "key": {"fifths": f, "minor": minor, "alt": None, "others": []}})
                if style != "v01":
                    # alternative key: relative, parallel-ish and a far one
                    for (af, am) in ((f, not minor), ((f + 10) % 15 - 7, minor), (-f, True)):
                        out.append({"style": style, "key": {"fifths": f, "minor": minor, "alt": {"fifths": af, "minor": am}, "others": []}})
    # accepted input spellings of the 30 keys
    for f in range(-7, 8):
        for minor in (False, True):
            k = {"fifths": f, "minor": minor, "alt": None, "others": []}
            for words in (("major", "minor"), ("maj", "min"), ("Maj", "Min"), ("MAJOR", "MINOR")):
                out.append({"text": G.key_text_v03(k, words), "key": k, "canon": "v03"})
                step, acc = G.ref_key_parts(f, minor)
                out.append({"text": "[%s%s,%s]" % (step.lower(), G._acc(acc) or "n", words[1] if minor else words[0]), "key": k, "canon": "v01"})
                out.append({"text": "[%s%s,%s]" % (step.upper(), G._acc(acc), words[1] if minor else words[0]), "key": k, "canon": "v01"})
    for num in (1, 2, 3, 4, 5, 6, 7, 9, 12, 15, 24):
        for den in (1, 2, 4, 8, 16, 32):
            out.append({"ts": {"num": num, "den": den, "others": [], "others_none": False}})
            if den != 1:  # further components n/1 are written as "n": not part of the tested domain
                out.append({"ts": {"num": num, "den": den, "others": [[3, 4], [num, den], [2, 2]], "others_none": False}})
    return out


def oracle_keys(spec):
    o = Outcome(nontrivial=True)
    if "ts" in spec:
        ts = spec["ts"]
        o.cls("time-signature")
        for as_list in (False, True):
            if ts["others"] and not as_list:
                continue
            obj = call(build_timesig, ts)
            fmt = U.format_time_signature_list if as_list else U.format_time_signature
            s = call(fmt, obj)
            want = G.timesig_text(ts, as_list)
            if s != want:
                o.add("timesig-text-wrong", got=s, expected=want)
            back = call(U.interpret_as_time_signature, s)
            Cmp(o, "timesig-roundtrip").timesig("value", back, ts)
            if call(fmt, back) != s:
                o.add("timesig-not-fixpoint", first=s)
            if not (back == call(build_timesig, ts)):
                o.add("timesig-eq-fails-after-roundtrip", text=s)
        return o
    k = spec["key"]
    if "text" in spec:
        o.cls("key-input-spelling")
        back = call(U.interpret_as_key_signature, spec["text"])
        Cmp(o, "key-spelling").key("value", back, k)
        s = call(FORMATTERS[spec["canon"]], back)
        if s != G.key_text(k, spec["canon"]):
            o.add("key-spelling-not-canonicalised", given=spec["text"], got=s, expected=G.key_text(k, spec["canon"]))
        return o
    style = spec["style"]
    o.cls("key-style:" + style)
    o.cls("key-with-alternative", k["alt"] is not None)
    obj = call(build_key, k)
    s = call(FORMATTERS[style], obj)
    want = G.key_text(k, style)
    if s != want:
        o.add("key-text-wrong", style=style, got=s, expected=want)
        return o
    try:
        back = call(U.interpret_as_key_signature, s)
    except SutRaised as e:
        o.add("key-parse-raised", style=style, text=s, exc=e.text)
        return o
    Cmp(o, "key-roundtrip").key("value", back, k)
    try:
        s2 = call(FORMATTERS[style], back)
    except SutRaised as e:
        o.add("key-rewrite-raised", style=style, text=s, exc=e.text)
        return o
    if s2 != s:
        o.add("key-not-fixpoint", style=style, first=s, second=s2)
    return o


def known_keys_v1(spec, d):
    return spec.get("style") == "v1" and not G.v1_key_name_is_plain(spec["key"]) and d.kind in (
        "key-roundtrip:value", "key-not-fixpoint", "key-rewrite-raised", "key-parse-raised")


# ----------------------------------------------------------------------------- versions and names
FIELD_NAMES = sorted(set(
    ["Anchor", "NoteName", "Modifier", "Octave", "Measure", "Beat", "Offset", "Duration", "OnsetInBeats", "OffsetInBeats",
     "ScoreAttributesList", "Id", "MidiPitch", "Onset", "Velocity", "Channel", "Track", "AdjOffset", "Attribute", "Value",
     "TimeInBeats", "StartInBeatsUnfolded", "EndInBeatsUnfolded", "StartInBeatsOriginal", "EndInBeatsOriginal", "RepeatEndType",
     "AnnotationType", "Onsets", "OrnamentType", "Time"]))


def ref_snake(name):
    out = ""
    for i, ch in enumerate(name):
        if ch.isupper():
            out += ("_" if i else "") + ch.lower()
        else:
            out += ch
    return out


def enum_misc(tier):
    out = []
    for ma in (0, 1, 2, 10):
        for mi in (0, 1, 3, 5, 12):
            for pa in (0, 1, 7, 30):
                out.append({"version": [ma, mi, pa]})
    for mi in (1, 2, 3, 4, 5, 11):
        for pa in (0, 2, 10):
            out.append({"old_version": [mi, pa]})
    for bad in ("", "abc", "1", "v1.0.0", "1,0,0", ".5.0"):
        out.append({"bad_version": bad})
    for name in FIELD_NAMES:
        out.append({"field": name})
    for v in G.ALL_VERSIONS:
        out.append({"first_line_version": list(v)})
    for line in ("info(scoreFileName,'op10_3_1.scr').", "info(piece,'x').", "snote(n1,[c,n],6,0:3,0/1,1/8,-4.00000,-3.00000,[1])-deletion.",
                 "info(midiFilename,'a.mid').", "info(keySignature,[en,major]).", "info(timeSignature,2/4).", "info(beatSubdivision,[2,4]).",
                 "info(tempoIndication,[lento]).", "info(midiClockUnits,4000).", ""):
        out.append({"first_line": line})
    return out


def oracle_misc(spec):
    o = Outcome(nontrivial=True)
    if "version" in spec:
        ma, mi, pa = spec["version"]
        o.cls("version-three-numbers")
        text = "%d.%d.%d" % (ma, mi, pa)
        got = call(U.interpret_version, text)
        if not isinstance(got, Version) or tuple(got) != (ma, mi, pa):
            o.add("interpret-version-wrong", text=text, got=repr(got))
        if call(U.format_version, Version(ma, mi, pa)) != text:
            o.add("format-version-wrong", text=text)
    elif "old_version" in spec:
        mi, pa = spec["old_version"]
        o.cls("version-two-numbers")
        got = call(U.interpret_version, "%d.%d" % (mi, pa))
        if tuple(got) != (0, mi, pa):
            o.add("interpret-old-version-wrong", text="%d.%d" % (mi, pa), got=repr(got))
    elif "bad_version" in spec:
        o.cls("version-malformed")
        try:
            got = U.interpret_version(spec["bad_version"])
            o.add("malformed-version-accepted", text=spec["bad_version"], got=repr(got))
        except ValueError:
            pass
    elif "field" in spec:
        name = spec["field"]
        o.cls("field-name")
        snake = call(U.to_snake_case, name)
        if snake != ref_snake(name):
            o.add("snake-case-wrong", name=name, got=snake, expected=ref_snake(name))
        camel = call(U.to_camel_case, snake)
        want = name[0].lower() + name[1:]
        if camel != want:
            o.add("camel-case-not-inverse", name=name, snake=snake, got=camel, expected=want)
        if call(U.to_snake_case, camel) != snake:
            o.add("snake-of-camel-not-stable", name=name)
    elif "first_line_version" in spec:
        v = tuple(spec["first_line_version"])
        o.cls("get-version-of-version-line")
        line = G.line_text({"v": list(v), "kind": "info", "attr": "matchFileVersion", "value": list(v)})
        got = quiet(IM.get_version, line)
        if tuple(got) != v:
            o.add("get-version-wrong", line=line, got=repr(got))
        if v != G.V100:
            got = quiet(IM.get_version, "info(matchFileVersion,%d.%d)." % (v[1], v[2]))
            if tuple(got) != v:
                o.add("get-version-wrong", line="two-number form", got=repr(got))
    else:
        o.cls("get-version-without-version-line")
        try:
            got = quiet(IM.get_version, spec["first_line"])
        except SutRaised as e:
            o.add("get-version-raised-on-line-without-version", line=spec["first_line"], exc=e.text)
            return o
        if tuple(got) != (0, 1, 0):
            o.add("get-version-default-wrong", line=spec["first_line"], got=repr(got))
    return o


def known_get_version(spec, d):
    return d.kind == "get-version-raised-on-line-without-version" and spec.get("first_line", "").startswith("info(")


# ----------------------------------------------------------------------------- sub-checks
LINE_KNOWN = {
    "v1-key-name-read-by-old-pattern": known_v1_key_names,
    "soft-pedal-to-v1-raises": known_soft_to_v1,
    "empty-list-parsed-as-empty-string": known_empty_list,
    "v1-tempo-indication-parsed-as-list": known_tempo_indication,
}
LINE_RULE = (
    "line classes x format versions with generated field values; built by the constructors / make_* helpers, written, parsed "
    "through importmatch.parse_matchline with the version's method list, fields compared with the generated values, rewritten "
    "(fixpoint), first text compared with an independent renderer; pre-1.0 lines also upgraded by to_v1 and re-checked as 1.0.0 "
    "lines. non-trivial = at least one optional element (non-empty attribute list, accidental, rest, tuplet divisor, additive "
    "duration, key/time signature, list or float value)"
)


def _cells(kinds):
    return ["%s@%d.%d.%d" % ((k,) + tuple(v)) for v in G.ALL_VERSIONS for k in sorted(set(kinds)) if k in G.kinds_of(v)]


def _line_sub(name, kinds, quick, thorough, floors):
    fl = dict((c, 0.004) for c in _cells(kinds))
    fl.update(floors)
    return SubCheck(
        name,
        oracle_line,
        strategy=lambda tier: G.line_spec(tier, kinds=kinds),
        budget={"quick": quick, "thorough": thorough},
        rule=name + ": " + LINE_RULE,
        known=LINE_KNOWN,
        floors=fl,
    )


SUBCHECKS = [
    _line_sub("lines_score_notes", G.SCORE_NOTE_KINDS, 900, 40000,
              {"rest": 0.04, "tuplet-divisor": 0.05, "duration-additive": 0.05, "float-off-grid": 0.03, "to_v1": 0.3,
               "attribute-list-empty": 0.03, "attribute-list-3+": 0.05,
               "triple-alteration": 0.03, "attribute-list-6+": 0.04, "identifier-with-two-dash-groups": 0.03, "to_v1-of-parsed-line": 0.3}),
    _line_sub("lines_performed_notes", G.PERFORMED_NOTE_KINDS, 700, 30000,
              {"to_v1": 0.3, "triple-alteration": 0.03, "adj-offset-keyword-absent": 0.02, "to_v1-of-parsed-line": 0.3}),
    _line_sub("lines_global", G.GLOBAL_KINDS, 900, 40000, {"to_v1": 0.2, "float-off-grid": 0.02, "to_v1-of-parsed-line": 0.2}),
    SubCheck(
        "text_variants",
        oracle_variant,
        strategy=strat_variants,
        budget={"quick": 350, "thorough": 20000},
        rule="lines written directly from the grammar in accepted non-canonical spellings (accidental synonyms s/ss/f/ff/##/ns/nf, letter case of note names, blanks in lists and after commas, long mode words, two-number version, extra decimals); parse -> fields -> canonical text -> second round identical. non-trivial = the text differs from the canonical one",
        known={
            "v1-key-name-read-by-old-pattern": known_variant_v1_key,
            "empty-list-parsed-as-empty-string": known_variant_empty_list,
            "v1-tempo-indication-parsed-as-list": known_variant_tempo,
            "triple-alteration-unwritable": known_triple_alteration,
        },
        floors={"variant:accidental-synonym": 0.05, "variant:note-name-case": 0.1, "variant:triple-alteration": 0.01,
                "variant:integer-duration-as-n/1": 0.01, "variant:extra-decimals": 0.02},
    ),
    SubCheck(
        "durations",
        oracle_durations,
        strategy=strat_durations,
        budget={"quick": 250, "thorough": 20000},
        rule="FractionalSymbolicDuration: str/from_string round trip (plain, tuplet divisor, additive), lists, a+b, a+int, int+a, sum(); exact against Fraction arithmetic while the unreduced numerator and denominator stay <= 1024. non-trivial = additive / tuplet / addition",
        floors={"duration-sum-exact": 0.15, "duration-sum-bounded": 0.01},
    ),
    SubCheck(
        "keys_timesigs",
        oracle_keys,
        enumerate=enum_keys,
        shards=4,
        rule="30 keys x {1.0.0 name, 0.3.0 'X Maj', 0.3.0 list, 0.1.0 [xn,major]} x {no, relative, distant, mirrored alternative key}; accepted long/short/upper-case mode words; time signatures with and without further components",
        known={"v1-key-name-read-by-old-pattern": known_keys_v1},
    ),
    SubCheck(
        "version_and_names",
        oracle_misc,
        enumerate=enum_misc,
        shards=1,
        rule="interpret_version/format_version on three- and two-number versions and malformed strings; get_version on version lines of every version and on first lines without version; snake/camel case on all field names",
        known={"get-version-raises-on-v0-only-attribute": known_get_version},
    ),
]
