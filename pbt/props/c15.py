"""C15 - merging parts keeps every note at the same musical time in disjoint voices.

Two to four generated parts that share one bar / time-signature structure in musical time but
have their own divisions value (equal, different, lcm larger than all of them), their own notes,
rests, grace notes, ties, tuplets, slurs, directions, clefs and key signatures are put into a
list / tuple / PartGroup (nested) / Score and merged with each of the three reassign modes.
Everything expected is computed from the abstract spec with integers and Fractions:

* every input note / rest (identified by its id, ids are unique over the parts) is present exactly
  once, start and end multiplied by lcm/divisions, same class, pitch, tie partners, symbolic duration;
* voices (staves in staff mode, both in auto mode): inside one input the partition is kept,
  sounding notes of different inputs never share one;
* measures, time and key signatures (and clefs in voice mode) equal those of the first part rescaled;
  tuplets, slurs and directions of every part are present at the rescaled times;
* every time point of the merged part carries the lcm as its quarter duration;
* the merged part's note array and the score-level note array of an identical fresh build both
  equal the reference multiset of sounding notes (tie chains merged) in quarters.

A second sub-check demands that a container holding one part gives back that very object, untouched.
"""

from collections import Counter
from fractions import Fraction

from hypothesis import strategies as st  # noqa: F401

import partitura.score as S
from partitura.utils.music import note_array_from_part_list
from pbt.core import Outcome, SubCheck, SutRaised, call
from pbt.gen import scorespec as G
from pbt.gen import c15_merge as M

PROPERTY = "C15"
ENGINES = ["hypothesis"]
ASSUMPTIONS = [
    "all parts of one case share the bar and time-signature structure in musical time (merge_parts documents this expectation); every part has a single divisions value",
    "note ids are unique over the parts of a case (they identify the notes in the result)",
    "disjointness of voices / staves between inputs is demanded for sounding notes (notes and grace notes); a rest in a voice or staff that holds no sounding note of its part is counted (class) but its collision with another input is not judged",
    "auto mode: only what is documented is demanded (unique voice and staff numbers per input, partition kept); the concrete numbers are not judged",
    "staff numbers in voice mode, voice numbers in staff mode, clefs of later parts in staff/auto mode (kept with renumbered staff, or dropped), Tempo/Fermata/repeat elements of later parts: not judged",
    "float32 quarter columns are compared with tolerance 1e-5*(1+|x|); the origin of the quarter axis is the end of the pickup measure if there is one (C02)",
    "score-level note array: its onset_div/duration_div columns are judged in their own unit (divs_pq column), which must be one value for the whole array",
]

KIND_CLASS = {"note": "Note", "grace": "GraceNote", "rest": "Rest"}


def eff(staff):
    return 1 if staff is None else int(staff)


def sounding(ps):
    return [n for n in ps["notes"] if n["kind"] in ("note", "grace")]


def heads(ps):
    """Notes that appear in a note array: sounding notes that do not continue a tie."""
    return [n for n in sounding(ps) if not n.get("tie_prev")]


# --------------------------------------------------------------------------
# triggering conditions of known findings (computed from the spec only)
# --------------------------------------------------------------------------
def auto_lookup_missing(spec):
    """auto mode builds its voice / staff tables from the note array (sounding tie heads, missing
    staff written as 0) but looks up every note, rest, clef and direction in them."""
    for k, ps in enumerate(spec["parts"]):
        voices = set(n["voice"] for n in heads(ps))
        staves = set((n["staff"] or 0) for n in heads(ps))
        for n in ps["notes"]:
            if n["voice"] not in voices or n["staff"] is None or n["staff"] not in staves:
                return True
        for c in ps["clefs"]:
            if c[1] not in staves:
                return True
        for d in ps.get("c15_dirs", []):
            if d[4] is None or d[4] not in staves:
                return True
    return False


def staff_count_short(spec):
    """staff mode counts the staves of a part as the largest staff number in its note array, where a
    missing staff is written as 0: a part (not the last) whose listed notes all lack a staff counts 0."""
    for ps in spec["parts"][:-1]:
        hs = heads(ps)
        if hs and max((n["staff"] or 0) for n in hs) < max(eff(n["staff"]) for n in sounding(ps)):
            return True
    return False


def used_numbers(spec):
    """Per part: the voice numbers used by notes and rests, the staff numbers used by notes, rests, clefs and
    directions (a missing staff is staff 1) - what the documentation of the modes calls the part's voices / staves."""
    uv, us = [], []
    for ps in spec["parts"]:
        uv.append(sorted(set(n["voice"] for n in ps["notes"])))
        us.append(sorted(set([eff(n["staff"]) for n in ps["notes"]] + [c[1] for c in ps["clefs"]] + [eff(d[4]) for d in ps.get("c15_dirs", [])])))
    return uv, us


def zero_based_clash(spec):
    """voice mode shifts the voices of a part by the sum of the largest voice numbers of the parts before it;
    that keeps inputs apart only when voice numbers start at 1."""
    uv, _ = used_numbers(spec)
    new, off = [], 0
    for k, v in enumerate(uv):
        new.append(set(x + off for x in v))
        off += max(v) if v else 1
    return any(new[i] & new[j] for i in range(len(new)) for j in range(i + 1, len(new)))


def auto_ranges_overlap(spec):
    """auto mode numbers the voices of a part from 4 * (staves of the parts before it) + 1 upwards; a part with
    more voices than four per staff reaches into the range of the next one."""
    uv, us = used_numbers(spec)
    lo, before = [], 0
    for k in range(len(uv)):
        lo.append(4 * before)
        before += len(us[k])
    sound = [set(n["voice"] for n in sounding(ps)) for ps in spec["parts"]]
    new = []
    for k in range(len(uv)):
        new.append(set(lo[k] + 1 + uv[k].index(v) for v in sound[k]))
    return any(new[i] & new[j] for i in range(len(new)) for j in range(i + 1, len(new)))


def has_silent_part(spec):
    return any(not heads(ps) for ps in spec["parts"])


def tacet_group(spec):
    """Some PartGroup of the container holds only parts without any sounding note."""
    silent = [not heads(ps) for ps in spec["parts"]]

    def leaves(node):
        if isinstance(node, int):
            return [node]
        return [i for c in node["children"] for i in leaves(c)]

    def rec(node):
        if isinstance(node, int):
            return False
        return all(silent[i] for i in leaves(node)) or any(rec(c) for c in node["children"])

    return any(rec(nd) for nd in (spec.get("groups") or []))


# --------------------------------------------------------------------------
# helpers
# --------------------------------------------------------------------------
def sym_norm(sym):
    if not sym:
        return None
    return tuple(sorted((k, v) for k, v in dict(sym).items() if v not in (None, 0) or k == "type"))


def quarter_shift(spec):
    base = spec["parts"][0]
    if base.get("pickup") is None:
        return Fraction(0)
    return Fraction(base["pickup"], base["divs"][0][1])


def reference_sounding(spec, L):
    """Counter of (onset, duration, pitch) in units of 1/L quarters (integers), origin at timeline 0."""
    out = Counter()
    for ps in spec["parts"]:
        d = ps["divs"][0][1]
        mult = L // d
        for (t, dur, pitch, _hid, _ids) in G.PartRef(ps).sounding_notes():
            out[(t * mult, dur * mult, pitch)] += 1
    return out


def check_note_array(o, kind, na, L, shift, expected, unit_column):
    """Compare quarter columns (and div columns) of a note array with the reference multiset."""
    got_q, got_d = Counter(), Counter()
    units = set()
    for row in na:
        oq, dq, pitch = float(row["onset_quarter"]), float(row["duration_quarter"]), int(row["pitch"])
        ko, kd = round((oq + float(shift)) * L), round(dq * L)
        if abs(oq + float(shift) - ko / L) > 1e-5 * (1 + abs(oq)) or abs(dq - kd / L) > 1e-5 * (1 + abs(dq)):
            o.add(kind + "-quarter-off-grid", onset_quarter=oq, duration_quarter=dq, lcm=L)
            return
        got_q[(ko, kd, pitch)] += 1
        u = int(row[unit_column]) if unit_column else L
        units.add(u)
        if u > 0:
            got_d[(Fraction(int(row["onset_div"]), u) * L, Fraction(int(row["duration_div"]), u) * L, pitch)] += 1
    if got_q != expected:
        o.add(kind + "-quarters-differ", missing=sorted((expected - got_q).elements())[:4], extra=sorted((got_q - expected).elements())[:4], lcm=L)
    if len(units) > 1:
        o.add(kind + "-mixed-div-units", units=sorted(units))
    elif got_d != expected:
        miss = sorted((expected - got_d).elements())[:4]
        extra = sorted((got_d - expected).elements())[:4]
        o.add(kind + "-divs-differ", missing=miss, extra=[(str(a), str(b), c) for a, b, c in extra], units=sorted(units), lcm=L)


def partition_checks(o, what, per_part, label):
    """per_part: list (one per input) of [(id, old, new, is_sounding)]."""
    used = []
    for k, rows in enumerate(per_part):
        fwd, back = {}, {}
        for (nid, old, new, snd) in rows:
            if fwd.setdefault(old, new) != new:
                o.add(what + "-split-within-input", part=k, note=nid, old=old, new=new, other=fwd[old], mode=label)
                break
            if back.setdefault(new, old) != old:
                o.add(what + "-joined-within-input", part=k, note=nid, old=old, new=new, other=back[new], mode=label)
                break
        used.append(set(new for (_, _, new, snd) in rows if snd))
    clash = False
    for i in range(len(used)):
        for j in range(i + 1, len(used)):
            both = used[i] & used[j]
            if both and not clash:
                clash = True
                o.add(what + "-shared-across-inputs", parts=[i, j], numbers=sorted(both), mode=label)
    # rests outside the sounding voices/staves of their part that land on another input's number
    for k, rows in enumerate(per_part):
        others = set().union(*[u for j, u in enumerate(used) if j != k]) if len(used) > 1 else set()
        if any((not snd) and new in others and new not in used[k] for (_, _, new, snd) in rows):
            o.excluded.append("rest-only-%s-lands-on-other-input" % what)
            break


# --------------------------------------------------------------------------
# main oracle
# --------------------------------------------------------------------------
def oracle_merge(spec):
    o = Outcome()
    specs = spec["parts"]
    mode = spec["reassign"]
    n = len(specs)
    divs = [ps["divs"][0][1] for ps in specs]
    L = M.lcm(divs)
    mult = [L // d for d in divs]
    shift = quarter_shift(spec)

    o.nontrivial = len(set(divs)) > 1
    o.cls("parts-%d" % n)
    o.cls("mode-" + mode)
    o.cls("container-" + spec["container"])
    o.cls("divisions-equal", len(set(divs)) == 1)
    o.cls("divisions-different", len(set(divs)) > 1)
    o.cls("lcm-exceeds-all", L > max(divs))
    o.cls("repeated-part-id", len(set(ps["id"] for ps in specs)) < len(specs))
    o.cls("repeated-part-id-with-different-divisions",
          any(a["id"] == b["id"] and a["divs"][0][1] != b["divs"][0][1] for i, a in enumerate(specs) for b in specs[i + 1:]))
    o.cls("pickup", specs[0].get("pickup") is not None)
    o.cls("some-staff-missing", any(x["staff"] is None for ps in specs for x in ps["notes"]))
    o.cls("part-all-staff-missing", any(all(x["staff"] is None for x in ps["notes"]) for ps in specs))
    o.cls("two-staves", any(any(eff(x["staff"]) == 2 for x in ps["notes"]) for ps in specs))
    o.cls("three-voices", any(any(x["voice"] == 3 for x in ps["notes"]) for ps in specs))
    o.cls("rests", any(x["kind"] == "rest" for ps in specs for x in ps["notes"]))
    o.cls("ties", any(x.get("tie_next") for ps in specs for x in ps["notes"]))
    o.cls("grace", any(x["kind"] == "grace" for ps in specs for x in ps["notes"]))
    o.cls("tuplets", any(ps.get("tuplets") for ps in specs))
    o.cls("slurs", any(ps.get("slurs") for ps in specs))
    o.cls("directions", any(ps.get("c15_dirs") for ps in specs))
    o.cls("later-part-has-keysig", any(ps["keysigs"] for ps in specs[1:]))
    o.cls("later-part-has-clef", any(ps["clefs"] for ps in specs[1:]))
    o.cls("silent-part", has_silent_part(spec))
    o.cls("tacet-group", tacet_group(spec))
    o.cls("auto-tables-complete", not auto_lookup_missing(spec))
    o.cls("auto-judged", mode == "auto" and not auto_lookup_missing(spec))
    # shapes added by the generator audit (docs/audit/C15.md)
    o.cls("reassign-arg-" + spec.get("reassign_arg", "keyword"))
    o.cls("voice-zero", any(x["voice"] == 0 for ps in specs for x in ps["notes"]))
    o.cls("voice-zero-in-two-parts", sum(1 for ps in specs if any(x["voice"] == 0 for x in ps["notes"])) >= 2)
    o.cls("zero-based-voices-clash-in-voice-mode", mode == "voice" and zero_based_clash(spec))
    o.cls("four-or-more-voices-in-a-part", any(len(set(x["voice"] for x in ps["notes"])) >= 4 for ps in specs))
    o.cls("more-than-four-voices-per-staff", any(len(uv) > 4 * len(us) for uv, us in zip(*used_numbers(spec))))
    o.cls("auto-voice-ranges-overlap", mode == "auto" and auto_ranges_overlap(spec))
    o.cls("staff-three", any(eff(x["staff"]) == 3 for ps in specs for x in ps["notes"]))
    o.cls("staff-gap-or-not-from-one", any(ps["notes"] and sorted(set(eff(x["staff"]) for x in ps["notes"])) != list(range(1, len(set(eff(x["staff"]) for x in ps["notes"])) + 1)) for ps in specs))
    o.cls("empty-part", any(not ps["notes"] for ps in specs))
    o.cls("empty-first-part", not specs[0]["notes"])
    o.cls("later-part-measure-numbers-differ", any([m[2] for m in ps["measures"]] != [m[2] for m in specs[0]["measures"]] for ps in specs[1:]))
    o.cls("divisions-restated", any(ps.get("c15_restate_divs") is not None for ps in specs))
    o.cls("pedal-direction", any(d[2] == "pedal" for ps in specs for d in ps.get("c15_dirs", [])))
    for kind in sorted(M.EXTRA_NAME):
        o.cls("extra-" + kind, any(x[0] == kind for ps in specs for x in ps.get("c15_extra", [])))
    o.cls("structural-extra-in-later-part", any(x[0] in M.EXTRA_STRUCTURAL for ps in specs[1:] for x in ps.get("c15_extra", [])))
    o.cls("structural-extra-in-first-part", any(x[0] in M.EXTRA_STRUCTURAL for x in specs[0].get("c15_extra", [])))
    o.cls("non-structural-extra-in-later-part", any(x[0] not in M.EXTRA_STRUCTURAL for ps in specs[1:] for x in ps.get("c15_extra", [])))

    # ---- score-level note array on a fresh, identical build ---------------------------------
    expected = reference_sounding(spec, L)
    container2, parts2 = M.build(spec)
    try:
        if isinstance(container2, (list, tuple)):
            na2 = call(note_array_from_part_list, list(container2), include_divs_per_quarter=True)
        else:
            na2 = call(container2.note_array, include_divs_per_quarter=True)
        check_note_array(o, "score-notearray", na2, L, shift, expected, "divs_pq")
    except SutRaised as e:
        o.add("score-notearray-" + e.kind, text=e.text)

    # ---- flattening of the container (documented for Score, list, Part, PartGroup) -----------------
    try:
        flat = call(lambda: list(S.iter_parts(container2)))
        if [id(p) for p in flat] != [id(p) for p in parts2]:
            o.add("iter_parts-order-or-content-wrong", got=[p.id for p in flat], expected=[p.id for p in parts2], container=spec["container"])
    except SutRaised as e:
        o.add(e.kind, text=e.text, where="iter_parts", container=spec["container"])

    # ---- the merge -----------------------------------------------------------------------------
    container, inputs = M.build(spec)
    args, kwargs = M.call_args(spec)
    try:
        merged = call(S.merge_parts, container, *args, **kwargs)
    except SutRaised as e:
        o.add(e.kind, text=e.text, mode=mode)
        return o
    if not isinstance(merged, S.Part):
        o.add("result-not-a-part", type=type(merged).__name__)
        return o
    if any(merged is p for p in inputs):
        o.add("result-is-an-input-part")
    qd = [[int(a), int(b)] for a, b in call(merged.quarter_durations).tolist()]
    if qd != [[0, L]]:
        o.add("divisions-not-lcm", got=qd, lcm=L, divisions=divs)

    # ---- notes and rests -----------------------------------------------------------------------
    exp_notes = {}
    for k, ps in enumerate(specs):
        for x in ps["notes"]:
            exp_notes[x["id"]] = (k, x)
    seen = Counter()
    new_voice, new_staff = {}, {}
    for g in call(lambda: list(merged.iter_all(S.GenericNote, include_subclasses=True))):
        seen[g.id] += 1
        if g.id not in exp_notes:
            o.add("note-not-from-any-input", id=g.id)
            continue
        k, x = exp_notes[g.id]
        s, e = x["t"] * mult[k], (x["t"] + x["dur"]) * mult[k]
        gs, ge = g.start.t, (g.end.t if g.end is not None else None)
        if gs != s or ge != e:
            o.add("note-time-not-rescaled", id=g.id, part=k, got=[int(gs), None if ge is None else int(ge)], expected=[s, e],
                  quarters=[str(Fraction(x["t"], divs[k])), str(Fraction(x["t"] + x["dur"], divs[k]))], divisions=divs, lcm=L)
        if type(g).__name__ != KIND_CLASS[x["kind"]]:
            o.add("note-class-changed", id=g.id, got=type(g).__name__, expected=KIND_CLASS[x["kind"]])
        if x["kind"] != "rest":
            if (g.step, g.alter or 0, g.octave) != (x["step"], x["alter"] or 0, x["octave"]) or int(g.midi_pitch) != G.midi_pitch(x["step"], x["alter"], x["octave"]):
                o.add("note-pitch-changed", id=g.id, got=[g.step, g.alter, g.octave], expected=[x["step"], x["alter"], x["octave"]])
            tn = g.tie_next.id if getattr(g, "tie_next", None) is not None else None
            tp = g.tie_prev.id if getattr(g, "tie_prev", None) is not None else None
            if tn != x.get("tie_next") or tp != x.get("tie_prev"):
                o.add("note-tie-changed", id=g.id, got=[tp, tn], expected=[x.get("tie_prev"), x.get("tie_next")])
        if x.get("sym") is not None and sym_norm(g.symbolic_duration) != sym_norm(x.get("sym")):
            o.add("note-symbolic-duration-changed", id=g.id, got=repr(g.symbolic_duration), expected=x.get("sym"))
        new_voice[g.id] = None if g.voice is None else int(g.voice)
        new_staff[g.id] = None if g.staff is None else int(g.staff)
    # every time point documents "the duration of a quarter note at this TimePoint": the lcm, for the merged part
    # (notated values are derived from it: symbolic_duration of notes without an explicit one, duration_from_symbolic)
    stale = sorted(set(
        (int(tp.t), -1 if tp.quarter is None else int(tp.quarter))
        for g in merged.iter_all(S.GenericNote, include_subclasses=True)
        for tp in (g.start, g.end) if tp is not None and (tp.quarter is None or int(tp.quarter) != L)
    ))
    if stale:
        o.add("merged-timepoints-quarter-not-lcm", points=stale[:4], count=len(stale), lcm=L)
    missing = [i for i in exp_notes if seen[i] == 0]
    dup = [i for i, c in seen.items() if c > 1]
    if missing:
        o.add("note-lost", ids=missing[:6], count=len(missing))
    if dup:
        o.add("note-duplicated", ids=dup[:6])

    # ---- voices / staves -----------------------------------------------------------------------
    per_v, per_s = [], []
    for k, ps in enumerate(specs):
        rv, rs = [], []
        for x in ps["notes"]:
            if x["id"] not in new_voice:
                continue
            snd = x["kind"] != "rest"
            rv.append((x["id"], x["voice"], new_voice[x["id"]], snd))
            rs.append((x["id"], eff(x["staff"]), eff(new_staff[x["id"]]), snd))
        per_v.append(rv)
        per_s.append(rs)
    if mode in ("voice", "auto"):
        partition_checks(o, "voice", per_v, mode)
    if mode in ("staff", "auto"):
        partition_checks(o, "staff", per_s, mode)

    # ---- structure from the first part only ------------------------------------------------------
    p0, m0 = specs[0], mult[0]
    exp_meas = sorted((m[0] * m0, m[1] * m0, m[2], m[3] or "") for m in p0["measures"])
    got_meas = sorted((m.start.t, m.end.t, m.number, m.name or "") for m in merged.iter_all(S.Measure))
    if got_meas != exp_meas:
        o.add("measures-not-first-part-rescaled", got=got_meas[:6], expected=exp_meas[:6], mode=mode)
    exp_ts = sorted((t * m0, b, bt) for (t, b, bt) in p0["timesigs"])
    got_ts = sorted((x.start.t, x.beats, x.beat_type) for x in merged.iter_all(S.TimeSignature))
    if got_ts != exp_ts:
        o.add("time-signatures-not-first-part-rescaled", got=got_ts[:6], expected=exp_ts[:6], mode=mode)
    exp_ks = sorted((t * m0, f, mo or "") for (t, f, mo) in p0["keysigs"])
    got_ks = sorted((x.start.t, x.fifths, x.mode or "") for x in merged.iter_all(S.KeySignature))
    if got_ks != exp_ks:
        o.add("key-signatures-not-first-part-rescaled", got=got_ks[:6], expected=exp_ks[:6], mode=mode)
    got_clefs = sorted((c.start.t, eff(c.staff), c.sign, c.line, c.octave_change or 0) for c in merged.iter_all(S.Clef))
    if mode == "voice":
        exp_clefs = sorted((t * m0, s, sign, line, oc or 0) for (t, s, sign, line, oc) in p0["clefs"])
        if got_clefs != exp_clefs:
            o.add("clefs-not-first-part-rescaled", got=got_clefs[:6], expected=exp_clefs[:6], mode=mode)
    else:
        # clefs of the first part must be there; every clef must come from some input; a clef of a staff
        # that holds notes of its part must have moved with them
        smap = []
        for rs in per_s:
            d = {}
            for (_, old, new, _snd) in rs:
                d.setdefault(old, new)
            smap.append(d)
        pool = {}
        for k, ps in enumerate(specs):
            for (t, s, sign, line, oc) in ps["clefs"]:
                pool.setdefault((t * mult[k], sign, line, oc or 0), []).append((k, s))
        got_keys = Counter(c[:1] + c[2:] for c in got_clefs)
        first = Counter((t * m0, sign, line, oc or 0) for (t, s, sign, line, oc) in p0["clefs"])
        if first - got_keys:
            o.add("clef-of-first-part-lost", missing=sorted((first - got_keys).elements())[:4], mode=mode)
        for (t, staff, sign, line, oc) in got_clefs:
            c = pool.get((t, sign, line, oc))
            if not c:
                o.add("clef-not-from-any-input", clef=[t, staff, sign, line, oc], mode=mode)
                break
            allowed = set(smap[k].get(s) for (k, s) in c)
            if None not in allowed and staff not in allowed:
                o.add("clef-separated-from-its-staff", clef=[t, staff, sign, line, oc], allowed=sorted(allowed), mode=mode)
                break
        if sum(got_keys.values()) > sum(len(v) for v in pool.values()):
            o.add("clef-duplicated", mode=mode)

    # ---- non-structural elements of every part ------------------------------------------------------
    byid = {x["id"]: (k, x) for k, ps in enumerate(specs) for x in ps["notes"]}

    def span(a, b):
        ka, xa = byid[a]
        kb, xb = byid[b]
        return (xa["t"] * mult[ka], (xb["t"] + xb["dur"]) * mult[kb])

    exp_tup = Counter((a, b, act, nor) + span(a, b) for ps in specs for (a, b, act, nor, ty) in ps.get("tuplets", []))
    got_tup = Counter(
        (x.start_note.id, x.end_note.id, x.actual_notes, x.normal_notes, x.start.t, x.end.t if x.end is not None else None)
        for x in merged.iter_all(S.Tuplet)
    )
    if got_tup != exp_tup:
        o.add("tuplets-differ", missing=sorted((exp_tup - got_tup).elements())[:3], extra=sorted((got_tup - exp_tup).elements(), key=repr)[:3])
    exp_sl = Counter((a, b) + span(a, b) for ps in specs for (a, b) in ps.get("slurs", []))
    got_sl = Counter((x.start_note.id, x.end_note.id, x.start.t, x.end.t if x.end is not None else None) for x in merged.iter_all(S.Slur))
    if got_sl != exp_sl:
        o.add("slurs-differ", missing=sorted((exp_sl - got_sl).elements())[:3], extra=sorted((got_sl - exp_sl).elements(), key=repr)[:3])
    exp_dir = Counter(
        (M.DIR_NAME[kind], text, t * mult[k], -1 if end is None else end * mult[k])
        for k, ps in enumerate(specs) for (t, end, kind, text, staff) in ps.get("c15_dirs", [])
    )
    got_dir = Counter()
    for cls in (S.Direction, S.Words):
        for x in merged.iter_all(cls, include_subclasses=True):
            got_dir[(type(x).__name__, x.text, x.start.t, -1 if x.end is None else x.end.t)] += 1
    if got_dir != exp_dir:
        o.add("directions-differ", missing=sorted((exp_dir - got_dir).elements())[:3], extra=sorted((got_dir - exp_dir).elements())[:3])

    # ---- further elements: Barline / Page / System from the first part only, the others from every part ----
    exp_x = Counter()
    for k, ps in enumerate(specs):
        for (kind, t, end, a, b) in ps.get("c15_extra", []):
            if kind in M.EXTRA_STRUCTURAL and k > 0:
                continue
            content = {"barline": a, "page": a, "system": a, "chordsymbol": (a, b), "cadence": a, "octaveshift": (a, b),
                       "beam": tuple(a) if kind == "beam" else None}[kind]
            exp_x[(M.EXTRA_NAME[kind], content, t * mult[k], -1 if end is None else end * mult[k])] += 1
    got_x = Counter()
    for cls in (S.Barline, S.Page, S.System, S.ChordSymbol, S.Cadence, S.OctaveShiftDirection, S.Beam):
        for x in merged.iter_all(cls):
            got_x[M.extra_key(x)] += 1
    for name in sorted(set(k[0] for k in list(exp_x) + list(got_x))):
        e_ = Counter({k: v for k, v in exp_x.items() if k[0] == name})
        g_ = Counter({k: v for k, v in got_x.items() if k[0] == name})
        if e_ != g_:
            what = "first-part-rescaled" if name in ("Barline", "Page", "System") else "every-part-rescaled"
            o.add("%s-elements-not-%s" % (name.lower(), what), missing=sorted((e_ - g_).elements(), key=repr)[:3],
                  extra=sorted((g_ - e_).elements(), key=repr)[:3], mode=mode)

    # ---- note array of the merged part ------------------------------------------------------------
    na = call(merged.note_array, include_staff=True)
    check_note_array(o, "merged-notearray", na, L, shift, expected, None)
    # rows by id: voice / staff columns agree with the objects
    hd = {x["id"] for ps in specs for x in heads(ps)}
    ids = Counter(str(r["id"]) for r in na)
    if set(ids) != hd or any(c > 1 for c in ids.values()):
        o.add("merged-notearray-ids-differ", missing=sorted(hd - set(ids))[:4], extra=sorted(set(ids) - hd)[:4])
    return o


# --------------------------------------------------------------------------
# single part: returned as is
# --------------------------------------------------------------------------
def _snapshot(part):
    rows = []
    for g in part.iter_all(S.GenericNote, include_subclasses=True):
        rows.append((g.id, g.start.t, g.end.t if g.end is not None else None, g.voice, g.staff))
    for cls in (S.Clef, S.Direction, S.Words):
        for x in part.iter_all(cls, include_subclasses=True):
            rows.append((type(x).__name__, x.start.t, x.staff))
    return sorted(rows, key=repr), [list(map(int, r)) for r in part.quarter_durations().tolist()]


def oracle_single(spec):
    o = Outcome()
    container, parts = M.build(spec)
    part = parts[0]
    o.cls("container-" + spec["container"])
    o.cls("mode-" + spec["reassign"])
    o.nontrivial = spec["container"] != "part"
    before = _snapshot(part)
    res = call(S.merge_parts, container, reassign=spec["reassign"])
    if res is not part:
        o.add("single-part-not-returned-as-is", container=spec["container"], got=type(res).__name__, mode=spec["reassign"])
    if _snapshot(part) != before:
        o.add("single-part-modified", container=spec["container"], mode=spec["reassign"])
    # flattening of the container (iter_parts) gives exactly this part
    try:
        flat = call(lambda: list(S.iter_parts(container)))
        if len(flat) != 1 or flat[0] is not part:
            o.add("iter_parts-wrong-for-single-container", container=spec["container"], n=len(flat))
    except SutRaised as e:
        o.add(e.kind, text=e.text, where="iter_parts", container=spec["container"])
    return o


# --------------------------------------------------------------------------
# the convenience loader: load_score_as_part(file) == merge of the loaded score
# --------------------------------------------------------------------------
def _rows(na):
    return Counter((round(float(r["onset_quarter"]) * 10080), round(float(r["duration_quarter"]) * 10080), int(r["pitch"])) for r in na)


def oracle_load_as_part(spec):
    """A generated score is written to a MusicXML file; load_score_as_part(file) must give one Part whose sounding
    notes equal those of the score-level note array of load_score(file) (the same file, so that nothing depends on
    what the MusicXML round trip keeps) and, for a one-part file, the loaded part itself."""
    import os
    import tempfile

    import partitura
    from partitura.io import load_score_as_part

    o = Outcome()
    n = len(spec["parts"])
    o.cls("parts-%d" % n)
    o.cls("alias-lp", spec["alias"])
    divs = [ps["divs"][0][1] for ps in spec["parts"]]
    o.cls("divisions-different", len(set(divs)) > 1)
    o.nontrivial = n > 1
    score, _parts = M.build(dict(spec, container="score"))
    with tempfile.TemporaryDirectory(prefix="c15_") as tmp:
        fn = os.path.join(tmp, "score.musicxml")
        try:
            call(partitura.save_musicxml, score, fn)
            loaded = call(partitura.load_score, fn)
            ref = call(loaded.note_array)
        except SutRaised:
            # the MusicXML writer / reader themselves belong to C03 / C04
            o.excluded.append("musicxml-round-trip-raised")
            return o
        if len(loaded.parts) != n:
            o.excluded.append("musicxml-round-trip-changed-the-number-of-parts")
            return o
        fnc = partitura.io.lp if spec["alias"] else load_score_as_part
        part = call(fnc, fn)
        if not isinstance(part, S.Part):
            o.add("load-as-part-result-not-a-part", type=type(part).__name__)
            return o
        got = call(part.note_array)
    if _rows(got) != _rows(ref):
        o.add("load-as-part-notes-differ-from-score-array", missing=sorted((_rows(ref) - _rows(got)).elements())[:4],
              extra=sorted((_rows(got) - _rows(ref)).elements())[:4], parts=n, n_ref=len(ref), n_got=len(got))
    if len(ref) == 0:
        o.excluded.append("file-without-notes")
    # documented default of merge_parts is used: notes of different parts in different voices
    if n > 1:
        by_part = {}
        for k, ps in enumerate(spec["parts"]):
            for x in sounding(ps):
                by_part[x["id"]] = k
        voices = {}
        for nt in part.notes:
            if nt.id in by_part:
                voices.setdefault(by_part[nt.id], set()).add(nt.voice)
        ks = sorted(voices)
        if any(voices[a] & voices[b] for i, a in enumerate(ks) for b in ks[i + 1:]):
            if not zero_based_clash(spec):
                o.add("load-as-part-voices-shared-across-parts", voices={str(k): sorted(v) for k, v in voices.items()})
    return o


def _iter_parts_score(spec, disc):
    return disc["kind"] == "sut-raised:AttributeError@score.py:iter_parts" and spec["container"].startswith("score")


def _is_keyerror(disc):
    return disc["kind"].startswith("sut-raised:KeyError@score.py:merge_parts")


SUBCHECKS = [
    SubCheck(
        "merge",
        oracle_merge,
        strategy=M.merge_spec,
        budget={"quick": 60, "thorough": 1500},
        # ~0.5 s CPU per case (merge_parts visits every subclass of object at every time point); the case count is the budget
        time_budget={"quick": 300.0, "thorough": 1800.0},
        max_buckets=3,
        rule="2-4 generated parts with a common bar structure, own divisions (equal / different / lcm above all), 1-3 voices, 1-2 staves, "
             "missing staves, rests, ties, grace notes, tuplets, slurs, directions, own clefs and key signatures, in list/tuple/PartGroup/Score "
             "containers (nested), merged with voice/staff/auto; every expectation computed from the spec with Fractions; "
             "non-trivial = at least two different divisions values",
        known={
            "auto-lookup-keyerror": lambda spec, disc: spec["reassign"] == "auto" and _is_keyerror(disc) and auto_lookup_missing(spec),
            "staff-mode-staffless-part-counts-zero": lambda spec, disc: spec["reassign"] == "staff" and disc["kind"] == "staff-shared-across-inputs" and staff_count_short(spec),
            "iter-parts-rejects-score": _iter_parts_score,
            "score-notearray-tacet-group": lambda spec, disc: disc["kind"] == "score-notearray-sut-raised:UFuncTypeError@utils/music.py:note_array_from_part_list"
            and tacet_group(spec),
            "voice-mode-zero-based-voices": lambda spec, disc: spec["reassign"] == "voice" and disc["kind"] == "voice-shared-across-inputs"
            and zero_based_clash(spec),
            "auto-mode-more-than-four-voices-per-staff": lambda spec, disc: spec["reassign"] == "auto" and disc["kind"] == "voice-shared-across-inputs"
            and auto_ranges_overlap(spec),
            "merged-timepoints-quarter-stale": lambda spec, disc: disc["kind"] == "merged-timepoints-quarter-not-lcm"
            and M.lcm([ps["divs"][0][1] for ps in spec["parts"]]) != 1
            and all(q == 1 for (_t, q) in disc["detail"]["points"]),
        },
        floors={"divisions-different": 0.4, "lcm-exceeds-all": 0.2, "auto-judged": 0.04, "divisions-equal": 0.1, "some-staff-missing": 0.15,
                "repeated-part-id-with-different-divisions": 0.02,
                # shapes added by the generator audit
                "voice-zero": 0.08, "more-than-four-voices-per-staff": 0.04, "staff-three": 0.08, "staff-gap-or-not-from-one": 0.1,
                "structural-extra-in-later-part": 0.1, "non-structural-extra-in-later-part": 0.08, "later-part-measure-numbers-differ": 0.1,
                "reassign-arg-default": 0.02, "empty-part": 0.02},
    ),
    SubCheck(
        "single_part",
        oracle_single,
        strategy=M.single_spec,
        budget={"quick": 12, "thorough": 300},
        rule="one generated part alone, in a list, tuple, PartGroup, nested PartGroup, list holding a group, Score, Score holding a group; "
             "the result must be the same object, unchanged; non-trivial = the part is inside a container",
        known={"iter-parts-rejects-score": _iter_parts_score},
    ),
    SubCheck(
        "load_as_part",
        oracle_load_as_part,
        strategy=M.file_spec,
        budget={"quick": 10, "thorough": 200},
        rule="1-4 generated parts (own divisions, voices, staves) saved as one MusicXML file; load_score_as_part / lp of the file must be "
             "one Part whose sounding notes equal the score-level note array of load_score of the same file, in disjoint voices per "
             "original part; non-trivial = two or more parts",
        floors={"parts-1": 0.05, "divisions-different": 0.2},
    ),
]
