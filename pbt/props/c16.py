"""C16 - transposition moves every note by the interval and leaves the input alone.

Three sub-checks:

* ``grid_score``        exhaustive: 7 steps x alterations -2..2 (naturals written both as 0 and
                        as None, the way the MusicXML importer leaves them) x octaves 0..8 x the
                        39 interval classes x {up, down} through ``transpose(Score)`` on a
                        one-note score;
* ``grid_transpose_note`` exhaustive: 7 steps x alterations -2..2 x 39 interval classes x
                        {up, down} through the octave-free ``transpose_note`` (documented domain:
                        direction up, number < 8, |alter| <= 2);
* ``scores_and_parts``  sampled scores and bare parts from the shared generator (tie chains,
                        chords, grace notes, several voices/staves/parts), transposed there and
                        back again.

The expected spelling comes from ``pbt/ref/c16_pitch.py`` (letter index +- (number-1) with floor
division for the octave, MIDI +- semitones, alteration = difference); none of partitura's tables
are read.  A point is judged when the correct result needs at most a double accidental
(|alter'| <= 2: the range ``Note`` documents, ``transpose_note`` asserts and ``ALTER_SIGNS`` can
print); the other points are enumerated and counted as excluded.
"""

import numpy as np
from hypothesis import strategies as st

import partitura.score as S
import partitura.utils.music as M
from pbt.core import Outcome, SubCheck, SutRaised, call
from pbt.gen import scorespec as G
from pbt.gen.build import build_part, build_score
from pbt.ref import c16_pitch as R

PROPERTY = "C16"
ENGINES = ["exhaustive enumeration", "hypothesis"]
ASSUMPTIONS = [
    "expected spellings come from letter-index / MIDI arithmetic written in the check (pbt/ref/c16_pitch.py)",
    "a point / note is judged only if the correct result needs at most a double accidental (|alter'| <= 2); the rest is enumerated but counted as excluded",
    "alter None and alter 0 are the same spelling (Note documents '0 or None: unaltered')",
    "only Score and Part arguments (the property's quantifier); PartGroup / list arguments and unpitched notes are not generated",
    "the order of objects inside one time point of the result is not demanded (compared sorted); the argument itself must be literally untouched (order, object identity, every attribute)",
]

INTERVALS = R.interval_classes()  # 39 x (number, quality)
assert len(INTERVALS) == 39
MAX_ALTER = 2


# ===========================================================================
# fingerprints of live objects
# ===========================================================================
PITCH_FIELDS = ("step", "alter", "octave")
_SKIP_PART = ("_points", "_quarter_map")


def _val(v, ids, depth=0):
    """Canonical, comparable form of an attribute value."""
    if v is None or isinstance(v, (bool, str)):
        return v
    if isinstance(v, (int, np.integer)):
        return int(v)
    if isinstance(v, (float, np.floating)):
        return float(v)
    if isinstance(v, S.TimePoint):
        return ("tp", int(v.t)) + ((id(v),) if ids else ())
    if isinstance(v, S.TimedObject):
        return ("ref", type(v).__name__, getattr(v, "id", None), None if v.start is None else int(v.start.t)) + ((id(v),) if ids else ())
    if isinstance(v, S.Part):
        return ("part", v.id) + ((id(v),) if ids else ())
    if isinstance(v, S.PartGroup):
        return ("group", v.group_name, v.number) + ((id(v),) if ids else ())
    if isinstance(v, dict):
        return ("dict",) + tuple(sorted(((repr(k), _val(x, ids, depth + 1)) for k, x in v.items()), key=repr))
    if isinstance(v, (list, tuple)):
        return ("list",) + tuple(_val(x, ids, depth + 1) for x in v)
    if isinstance(v, (set, frozenset)):
        return ("set",) + tuple(sorted((_val(x, ids, depth + 1) for x in v), key=repr))
    if isinstance(v, np.ndarray):
        if v.dtype == object:
            return ("oarray",) + tuple(_val(x, ids, depth + 1) for x in v.tolist())
        return ("array", v.dtype.str, v.shape, v.tobytes().hex())
    if callable(v):
        return ("callable", type(v).__name__)
    d = getattr(v, "__dict__", None)
    if d is not None and depth < 4:
        return ("obj", type(v).__name__) + tuple((k, _val(x, ids, depth + 1)) for k, x in sorted(d.items()))
    return ("other", type(v).__name__, repr(v)[:80])


def _obj_fp(obj, ids, mask):
    items = []
    for k, x in sorted(obj.__dict__.items()):
        if mask and k in PITCH_FIELDS and isinstance(obj, S.Note):
            continue
        items.append((k, _val(x, ids)))
    return (type(obj).__name__,) + ((id(obj),) if ids else ()) + tuple(items)


def part_fp(part, ids, mask, ordered):
    """Everything reachable from a part: attributes, time points with links, all objects."""
    head = tuple((k, _val(v, ids)) for k, v in sorted(part.__dict__.items()) if k not in _SKIP_PART)
    pts = []
    for tp in part._points:
        start, end = [], []
        for table, out in ((tp.starting_objects, start), (tp.ending_objects, end)):
            for cls in sorted(table, key=lambda c: c.__name__):
                objs = list(table[cls])
                if not objs:
                    continue
                if out is start:
                    fps = [_obj_fp(x, ids, mask) for x in objs]
                else:
                    fps = [_val(x, ids) for x in objs]
                if not ordered:
                    fps = sorted(fps, key=repr)
                out.append((cls.__name__, tuple(fps)))
        pts.append(
            (
                ("t", int(tp.t)),
                ("quarter", _val(tp.quarter, ids)),
                ("prev", None if tp.prev is None else int(tp.prev.t)),
                ("next", None if tp.next is None else int(tp.next.t)),
                ("id", id(tp) if ids else None),
                ("starting", tuple(start)),
                ("ending", tuple(end)),
            )
        )
    return (("part-attributes", head), ("points", tuple(pts)))


def _struct_fp(node, ids):
    if isinstance(node, S.Part):
        return ("part", node.id) + ((id(node),) if ids else ())
    if isinstance(node, S.PartGroup):
        return (
            "group",
            node.group_symbol,
            node.group_name,
            node.number,
            node.id,
            None if node.parent is None else type(node.parent).__name__,
        ) + ((id(node),) if ids else ()) + (tuple(_struct_fp(c, ids) for c in node.children),)
    return ("?", type(node).__name__)


def arg_fp(arg, ids, mask, ordered):
    if isinstance(arg, S.Score):
        head = tuple((k, _val(v, ids)) for k, v in sorted(arg.__dict__.items()) if k not in ("parts", "part_structure"))
        return (
            ("score-attributes", head),
            ("structure", tuple(_struct_fp(n, ids) for n in arg.part_structure)),
            ("parts", tuple(part_fp(p, ids, mask, ordered) for p in arg.parts)),
        )
    return part_fp(arg, ids, mask, ordered)


def first_diff(a, b, path=""):
    """Human-readable location of the first difference between two fingerprints."""
    if type(a) is not type(b):
        return "%s: %r != %r" % (path, a if not isinstance(a, tuple) else "tuple", b if not isinstance(b, tuple) else "tuple")
    if isinstance(a, tuple):
        if len(a) != len(b):
            return "%s: length %d != %d" % (path, len(a), len(b))
        for i, (x, y) in enumerate(zip(a, b)):
            if x != y:
                label = x[0] if isinstance(x, tuple) and x and isinstance(x[0], str) else str(i)
                return first_diff(x, y, path + "/" + label)
        return None
    if a != b:
        return "%s: %r != %r" % (path, a, b)
    return None


def live_ids(arg):
    """id() of every part, time point and timed object reachable from the argument."""
    parts = arg.parts if isinstance(arg, S.Score) else [arg]
    out = set()
    for p in parts:
        out.add(id(p))
        for tp in p._points:
            out.add(id(tp))
            for table in (tp.starting_objects, tp.ending_objects):
                for cls in table:
                    for x in table[cls]:
                        out.add(id(x))
    return out


def spelling(note):
    a = note.alter
    return (note.step, 0 if a is None else a, note.octave)


def _same_spelling(got, exp):
    try:
        return got[0] == exp[0] and int(got[1]) == exp[1] and float(got[1]) == exp[1] and got[2] == exp[2]
    except (TypeError, ValueError):
        return False


def judge_note(o, src, got, exp, interval, tied_continuation=False, **extra):
    """Report one note; the kind names the first field that is off."""
    if _same_spelling(got, exp):
        return True
    detail = dict(src=list(src), interval=list(interval), got=[got[0], _jsonable(got[1]), _jsonable(got[2])], expected=list(exp))
    detail.update(extra)
    if tied_continuation and _same_spelling(got, (src[0], src[1] or 0, src[2])):
        o.add("tied-continuation-not-moved", **detail)
    elif got[0] != exp[0]:
        o.add("step-wrong", **detail)
    elif got[2] != exp[2]:
        o.add("octave-wrong", **detail)
    else:
        o.add("alter-wrong", **detail)
    return False


def _jsonable(x):
    if x is None or isinstance(x, (bool, int, float, str)):
        return x
    if isinstance(x, np.integer):
        return int(x)
    if isinstance(x, np.floating):
        return float(x)
    return repr(x)


# ===========================================================================
# known findings: narrow predicates on (input, discrepancy kind)
# ===========================================================================
def _src_iv(d):
    det = d["detail"]
    step, alter, _ = det["src"]
    number, quality, direction = det["interval"]
    if (number, quality) == (1, "P"):
        raise ValueError("P1 is never covered by a known finding")  # match_known treats this as 'no match'
    return step, alter or 0, number, direction


def known_down_step(spec, d):
    """Downward letter arithmetic uses abs(): wrong letter whenever the motion passes below C."""
    if d.kind != "step-wrong":
        return False
    step, alter, number, direction = _src_iv(d)
    return R.down_wraps_below_c(step, number, direction)


def known_down_alter_sign(spec, d):
    """Downward: the alteration comes out with the opposite sign (letter correct)."""
    if d.kind != "alter-wrong":
        return False
    step, alter, number, direction = _src_iv(d)
    if direction != "down" or R.down_wraps_below_c(step, number, direction):
        return False
    if R.altered_source_crosses_target(step, alter, number, direction):
        return False
    det = d["detail"]
    return det["got"][1] == -det["expected"][1]


def known_alter_crossing(spec, d):
    """The source alteration is folded into a 0..11 pitch-class difference: off by a multiple of
    12 semitones (minus sign for downward) when the alteration carries the source across the natural target letter."""
    if d.kind != "alter-wrong":
        return False
    step, alter, number, direction = _src_iv(d)
    if R.down_wraps_below_c(step, number, direction):
        return False
    if not R.altered_source_crosses_target(step, alter, number, direction):
        return False
    det = d["detail"]
    g, e = det["got"][1], det["expected"][1]
    if not isinstance(g, int):
        return False
    return (g - e) % 12 == 0 if direction == "up" else (g + e) % 12 == 0


def known_tie_continuation(spec, d):
    """Only notes without tie_prev are visited."""
    return d.kind == "tied-continuation-not-moved" and d["detail"].get("tie_prev") is not None


def known_part_inplace(spec, d):
    """Part argument: the argument is transposed in place and an untouched copy is returned."""
    if spec.get("arg") != "part":
        return False
    if tuple(spec["interval"][:2]) == (1, "P"):
        return False
    # both legs hand a Part to transpose(); only pitch fields of the argument's notes may differ
    if d.kind == "argument-transposed-instead-of-result":
        return d["detail"].get("arg") == "Part"
    return False


KNOWN_NOTE = {
    "down-step-abs": known_down_step,
    "down-alter-sign": known_down_alter_sign,
    "alter-crossing-natural-target": known_alter_crossing,
}


# ===========================================================================
# 1. exhaustive grid through transpose(Score)
# ===========================================================================
def enum_grid(tier):
    out = []
    for step in R.LETTERS:
        for alter in (-2, -1, 0, None, 1, 2):
            for octave in range(0, 9):
                for (n, q) in INTERVALS:
                    for d in ("up", "down"):
                        out.append({"step": step, "alter": alter, "octave": octave, "interval": [n, q, d]})
    return out


def one_note_score(step, alter, octave):
    part = S.Part("P1", part_name="one", quarter_duration=2)
    part.add(S.Note(step=step, octave=octave, alter=alter, id="n1", voice=1, staff=1), 0, 2)
    return S.Score(partlist=[part], id="grid")


def oracle_grid(spec):
    step, alter, octave = spec["step"], spec["alter"], spec["octave"]
    n, q, d = spec["interval"]
    exp = R.transpose_spelling(step, alter, octave, n, q, d)
    o = Outcome()
    o.nontrivial = (alter not in (0, None)) or d == "down" or exp[2] != octave
    o.cls("direction-" + d)
    o.cls("source-altered", alter not in (0, None))
    o.cls("natural-written-as-None", alter is None)
    o.cls("octave-changes", exp[2] != octave)
    o.cls("unison-number", n == 1)
    if abs(exp[1]) > MAX_ALTER:
        o.excluded.append("result-needs-more-than-a-double-accidental")
        o.nontrivial = False
        return o
    o.cls("judged")
    score = call(one_note_score, step, alter, octave)
    iv = call(S.Interval, n, q, d)
    if call(lambda: iv.semitones) != R.semitones(n, q):
        o.add("interval-semitones-wrong", interval=spec["interval"], got=iv.semitones, expected=R.semitones(n, q))
    before = arg_fp(score, True, False, True)
    iv_before = dict(iv.__dict__)
    res = call(M.transpose, score, iv)
    after = arg_fp(score, True, False, True)
    if before != after:
        o.add("argument-modified", where=first_diff(before, after), leg=1, pitch_only=_mask_again(before) == _mask_again(after), arg="Score")
    if dict(iv.__dict__) != iv_before:
        o.add("interval-argument-modified", before=repr(iv_before), after=repr(iv.__dict__), leg=1)
    if not isinstance(res, S.Score) or res is score:
        o.add("result-not-a-new-score", got=type(res).__name__)
        return o
    if live_ids(res) & live_ids(score):
        o.add("result-shares-objects-with-argument")
    notes = [x for p in res.parts for x in p.notes]
    if len(res.parts) != 1 or len(notes) != 1:
        o.add("result-note-count-wrong", parts=len(res.parts), notes=len(notes))
        return o
    got = spelling(notes[0])
    src = (step, alter, octave)
    if judge_note(o, src, got, exp, spec["interval"]):
        mp = call(lambda: notes[0].midi_pitch)
        want = R.midi(step, alter, octave) + (1 if d == "up" else -1) * R.semitones(n, q)
        if mp != want:
            o.add("midi-pitch-wrong", got=_jsonable(mp), expected=want)
    # everything but the pitch is as before
    a = arg_fp(res, False, True, False)
    b = arg_fp(score, False, True, False)
    if a != b:
        o.add("non-pitch-content-changed", where=first_diff(b, a))
    return o


def _mask_again(fp_with_pitch):
    """Remove the pitch fields of Note entries from an (ids, unmasked, ordered) fingerprint."""

    def rec(x):
        if isinstance(x, tuple):
            if x and x[0] in ("Note", "GraceNote"):
                return tuple(rec(y) for y in x if not (isinstance(y, tuple) and len(y) == 2 and y[0] in PITCH_FIELDS))
            return tuple(rec(y) for y in x)
        return x

    return rec(fp_with_pitch)


# ===========================================================================
# 2. exhaustive grid through transpose_note (octave-free, chord roots / local keys)
# ===========================================================================
def enum_tn(tier):
    out = []
    # lower-case letters: RomanNumeral.find_root_note / process_local_key pass the letter of a minor
    # key as it is written ("c", "f#"), and transpose_note capitalises it itself
    for step in R.LETTERS + R.LETTERS.lower():
        for alter in (-2, -1, 0, 1, 2):
            for (n, q) in INTERVALS:
                for d in ("up", "down"):
                    out.append({"step": step, "alter": alter, "interval": [n, q, d]})
    return out


def oracle_tn(spec):
    step_arg, alter = spec["step"], spec["alter"]
    step = step_arg.upper()
    n, q, d = spec["interval"]
    exp = R.transpose_pitch_class(step, alter, n, q, d)
    in_range = abs(exp[1]) <= MAX_ALTER
    o = Outcome(nontrivial=alter != 0 and d == "up" and in_range)
    o.cls("direction-" + d)
    o.cls("result-in-range", in_range)
    o.cls("lower-case-letter", step_arg != step)
    o.cls("lower-case-letter-judged", step_arg != step and d == "up" and in_range)
    # Interval documents direction="up" as its default: the upward half of the lower-case points leaves it out
    if d == "up" and step_arg != step:
        o.cls("interval-direction-left-to-default")
        iv = call(S.Interval, n, q)
    else:
        iv = call(S.Interval, n, q, d)
    iv_before = dict(iv.__dict__)
    try:
        got = M.transpose_note(step_arg, alter, iv)
        raised = None
    except AssertionError as e:
        got, raised = None, e
    if dict(iv.__dict__) != iv_before:
        o.add("interval-argument-modified", before=repr(iv_before), after=repr(iv.__dict__), where="transpose_note")
    if d == "down" or not in_range:
        # documented: only direction up; the result alteration is asserted to be within +-2.
        # Rejection is the contract; a returned value must at least not be a wrong one.
        o.cls("rejected-as-documented", raised is not None)
        if raised is None and not _same_spelling((got[0], got[1], 0), (exp[0], exp[1], 0)):
            o.add("transpose-note-outside-domain-returns-wrong-value", spec=spec, got=[got[0], _jsonable(got[1])], expected=list(exp))
        return o
    if raised is not None:
        o.add("transpose-note-valid-input-rejected", spec=spec, text=str(raised)[:200], expected=list(exp))
        return o
    if not (isinstance(got, tuple) and len(got) == 2):
        o.add("transpose-note-bad-result", got=repr(got)[:100])
        return o
    if got[0] != exp[0]:
        o.add("transpose-note-step-wrong", spec=spec, got=[got[0], _jsonable(got[1])], expected=list(exp))
    elif not _same_spelling((got[0], got[1], 0), (exp[0], exp[1], 0)):
        o.add("transpose-note-alter-wrong", spec=spec, got=[got[0], _jsonable(got[1])], expected=list(exp))
    else:
        # agrees with the full transposition of a Note in any octave (same diatonic arithmetic)
        pc = call(M.step2pc, got[0], got[1])
        want = (R.BASE[step] + alter + R.semitones(n, q)) % 12
        if pc != want:
            o.add("transpose-note-pitch-class-wrong", spec=spec, got=_jsonable(pc), expected=want)
    return o


# ===========================================================================
# 3. sampled scores and bare parts
# ===========================================================================
PROFILE = G.profile(
    max_bars=3,
    max_voices=2,
    max_staves=2,
    midbar_changes=False,
    alters=(-2, -1, -1, 0, 0, 0, 0, 1, 1, 2),
    chords=True,
    ties=True,
    grace=True,
    tuplets=True,
)
ALL_INTERVALS = [[n, q, d] for (n, q) in INTERVALS for d in ("up", "down")]


def _pitched(n):
    return n["kind"] in ("note", "grace")


@st.composite
def _strat_sampled(draw, tier):
    prof = dict(PROFILE)
    if tier == "thorough":
        prof["max_bars"] = 5
        prof["max_voices"] = 3
    arg = draw(st.sampled_from(["score", "score", "part"]))
    nparts = 1 if arg == "part" else draw(st.sampled_from([1, 1, 2]))
    parts = []
    for i in range(nparts):
        ps = draw(G.part_spec(prof, pid="P%d" % (i + 1), note_prefix="p%dn" % i))
        # more tie chains than the shared generator draws: tie the first notes of successive
        # events of a voice (a tie continues the same pitch, so the later note takes it over)
        boost = draw(st.integers(0, 3))
        if boost:
            last = {}
            for n in ps["notes"]:
                if n["kind"] != "note":
                    continue
                v = n["voice"]
                prev = last.get(v)
                if prev is not None and prev["t"] == n["t"]:
                    continue  # further chord member
                if (
                    prev is not None
                    and prev["t"] + prev["dur"] == n["t"]
                    and "tie_next" not in prev
                    and "tie_prev" not in n
                    and "tie_next" not in n
                ):
                    chord = [x for x in ps["notes"] if x is not n and x["kind"] == "note" and x["voice"] == v and x["t"] == n["t"]]
                    pp = (prev["step"], prev["alter"] or 0, prev["octave"])
                    clash = any((x["step"], x["alter"] or 0, x["octave"]) == pp for x in chord)
                    if not clash and draw(st.integers(0, 3)) < boost:
                        n["step"], n["alter"], n["octave"] = prev["step"], prev["alter"], prev["octave"]
                        prev["tie_next"] = n["id"]
                        n["tie_prev"] = prev["id"]
                last[v] = n
        if draw(st.booleans()):
            for n in ps["notes"]:
                if _pitched(n) and n["alter"] == 0:
                    n["alter"] = None  # importer style natural
        # "all other elements are unchanged": elements the shared generator does not draw - unpitched
        # (percussion) notes, which have a display step and octave but are not pitched notes, slurs
        # (they refer to notes), fermatas, articulations and tempo marks
        if draw(st.integers(0, 2)) == 0:
            real = [x for x in ps["notes"] if x["kind"] == "note"]
            if real:
                top = max(x["voice"] or 1 for x in ps["notes"])
                for j in range(draw(st.integers(1, 2))):
                    a = draw(st.sampled_from(real))
                    ps["notes"].append({"id": "%s-u%d" % (a["id"], j), "kind": "unpitched", "t": a["t"], "dur": a["dur"],
                                        "step": draw(st.sampled_from("CDEFGAB")), "octave": draw(st.integers(3, 5)), "alter": None,
                                        "voice": top + 1, "staff": a["staff"], "sym": a.get("sym")})
                if len(real) >= 2 and draw(st.booleans()):
                    i = draw(st.integers(0, len(real) - 2))
                    later = [x for x in real[i + 1:] if x["voice"] == real[i]["voice"] and x["t"] > real[i]["t"]]
                    if later:
                        ps["slurs"] = [[real[i]["id"], draw(st.sampled_from(later))["id"]]]
                if draw(st.booleans()):
                    draw(st.sampled_from(real))["fermata"] = True
                if draw(st.booleans()):
                    draw(st.sampled_from(real))["art"] = ["staccato", "accent"]
                if draw(st.booleans()):
                    ps["tempos"] = [[0, draw(st.sampled_from([60, 96, 120])), "q"]]
        parts.append(ps)
    if nparts == 2 and draw(st.integers(0, 2)) == 0:
        # two distinct parts carrying the same part id (e.g. a score assembled from two files)
        parts[1]["id"] = parts[0]["id"]
    return {
        "arg": arg,
        "parts": parts,
        "group": bool(arg == "score" and draw(st.integers(0, 2)) == 0),
        "interval": draw(st.sampled_from(ALL_INTERVALS)),
        # how the Interval is made: all three arguments by position, by keyword, or (upward only) with the
        # documented default direction left out
        "interval_ctor": draw(st.sampled_from(["positional", "keyword", "default-direction"])),
    }


def strat_sampled(tier):
    return _strat_sampled(tier)


def make_interval(n, q, d, how):
    if how == "keyword":
        return call(lambda: S.Interval(number=n, quality=q, direction=d))
    if how == "default-direction" and d == "up":
        return call(lambda: S.Interval(n, q))
    return call(S.Interval, n, q, d)


def _build_arg(spec):
    if spec["arg"] == "part":
        part, _ = build_part(spec["parts"][0])
        return part, [part]
    sspec = {"parts": spec["parts"], "id": "sc"}
    if spec.get("group"):
        sspec["groups"] = [{"symbol": "bracket", "name": "grp", "number": 1, "children": list(range(len(spec["parts"])))}]
    score, parts, _ = build_score(sspec)
    return score, parts


def _notes_by_id(obj):
    """[{note id: Note}] per part."""
    parts = obj.parts if isinstance(obj, S.Score) else [obj]
    return [dict((x.id, x) for x in p.notes) for p in parts]


def _transpose_leg(o, arg, iv, interval, src_tab, leg, judged_ids):
    """Transpose `arg`, check result and argument. src_tab: per part {id: (spelling, tie_prev, kind)}.

    Returns (result or None, set of (part index, id) whose result spelling is right).
    """
    before = arg_fp(arg, True, False, True)
    before_sem = arg_fp(arg, False, True, False)
    in_tab = [dict((nid, spelling(x)) for nid, x in tab.items()) for tab in _notes_by_id(arg)]
    iv_before = dict(iv.__dict__)
    res = call(M.transpose, arg, iv)
    if dict(iv.__dict__) != iv_before:
        o.add("interval-argument-modified", before=repr(iv_before), after=repr(iv.__dict__), leg=leg)
    after = arg_fp(arg, True, False, True)
    modified = before != after
    pitch_only = modified and _mask_again(before) == _mask_again(after)
    if type(res) is not type(arg) or res is arg:
        if modified:
            o.add("argument-modified", where=first_diff(before, after), leg=leg, pitch_only=pitch_only, arg=type(arg).__name__)
        o.add("result-not-a-new-object-of-the-argument-type", got=type(res).__name__, same_object=res is arg, leg=leg)
        return None, set()
    if live_ids(res) & live_ids(arg):
        o.add("result-shares-objects-with-argument", leg=leg)
    after_sem = arg_fp(res, False, True, False)
    got_tab = _notes_by_id(res)
    if after_sem != before_sem:
        o.add("non-pitch-content-changed", where=first_diff(before_sem, after_sem), leg=leg)
        if len(got_tab) != len(in_tab) or any(set(a) != set(b) for a, b in zip(got_tab, in_tab)):
            if modified:
                o.add("argument-modified", where=first_diff(before, after), leg=leg, pitch_only=pitch_only, arg=type(arg).__name__)
            return None, set()
    n, q, d = interval
    todo = [(pi, nid) for pi, tab in enumerate(src_tab) for nid in tab if (pi, nid) in judged_ids]
    # the signature of "the argument was transposed instead of the copy": the argument's pitches
    # changed while the returned object has exactly the pitches the argument had.  One root
    # cause, reported once (not once per note); nothing sensible can be checked after it.
    untouched = all(_same_spelling(spelling(got_tab[pi][nid]), sp) for pi, tab in enumerate(in_tab) for nid, sp in tab.items())
    if pitch_only and untouched and any(tab for tab in in_tab):
        o.add("argument-transposed-instead-of-result", where=first_diff(before, after), leg=leg, arg=type(arg).__name__, judged_notes=len(todo))
        return None, set()
    if modified:
        o.add("argument-modified", where=first_diff(before, after), leg=leg, pitch_only=pitch_only, arg=type(arg).__name__)
    right = set()
    for (pi, nid) in todo:
        src, tie_prev, kind = src_tab[pi][nid]
        exp = R.transpose_spelling(src[0], src[1], src[2], n, q, d)
        got = spelling(got_tab[pi][nid])
        if judge_note(o, src, got, exp, interval, tied_continuation=tie_prev is not None, note=nid, part=pi, tie_prev=tie_prev, note_kind=kind, leg=leg):
            right.add((pi, nid))
    return res, right


def _norm(sp):
    return (sp[0], sp[1] or 0, sp[2])


def oracle_sampled(spec):
    o = Outcome()
    n, q, d = spec["interval"]
    interval = [n, q, d]
    arg, parts = _build_arg(spec)
    src_tab = []
    judged = set()
    n_pitched = n_excl = 0
    crossing = False
    for pi, ps in enumerate(spec["parts"]):
        tab = {}
        for x in ps["notes"]:
            if not _pitched(x):
                continue
            sp = (x["step"], x["alter"], x["octave"])
            tab[x["id"]] = (sp, x.get("tie_prev"), x["kind"])
            n_pitched += 1
            exp = R.transpose_spelling(sp[0], sp[1], sp[2], n, q, d)
            if abs(exp[1]) <= MAX_ALTER:
                judged.add((pi, x["id"]))
                crossing = crossing or exp[2] != sp[2]
            else:
                n_excl += 1
        src_tab.append(tab)
    allnotes = [x for ps in spec["parts"] for x in ps["notes"]]
    has_tie = any(x.get("tie_prev") for x in allnotes)
    has_chain3 = any(x.get("tie_prev") and x.get("tie_next") for x in allnotes)
    has_grace = any(x["kind"] == "grace" for x in allnotes)
    onsets = {}
    for pi, ps in enumerate(spec["parts"]):
        for x in ps["notes"]:
            if x["kind"] == "note":
                onsets[(pi, x["voice"], x["t"])] = onsets.get((pi, x["voice"], x["t"]), 0) + 1
    has_chord = any(v > 1 for v in onsets.values())
    identity = (n, q) == (1, "P")
    o.nontrivial = (not identity) and bool(judged) and (has_tie or has_grace or has_chord)
    o.cls("arg-" + spec["arg"])
    o.cls("direction-" + d)
    o.cls("tie-chain", has_tie)
    o.cls("tie-chain-of-3-or-more", has_chain3)
    o.cls("grace-notes", has_grace)
    o.cls("chords", has_chord)
    o.cls("two-parts", len(spec["parts"]) > 1)
    o.cls("part-group", bool(spec.get("group")))
    o.cls("identity-interval-P1", identity)
    o.cls("octave-crossing-note", crossing)
    o.cls("altered-notes", any(_pitched(x) and x["alter"] not in (0, None) for x in allnotes))
    o.cls("all-notes-judged", n_excl == 0 and n_pitched > 0)
    o.cls("tied-continuation-judged", any((pi, nid) in judged and v[1] is not None for pi, tab in enumerate(src_tab) for nid, v in tab.items()))
    if n_excl:
        o.excluded.append("notes-whose-result-needs-more-than-a-double-accidental")
    if n_pitched == 0:
        o.excluded.append("no-pitched-note")

    how = spec.get("interval_ctor", "positional")
    o.cls("interval-by-keyword", how == "keyword")
    o.cls("interval-direction-left-to-default", how == "default-direction" and d == "up")
    o.cls("unpitched-notes", any(x["kind"] == "unpitched" for x in allnotes))
    o.cls("slurs", any(ps.get("slurs") for ps in spec["parts"]))
    o.cls("fermata", any(x.get("fermata") for x in allnotes))
    o.cls("articulations", any(x.get("art") for x in allnotes))
    o.cls("tempo-mark", any(ps.get("tempos") for ps in spec["parts"]))
    iv = make_interval(n, q, d, how)
    res, right = _transpose_leg(o, arg, iv, interval, src_tab, 1, judged)
    if res is None:
        return o
    # and back again by the same interval: the original spelling returns.  Judged per note as a
    # second transposition of the notes the first leg got right (the reference arithmetic is
    # its own inverse: checked here, a failure of that would be a harness error).
    back = [n, q, R.opposite(d)]
    mid_tab = []
    for pi, tab in enumerate(src_tab):
        t2 = {}
        for nid, (sp, tie_prev, kind) in tab.items():
            e1 = R.transpose_spelling(sp[0], sp[1], sp[2], n, q, d)
            e2 = R.transpose_spelling(e1[0], e1[1], e1[2], n, q, back[2])
            if e2 != _norm(sp):
                raise AssertionError("reference arithmetic is not its own inverse: %r" % ((sp, interval),))
            t2[nid] = (e1, tie_prev, kind)
        mid_tab.append(t2)
    iv2 = make_interval(n, q, back[2], how)
    o.cls("second-leg-run")
    _transpose_leg(o, res, iv2, back, mid_tab, 2, right)
    return o


# ===========================================================================
# 4. the callers named by the property: chord roots / bass notes of Roman numerals, local keys
# ===========================================================================
# Scale degrees as (number, semitones above the tonic).  Only degrees whose meaning does not depend on a
# convention: major I ii IV V vi, minor (natural scale, dominant with either third) i iv V v VI.
DEGREES = {
    "major": {"I": (1, 0), "ii": (2, 2), "IV": (4, 5), "V": (5, 7), "vi": (6, 9)},
    "minor": {"i": (1, 0), "iv": (4, 5), "V": (5, 7), "v": (5, 7), "VI": (6, 8)},
}
# natural-scale degrees for local keys (DCML: relative to the global key's scale)
SCALE = {"major": [0, 2, 4, 5, 7, 9, 11], "minor": [0, 2, 3, 5, 7, 8, 10]}
ROMAN_NUMBER = {"i": 1, "ii": 2, "iii": 3, "iv": 4, "v": 5, "vi": 6, "vii": 7}
# figure -> (inversion, chord member in the bass as (number, semitones above the root; None = third by chord quality))
FIGURES = {"6": (1, None), "64": (2, (5, 7)), "65": (1, None), "43": (2, (5, 7)), "2": (3, (7, 10))}
SEVENTH_OK = ("V", "ii", "v", "vi", "iv", "i")  # chords whose seventh is a minor seventh (dominant / minor seventh chords)


def _move(step, alter, number, semis):
    """(letter, alteration) `number` letters (1 = same) and `semis` semitones above (step, alter); octave-free."""
    idx = R.LETTERS.index(step) + number - 1
    new = R.LETTERS[idx % 7]
    natural = R.BASE[new] + 12 * (idx // 7) - R.BASE[step]
    return new, alter + semis - natural


def _parse_name(name):
    """'E-', 'Eb', 'f#', 'B--' -> (letter, alteration); the first character is the letter."""
    if not isinstance(name, str) or not name or name[0].upper() not in R.LETTERS:
        return None
    alter = 0
    for ch in name[1:]:
        if ch in "-b":
            alter -= 1
        elif ch == "#":
            alter += 1
        else:
            return None
    return name[0].upper(), alter


def _key_text(step, alter, mode, flat):
    """Key name as written in annotations: letter (upper = major, lower = minor) + accidentals."""
    letter = step if mode == "major" else step.lower()
    return letter + ("#" * alter if alter > 0 else flat * (-alter))


def enum_roots(tier):
    out = []
    keys = [(st_, al, mode) for st_ in R.LETTERS for al in (-1, 0, 1) for mode in ("major", "minor")]
    for (st_, al, mode) in keys:
        # (a) Roman numerals in a key, optionally applied to another degree ("V65/V")
        secs = [None] + (["V", "IV", "ii", "vi"] if mode == "major" else ["V", "iv", "v", "VI"])
        for sec in secs:
            mode2 = mode if sec is None else ("major" if sec.isupper() else "minor")
            for prim in DEGREES[mode2]:
                for fig in FIGURES:
                    if fig in ("65", "43", "2") and prim not in SEVENTH_OK:
                        continue
                    # how the chord reaches RomanNumeral: "Key:RN" in one text (MusicXML <function>), or the key in
                    # local_key= as process_local_key writes it (flats as '-', DCML import), or with 'b' flats
                    for style in ("text", "local_key-dash", "local_key-b"):
                        if al >= 0 and style == "local_key-b":
                            continue
                        out.append({"what": "roman", "key": [st_, al, mode], "sec": sec, "prim": prim, "fig": fig, "style": style})
        # (b) local keys relative to a global key
        for deg in ROMAN_NUMBER:
            for upper in (False, True):
                for acc in ("", "b", "#"):
                    for rsa in (False, True):
                        out.append({"what": "local_key", "key": [st_, al, mode], "deg": deg.upper() if upper else deg, "acc": acc, "return_step_alter": rsa})
    return out


def oracle_roots(spec):
    o = Outcome()
    st_, al, mode = spec["key"]
    o.cls(spec["what"])
    o.cls("key-with-flat", al < 0)
    o.cls("key-with-sharp", al > 0)
    o.cls("key-" + mode)
    if spec["what"] == "local_key":
        number = ROMAN_NUMBER[spec["deg"].lower()]
        semis = SCALE[mode][number - 1] + {"": 0, "b": -1, "#": 1}[spec["acc"]]
        exp = _move(st_, al, number, semis)
        loc = spec["acc"] + spec["deg"]
        glob = _key_text(st_, al, mode, "b")
        o.cls("accidental-" + (spec["acc"] or "none"))
        o.cls("return_step_alter", spec["return_step_alter"])
        o.nontrivial = number != 1
        if abs(exp[1]) > MAX_ALTER:
            o.excluded.append("local-key-needs-more-than-a-double-accidental")
            o.nontrivial = False
            return o
        try:
            got = call(S.process_local_key, loc, glob, spec["return_step_alter"])
        except SutRaised as e:
            # an interval that the 39 classes do not contain (e.g. a triply diminished third) is rejected
            if "ValueError" in e.kind and "change_quality" in e.kind:
                o.excluded.append("local-key-interval-outside-the-39-classes")
                return o
            raise
        if spec["return_step_alter"]:
            ok = isinstance(got, tuple) and len(got) == 2 and _same_spelling((got[0], got[1], 0), (exp[0], exp[1], 0))
            if not ok:
                o.add("local-key-step-alter-wrong", loc=loc, glob=glob, got=repr(got), expected=list(exp))
        else:
            p = _parse_name(got)
            want_lower = spec["deg"].islower()
            if p != exp or got[0].islower() != want_lower:
                o.add("local-key-name-wrong", loc=loc, glob=glob, got=repr(got), expected=[exp[0].lower() if want_lower else exp[0], exp[1]])
        return o

    # ---- Roman numeral ----
    sec, prim, fig, style = spec["sec"], spec["prim"], spec["fig"], spec["style"]
    tonic = (st_, al)
    mode2 = mode
    if sec is not None:
        tonic = _move(st_, al, *DEGREES[mode][sec])
        mode2 = "major" if sec.isupper() else "minor"
    exp_root = _move(tonic[0], tonic[1], *DEGREES[mode2][prim])
    inv, member = FIGURES[fig]
    if member is None:
        member = (3, 4 if prim.isupper() else 3)
    exp_bass = _move(exp_root[0], exp_root[1], *member)
    rn = prim + fig + ("/" + sec if sec else "")
    o.cls("style-" + style)
    o.cls("applied-chord", sec is not None)
    o.cls("inversion-%d" % inv)
    o.cls("root-with-flat", exp_root[1] < 0)
    o.cls("root-with-sharp", exp_root[1] > 0)
    o.nontrivial = True
    if max(abs(tonic[1]), abs(exp_root[1]), abs(exp_bass[1])) > MAX_ALTER:
        o.excluded.append("chord-needs-more-than-a-double-accidental")
        o.nontrivial = False
        return o
    try:
        if style == "text":
            key = _key_text(st_, al, mode, "b")
            obj = call(S.RomanNumeral, key + ":" + rn)
        else:
            key = _key_text(st_, al, mode, "-" if style == "local_key-dash" else "b")
            obj = call(lambda: S.RomanNumeral(text=rn, local_key=key))
    except SutRaised as e:
        o.add(e.kind, text=e.text, key=key, rn=rn, style=style)
        return o
    detail = dict(key=key, rn=rn, style=style, expected_root=list(exp_root), expected_bass=list(exp_bass))
    if (obj.primary_degree, obj.secondary_degree if sec else None, obj.inversion) != (prim, sec, inv):
        # the text was understood as another chord: not the arithmetic this property is about
        o.excluded.append("roman-numeral-text-read-differently")
        return o
    root = _parse_name(getattr(obj, "root", None))
    if root != exp_root:
        o.add("chord-root-wrong", got=repr(getattr(obj, "root", None)), **detail)
        return o
    bass = _parse_name(getattr(obj, "bass_note", None))
    if bass != exp_bass:
        o.add("chord-bass-wrong", got=repr(getattr(obj, "bass_note", None)), **detail)
    return o


def _b_minor_letter(spec):
    """The key is B minor or B sharp minor: its name starts with a lower-case b that is not a flat sign."""
    return spec["key"][0] == "B" and spec["key"][2] == "minor" and spec["key"][1] >= 0


KNOWN_ROOTS = {
    # re.search("[#b]", key) finds the key letter itself
    "roman-key-letter-b-read-as-flat": lambda spec, d: d.kind in ("local-key-name-wrong", "local-key-step-alter-wrong", "chord-root-wrong") and _b_minor_letter(spec),
    # flats written as '-' (the way process_local_key / INT_TO_ALT write them) are not read from local_key
    "roman-dash-flat-key-not-read": lambda spec, d: d.kind == "chord-root-wrong" and spec["what"] == "roman" and spec["style"] == "local_key-dash"
    and spec["key"][1] < 0 and not _b_minor_letter(spec),
    # the root name is written with '-' / '##', find_bass_note reads the first '#' or 'b' only
    "roman-bass-drops-root-alteration": lambda spec, d: d.kind == "chord-bass-wrong"
    and (d["detail"]["expected_root"][1] < 0 or d["detail"]["expected_root"][1] == 2),
}

KNOWN_SAMPLED = dict(KNOWN_NOTE)
KNOWN_SAMPLED["tie-continuation-skipped"] = known_tie_continuation
KNOWN_SAMPLED["part-argument-in-place"] = known_part_inplace


SUBCHECKS = [
    SubCheck(
        "grid_score",
        oracle_grid,
        enumerate=enum_grid,
        rule="exhaustive: 7 steps x alter {-2,-1,0,None,1,2} x octaves 0..8 x 39 interval classes x {up,down} through transpose(Score) on a one-note score; judged where the correct result has |alter| <= 2 (others counted as excluded); non-trivial = judged and (source altered, or downward, or octave changes)",
        known=KNOWN_NOTE,
    ),
    SubCheck(
        "grid_transpose_note",
        oracle_tn,
        enumerate=enum_tn,
        shards=2,
        rule="exhaustive: 7 steps x alter -2..2 x 39 interval classes x {up,down} through transpose_note; up with result |alter| <= 2 must equal the diatonic arithmetic, everything else must be rejected (AssertionError, as documented) or still be right; non-trivial = altered source inside the documented domain",
    ),
    SubCheck(
        "scores_and_parts",
        oracle_sampled,
        strategy=strat_sampled,
        budget={"quick": 160, "thorough": 2500},
        rule="generated scores (1-2 parts, optional part group) and bare parts with tie chains, chords, grace notes, 1-2 voices/staves, alterations -2..2, any of the 78 directed interval classes; transposed and transposed back; every pitched note judged by id (|alter'| <= 2), everything else by fingerprint, argument by identity fingerprint; non-trivial = interval other than P1 and a tie chain, grace note or chord present",
        known=KNOWN_SAMPLED,
        floors={"tie-chain": 0.15, "grace-notes": 0.05, "chords": 0.15, "arg-part": 0.15, "arg-score": 0.3, "direction-down": 0.25, "tied-continuation-judged": 0.1,
                # shapes added by the generator audit
                "unpitched-notes": 0.1, "slurs": 0.04, "interval-direction-left-to-default": 0.04, "interval-by-keyword": 0.1},
    ),
    SubCheck(
        "chord_roots",
        oracle_roots,
        enumerate=enum_roots,
        shards=2,
        known=KNOWN_ROOTS,
        rule="exhaustive: 42 keys (7 letters x flat/natural/sharp x major/minor) x unambiguous degrees (major I ii IV V vi, minor i iv V v VI), "
             "alone or applied to V IV ii vi / V iv v VI, x figures 6 64 65 43 2, given as 'Key:RN' text or with local_key= (flats as '-' or 'b'): "
             "RomanNumeral.root and .bass_note against letter/semitone arithmetic; process_local_key for the 7 degrees x case x accidental x 42 global "
             "keys (both return forms) against the natural scales; judged where no name needs more than a double accidental",
    ),
]
