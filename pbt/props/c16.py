"""C16 - transposition moves every note by the interval and leaves the input alone.

Three sub-checks:

* ``grid_score``        exhaustive: 7 steps x alterations -2..2 (naturals written both as 0 and
                        as None, the way the MusicXML importer leaves them) x octaves 0..8 x the
                        39 interval classes x {up, down} through ``transpose(Score)`` on a
                        one-note score;
* ``grid_transpose_note`` exhaustive: 7 steps x alterations -2..2 x 39 interval classes x
                        {up, down} through the octave-free ``transpose_note`` (documented domain:
                        direction up, number < 8, |alter| <= 2);
* ``scores_and_parts``  sampled scores and bare parts from the shared generator (tie chains,
                        chords, grace notes, several voices/staves/parts), transposed there and
                        back again.

The expected spelling comes from ``pbt/ref/c16_pitch.py`` (letter index +- (number-1) with floor
division for the octave, MIDI +- semitones, alteration = difference); none of partitura's tables
are read.  A point is judged when the correct result needs at most a double accidental
(|alter'| <= 2: the range ``Note`` documents, ``transpose_note`` asserts and ``ALTER_SIGNS`` can
print); the other points are enumerated and counted as excluded.
"""

import numpy as np
from hypothesis import strategies as st

import partitura.score as S
import partitura.utils.music as M
from pbt.core import Outcome, SubCheck, SutRaised, call
from pbt.gen import scorespec as G
from pbt.gen.build import build_part, build_score
from pbt.ref import c16_pitch as R

PROPERTY = "C16"
ENGINES = ["exhaustive enumeration", "hypothesis"]
ASSUMPTIONS = [
    "expected spellings come from letter-index / MIDI arithmetic written in the check (pbt/ref/c16_pitch.py)",
    "a point / note is judged only if the correct result needs at most a double accidental (|alter'| <= 2); the rest is enumerated but counted as excluded",
    "alter None and alter 0 are the same spelling (Note documents '0 or None: unaltered')",
    "only Score and Part arguments (the property's quantifier); PartGroup / list arguments and unpitched notes are not generated",
    "the order of objects inside one time point of the result is not demanded (compared sorted); the argument itself must be literally untouched (order, object identity, every attribute)",
]

INTERVALS = R.interval_classes()  # 39 x (number, quality)
assert len(INTERVALS) == 39
MAX_ALTER = 2


# ===========================================================================
# fingerprints of live objects
# ===========================================================================
PITCH_FIELDS = ("step", "alter", "octave")
_SKIP_PART = ("_points", "_quarter_map")


def _val(v, ids, depth=0):
    """Canonical, comparable form of an attribute value."""
    if v is None or isinstance(v, (bool, str)):
        return v
    if isinstance(v, (int, np.integer)):
        return int(v)
    if isinstance(v, (float, np.floating)):
        return float(v)
    if isinstance(v, S.TimePoint):
        return ("tp", int(v.t)) + ((id(v),) if ids else ())
    if isinstance(v, S.TimedObject):
        return ("ref", type(v).__name__, getattr(v, "id", None), None if v.start is None else int(v.start.t)) + ((id(v),) if ids else ())
    if isinstance(v, S.Part):
        return ("part", v.id) + ((id(v),) if ids else ())
    if isinstance(v, S.PartGroup):
        return ("group", v.group_name, v.number) + ((id(v),) if ids else ())
    if isinstance(v, dict):
        return ("dict",) + tuple(sorted(((repr(k), _val(x, ids, depth + 1)) for k, x in v.items()), key=repr))
    if isinstance(v, (list, tuple)):
        return ("list",) + tuple(_val(x, ids, depth + 1) for x in v)
    if isinstance(v, (set, frozenset)):
        return ("set",) + tuple(sorted((_val(x, ids, depth + 1) for x in v), key=repr))
    if isinstance(v, np.ndarray):
        if v.dtype == object:
            return ("oarray",) + tuple(_val(x, ids, depth + 1) for x in v.tolist())
        return ("array", v.dtype.str, v.shape, v.tobytes().hex())
    if callable(v):
        return ("callable", type(v).__name__)
    d = getattr(v, "__dict__", None)
    if d is not None and depth < 4:
        return ("obj", type(v).__name__) + tuple((k, _val(x, ids, depth + 1)) for k, x in sorted(d.items()))
    return ("other", type(v).__name__, repr(v)[:80])


def _obj_fp(obj, ids, mask):
    items = []
    for k, x in sorted(obj.__dict__.items()):
        if mask and k in PITCH_FIELDS and isinstance(obj, S.Note):
            continue
        items.append((k, _val(x, ids)))
    return (type(obj).__name__,) + ((id(obj),) if ids else ()) + tuple(items)


def part_fp(part, ids, mask, ordered):
    """Everything reachable from a part: attributes, time points with links, all objects."""
    head = tuple((k, _val(v, ids)) for k, v in sorted(part.__dict__.items()) if k not in _SKIP_PART)
    pts = []
    for tp in part._points:
        start, end = [], []
        for table, out in ((tp.starting_objects, start), (tp.ending_objects, end)):
            for cls in sorted(table, key=lambda c: c.__name__):
                objs = list(table[cls])
                if not objs:
                    continue
                if out is start:
                    fps = [_obj_fp(x, ids, mask) for x in objs]
                else:
                    fps = [_val(x, ids) for x in objs]
                if not ordered:
                    fps = sorted(fps, key=repr)
                out.append((cls.__name__, tuple(fps)))
        pts.append(
            (
                ("t", int(tp.t)),
                ("quarter", _val(tp.quarter, ids)),
                ("prev", None if tp.prev is None else int(tp.prev.t)),
                ("next", None if tp.next is None else int(tp.next.t)),
                ("id", id(tp) if ids else None),
                ("starting", tuple(start)),
                ("ending", tuple(end)),
            )
        )
    return (("part-attributes", head), ("points", tuple(pts)))


def _struct_fp(node, ids):
    if isinstance(node, S.Part):
        return ("part", node.id) + ((id(node),) if ids else ())
    if isinstance(node, S.PartGroup):
        return (
            "group",
            node.group_symbol,
            node.group_name,
            node.number,
            node.id,
            None if node.parent is None else type(node.parent).__name__,
        ) + ((id(node),) if ids else ()) + (tuple(_struct_fp(c, ids) for c in node.children),)
    return ("?", type(node).__name__)


def arg_fp(arg, ids, mask, ordered):
    if isinstance(arg, S.Score):
        head = tuple((k, _val(v, ids)) for k, v in sorted(arg.__dict__.items()) if k not in ("parts", "part_structure"))
        return (
            ("score-attributes", head),
            ("structure", tuple(_struct_fp(n, ids) for n in arg.part_structure)),
            ("parts", tuple(part_fp(p, ids, mask, ordered) for p in arg.parts)),
        )
    return part_fp(arg, ids, mask, ordered)


def first_diff(a, b, path=""):
    """Human-readable location of the first difference between two fingerprints."""
    if type(a) is not type(b):
        return "%s: %r != %r" % (path, a if not isinstance(a, tuple) else "tuple", b if not isinstance(b, tuple) else "tuple")
    if isinstance(a, tuple):
        if len(a) != len(b):
            return "%s: length %d != %d" % (path, len(a), len(b))
        for i, (x, y) in enumerate(zip(a, b)):
            if x != y:
                label = x[0] if isinstance(x, tuple) and x and isinstance(x[0], str) else str(i)
                return first_diff(x, y, path + "/" + label)
        return None
    if a != b:
        return "%s: %r != %r" % (path, a, b)
    return None


def live_ids(arg):
    """id() of every part, time point and timed object reachable from the argument."""
    parts = arg.parts if isinstance(arg, S.Score) else [arg]
    out = set()
    for p in parts:
        out.add(id(p))
        for tp in p._points:
            out.add(id(tp))
            for table in (tp.starting_objects, tp.ending_objects):
                for cls in table:
                    for x in table[cls]:
                        out.add(id(x))
    return out


def spelling(note):
    a = note.alter
    return (note.step, 0 if a is None else a, note.octave)


def _same_spelling(got, exp):
    try:
        return got[0] == exp[0] and int(got[1]) == exp[1] and float(got[1]) == exp[1] and got[2] == exp[2]
    except (TypeError, ValueError):
        return False


def judge_note(o, src, got, exp, interval, tied_continuation=False, **extra):
    """Report one note; the kind names the first field that is off."""
    if _same_spelling(got, exp):
        return True
    detail = dict(src=list(src), interval=list(interval), got=[got[0], _jsonable(got[1]), _jsonable(got[2])], expected=list(exp))
    detail.update(extra)
    if tied_continuation and _same_spelling(got, (src[0], src[1] or 0, src[2])):
        o.add("tied-continuation-not-moved", **detail)
    elif got[0] != exp[0]:
        o.add("step-wrong", **detail)
    elif got[2] != exp[2]:
        o.add("octave-wrong", **detail)
    else:
        o.add("alter-wrong", **detail)
    return False


def _jsonable(x):
    if x is None or isinstance(x, (bool, int, float, str)):
        return x
    if isinstance(x, np.integer):
        return int(x)
    if isinstance(x, np.floating):
        return float(x)
    return repr(x)


# ===========================================================================
# known findings: narrow predicates on (input, discrepancy kind)
# ===========================================================================
def _src_iv(d):
    det = d["detail"]
    step, alter, _ = det["src"]
    number, quality, direction = det["interval"]
    if (number, quality) == (1, "P"):
        raise ValueError("P1 is never covered by a known finding")  # match_known treats this as 'no match'
    return step, alter or 0, number, direction


def known_down_step(spec, d):
    """Downward letter arithmetic uses abs(): wrong letter whenever the motion passes below C."""
    if d.kind != "step-wrong":
        return False
    step, alter, number, direction = _src_iv(d)
    return R.down_wraps_below_c(step, number, direction)


def known_down_alter_sign(spec, d):
    """Downward: the alteration comes out with the opposite sign (letter correct)."""
    if d.kind != "alter-wrong":
        return False
    step, alter, number, direction = _src_iv(d)
    if direction != "down" or R.down_wraps_below_c(step, number, direction):
        return False
    if R.altered_source_crosses_target(step, alter, number, direction):
        return False
    det = d["detail"]
    return det["got"][1] == -det["expected"][1]


def known_alter_crossing(spec, d):
    """The source alteration is folded into a 0..11 pitch-class difference: off by a multiple of
    12 semitones (minus sign for downward) when the alteration carries the source across the natural target letter."""
    if d.kind != "alter-wrong":
        return False
    step, alter, number, direction = _src_iv(d)
    if R.down_wraps_below_c(step, number, direction):
        return False
    if not R.altered_source_crosses_target(step, alter, number, direction):
        return False
    det = d["detail"]
    g, e = det["got"][1], det["expected"][1]
    if not isinstance(g, int):
        return False
    return (g - e) % 12 == 0 if direction == "up" else (g + e) % 12 == 0


def known_tie_continuation(spec, d):
    """Only notes without tie_prev are visited."""
    return d.kind == "tied-continuation-not-moved" and d["detail"].get("tie_prev") is not None


def known_part_inplace(spec, d):
    """Part argument: the argument is transposed in place and an untouched copy is returned."""
    if spec.get("arg") != "part":
        return False
    if tuple(spec["interval"][:2]) == (1, "P"):
        return False
    # both legs hand a Part to transpose(); only pitch fields of the argument's notes may differ
    if d.kind == "argument-transposed-instead-of-result":
        return d["detail"].get("arg") == "Part"
    return False


KNOWN_NOTE = {
    "down-step-abs": known_down_step,
    "down-alter-sign": known_down_alter_sign,
    "alter-crossing-natural-target": known_alter_crossing,
}


# ===========================================================================
# 1. exhaustive grid through transpose(Score)
# ===========================================================================
def enum_grid(tier):
    out = []
    for step in R.LETTERS:
        for alter in (-2, -1, 0, None, 1, 2):
            for octave in range(0, 9):
                for (n, q) in INTERVALS:
                    for d in ("up", "down"):
                        out.append({"step": step, "alter": alter, "octave": octave, "interval": [n, q, d]})
    return out


def one_note_score(step, alter, octave):
    part = S.Part("P1", part_name="one", quarter_duration=2)
    part.add(S.Note(step=step, octave=octave, alter=alter, id="n1", voice=1, staff=1), 0, 2)
    return S.Score(partlist=[part], id="grid")


def oracle_grid(spec):
    step, alter, octave = spec["step"], spec["alter"], spec["octave"]
    n, q, d = spec["interval"]
    exp = R.transpose_spelling(step, alter, octave, n, q, d)
    o = Outcome()
    o.nontrivial = (alter not in (0, None)) or d == "down" or exp[2] != octave
    o.cls("direction-" + d)
    o.cls("source-altered", alter not in (0, None))
    o.cls("natural-written-as-None", alter is None)
    o.cls("octave-changes", exp[2] != octave)
    o.cls("unison-number", n == 1)
    if abs(exp[1]) > MAX_ALTER:
        o.excluded.append("result-needs-more-than-a-double-accidental")
        o.nontrivial = False
        return o
    o.cls("judged")
    score = call(one_note_score, step, alter, octave)
    iv = call(S.Interval, n, q, d)
    if call(lambda: iv.semitones) != R.semitones(n, q):
        o.add("interval-semitones-wrong", interval=spec["interval"], got=iv.semitones, expected=R.semitones(n, q))
    before = arg_fp(score, True, False, True)
    res = call(M.transpose, score, iv)
    after = arg_fp(score, True, False, True)
    if before != after:
        o.add("argument-modified", where=first_diff(before, after), leg=1, pitch_only=_mask_again(before) == _mask_again(after), arg="Score")
    if not isinstance(res, S.Score) or res is score:
        o.add("result-not-a-new-score", got=type(res).__name__)
        return o
    if live_ids(res) & live_ids(score):
        o.add("result-shares-objects-with-argument")
    notes = [x for p in res.parts for x in p.notes]
    if len(res.parts) != 1 or len(notes) != 1:
        o.add("result-note-count-wrong", parts=len(res.parts), notes=len(notes))
        return o
    got = spelling(notes[0])
    src = (step, alter, octave)
    if judge_note(o, src, got, exp, spec["interval"]):
        mp = call(lambda: notes[0].midi_pitch)
        want = R.midi(step, alter, octave) + (1 if d == "up" else -1) * R.semitones(n, q)
        if mp != want:
            o.add("midi-pitch-wrong", got=_jsonable(mp), expected=want)
    # everything but the pitch is as before
    a = arg_fp(res, False, True, False)
    b = arg_fp(score, False, True, False)
    if a != b:
        o.add("non-pitch-content-changed", where=first_diff(b, a))
    return o


def _mask_again(fp_with_pitch):
    """Remove the pitch fields of Note entries from an (ids, unmasked, ordered) fingerprint."""

    def rec(x):
        if isinstance(x, tuple):
            if x and x[0] in ("Note", "GraceNote"):
                return tuple(rec(y) for y in x if not (isinstance(y, tuple) and len(y) == 2 and y[0] in PITCH_FIELDS))
            return tuple(rec(y) for y in x)
        return x

    return rec(fp_with_pitch)


# ===========================================================================
# 2. exhaustive grid through transpose_note (octave-free, chord roots / local keys)
# ===========================================================================
def enum_tn(tier):
    out = []
    for step in R.LETTERS:
        for alter in (-2, -1, 0, 1, 2):
            for (n, q) in INTERVALS:
                for d in ("up", "down"):
                    out.append({"step": step, "alter": alter, "interval": [n, q, d]})
    return out


def oracle_tn(spec):
    step, alter = spec["step"], spec["alter"]
    n, q, d = spec["interval"]
    exp = R.transpose_pitch_class(step, alter, n, q, d)
    in_range = abs(exp[1]) <= MAX_ALTER
    o = Outcome(nontrivial=alter != 0 and d == "up" and in_range)
    o.cls("direction-" + d)
    o.cls("result-in-range", in_range)
    iv = call(S.Interval, n, q, d)
    try:
        got = M.transpose_note(step, alter, iv)
        raised = None
    except AssertionError as e:
        got, raised = None, e
    if d == "down" or not in_range:
        # documented: only direction up; the result alteration is asserted to be within +-2.
        # Rejection is the contract; a returned value must at least not be a wrong one.
        o.cls("rejected-as-documented", raised is not None)
        if raised is None and not _same_spelling((got[0], got[1], 0), (exp[0], exp[1], 0)):
            o.add("transpose-note-outside-domain-returns-wrong-value", spec=spec, got=[got[0], _jsonable(got[1])], expected=list(exp))
        return o
    if raised is not None:
        o.add("transpose-note-valid-input-rejected", spec=spec, text=str(raised)[:200], expected=list(exp))
        return o
    if not (isinstance(got, tuple) and len(got) == 2):
        o.add("transpose-note-bad-result", got=repr(got)[:100])
        return o
    if got[0] != exp[0]:
        o.add("transpose-note-step-wrong", spec=spec, got=[got[0], _jsonable(got[1])], expected=list(exp))
    elif not _same_spelling((got[0], got[1], 0), (exp[0], exp[1], 0)):
        o.add("transpose-note-alter-wrong", spec=spec, got=[got[0], _jsonable(got[1])], expected=list(exp))
    else:
        # agrees with the full transposition of a Note in any octave (same diatonic arithmetic)
        pc = call(M.step2pc, got[0], got[1])
        want = (R.BASE[step] + alter + R.semitones(n, q)) % 12
        if pc != want:
            o.add("transpose-note-pitch-class-wrong", spec=spec, got=_jsonable(pc), expected=want)
    return o


# ===========================================================================
# 3. sampled scores and bare parts
# ===========================================================================
PROFILE = G.profile(
    max_bars=3,
    max_voices=2,
    max_staves=2,
    midbar_changes=False,
    alters=(-2, -1, -1, 0, 0, 0, 0, 1, 1, 2),
    chords=True,
    ties=True,
    grace=True,
    tuplets=True,
)
ALL_INTERVALS = [[n, q, d] for (n, q) in INTERVALS for d in ("up", "down")]


def _pitched(n):
    return n["kind"] in ("note", "grace")


@st.composite
def _strat_sampled(draw, tier):
    prof = dict(PROFILE)
    if tier == "thorough":
        prof["max_bars"] = 5
        prof["max_voices"] = 3
    arg = draw(st.sampled_from(["score", "score", "part"]))
    nparts = 1 if arg == "part" else draw(st.sampled_from([1, 1, 2]))
    parts = []
    for i in range(nparts):
        ps = draw(G.part_spec(prof, pid="P%d" % (i + 1), note_prefix="p%dn" % i))
        # more tie chains than the shared generator draws: tie the first notes of successive
        # events of a voice (a tie continues the same pitch, so the later note takes it over)
        boost = draw(st.integers(0, 3))
        if boost:
            last = {}
            for n in ps["notes"]:
                if n["kind"] != "note":
                    continue
                v = n["voice"]
                prev = last.get(v)
                if prev is not None and prev["t"] == n["t"]:
                    continue  # further chord member
                if (
                    prev is not None
                    and prev["t"] + prev["dur"] == n["t"]
                    and "tie_next" not in prev
                    and "tie_prev" not in n
                    and "tie_next" not in n
                ):
                    chord = [x for x in ps["notes"] if x is not n and x["kind"] == "note" and x["voice"] == v and x["t"] == n["t"]]
                    pp = (prev["step"], prev["alter"] or 0, prev["octave"])
                    clash = any((x["step"], x["alter"] or 0, x["octave"]) == pp for x in chord)
                    if not clash and draw(st.integers(0, 3)) < boost:
                        n["step"], n["alter"], n["octave"] = prev["step"], prev["alter"], prev["octave"]
                        prev["tie_next"] = n["id"]
                        n["tie_prev"] = prev["id"]
                last[v] = n
        if draw(st.booleans()):
            for n in ps["notes"]:
                if _pitched(n) and n["alter"] == 0:
                    n["alter"] = None  # importer style natural
        parts.append(ps)
    if nparts == 2 and draw(st.integers(0, 2)) == 0:
        # two distinct parts carrying the same part id (e.g. a score assembled from two files)
        parts[1]["id"] = parts[0]["id"]
    return {
        "arg": arg,
        "parts": parts,
        "group": bool(arg == "score" and draw(st.integers(0, 2)) == 0),
        "interval": draw(st.sampled_from(ALL_INTERVALS)),
    }


def strat_sampled(tier):
    return _strat_sampled(tier)


def _build_arg(spec):
    if spec["arg"] == "part":
        part, _ = build_part(spec["parts"][0])
        return part, [part]
    sspec = {"parts": spec["parts"], "id": "sc"}
    if spec.get("group"):
        sspec["groups"] = [{"symbol": "bracket", "name": "grp", "number": 1, "children": list(range(len(spec["parts"])))}]
    score, parts, _ = build_score(sspec)
    return score, parts


def _notes_by_id(obj):
    """[{note id: Note}] per part."""
    parts = obj.parts if isinstance(obj, S.Score) else [obj]
    return [dict((x.id, x) for x in p.notes) for p in parts]


def _transpose_leg(o, arg, iv, interval, src_tab, leg, judged_ids):
    """Transpose `arg`, check result and argument. src_tab: per part {id: (spelling, tie_prev, kind)}.

    Returns (result or None, set of (part index, id) whose result spelling is right).
    """
    before = arg_fp(arg, True, False, True)
    before_sem = arg_fp(arg, False, True, False)
    in_tab = [dict((nid, spelling(x)) for nid, x in tab.items()) for tab in _notes_by_id(arg)]
    res = call(M.transpose, arg, iv)
    after = arg_fp(arg, True, False, True)
    modified = before != after
    pitch_only = modified and _mask_again(before) == _mask_again(after)
    if type(res) is not type(arg) or res is arg:
        if modified:
            o.add("argument-modified", where=first_diff(before, after), leg=leg, pitch_only=pitch_only, arg=type(arg).__name__)
        o.add("result-not-a-new-object-of-the-argument-type", got=type(res).__name__, same_object=res is arg, leg=leg)
        return None, set()
    if live_ids(res) & live_ids(arg):
        o.add("result-shares-objects-with-argument", leg=leg)
    after_sem = arg_fp(res, False, True, False)
    got_tab = _notes_by_id(res)
    if after_sem != before_sem:
        o.add("non-pitch-content-changed", where=first_diff(before_sem, after_sem), leg=leg)
        if len(got_tab) != len(in_tab) or any(set(a) != set(b) for a, b in zip(got_tab, in_tab)):
            if modified:
                o.add("argument-modified", where=first_diff(before, after), leg=leg, pitch_only=pitch_only, arg=type(arg).__name__)
            return None, set()
    n, q, d = interval
    todo = [(pi, nid) for pi, tab in enumerate(src_tab) for nid in tab if (pi, nid) in judged_ids]
    # the signature of "the argument was transposed instead of the copy": the argument's pitches
    # changed while the returned object has exactly the pitches the argument had.  One root
    # cause, reported once (not once per note); nothing sensible can be checked after it.
    untouched = all(_same_spelling(spelling(got_tab[pi][nid]), sp) for pi, tab in enumerate(in_tab) for nid, sp in tab.items())
    if pitch_only and untouched and any(tab for tab in in_tab):
        o.add("argument-transposed-instead-of-result", where=first_diff(before, after), leg=leg, arg=type(arg).__name__, judged_notes=len(todo))
        return None, set()
    if modified:
        o.add("argument-modified", where=first_diff(before, after), leg=leg, pitch_only=pitch_only, arg=type(arg).__name__)
    right = set()
    for (pi, nid) in todo:
        src, tie_prev, kind = src_tab[pi][nid]
        exp = R.transpose_spelling(src[0], src[1], src[2], n, q, d)
        got = spelling(got_tab[pi][nid])
        if judge_note(o, src, got, exp, interval, tied_continuation=tie_prev is not None, note=nid, part=pi, tie_prev=tie_prev, note_kind=kind, leg=leg):
            right.add((pi, nid))
    return res, right


def _norm(sp):
    return (sp[0], sp[1] or 0, sp[2])


def oracle_sampled(spec):
    o = Outcome()
    n, q, d = spec["interval"]
    interval = [n, q, d]
    arg, parts = _build_arg(spec)
    src_tab = []
    judged = set()
    n_pitched = n_excl = 0
    crossing = False
    for pi, ps in enumerate(spec["parts"]):
        tab = {}
        for x in ps["notes"]:
            if not _pitched(x):
                continue
            sp = (x["step"], x["alter"], x["octave"])
            tab[x["id"]] = (sp, x.get("tie_prev"), x["kind"])
            n_pitched += 1
            exp = R.transpose_spelling(sp[0], sp[1], sp[2], n, q, d)
            if abs(exp[1]) <= MAX_ALTER:
                judged.add((pi, x["id"]))
                crossing = crossing or exp[2] != sp[2]
            else:
                n_excl += 1
        src_tab.append(tab)
    allnotes = [x for ps in spec["parts"] for x in ps["notes"]]
    has_tie = any(x.get("tie_prev") for x in allnotes)
    has_chain3 = any(x.get("tie_prev") and x.get("tie_next") for x in allnotes)
    has_grace = any(x["kind"] == "grace" for x in allnotes)
    onsets = {}
    for pi, ps in enumerate(spec["parts"]):
        for x in ps["notes"]:
            if x["kind"] == "note":
                onsets[(pi, x["voice"], x["t"])] = onsets.get((pi, x["voice"], x["t"]), 0) + 1
    has_chord = any(v > 1 for v in onsets.values())
    identity = (n, q) == (1, "P")
    o.nontrivial = (not identity) and bool(judged) and (has_tie or has_grace or has_chord)
    o.cls("arg-" + spec["arg"])
    o.cls("direction-" + d)
    o.cls("tie-chain", has_tie)
    o.cls("tie-chain-of-3-or-more", has_chain3)
    o.cls("grace-notes", has_grace)
    o.cls("chords", has_chord)
    o.cls("two-parts", len(spec["parts"]) > 1)
    o.cls("part-group", bool(spec.get("group")))
    o.cls("identity-interval-P1", identity)
    o.cls("octave-crossing-note", crossing)
    o.cls("altered-notes", any(_pitched(x) and x["alter"] not in (0, None) for x in allnotes))
    o.cls("all-notes-judged", n_excl == 0 and n_pitched > 0)
    o.cls("tied-continuation-judged", any((pi, nid) in judged and v[1] is not None for pi, tab in enumerate(src_tab) for nid, v in tab.items()))
    if n_excl:
        o.excluded.append("notes-whose-result-needs-more-than-a-double-accidental")
    if n_pitched == 0:
        o.excluded.append("no-pitched-note")

    iv = call(S.Interval, n, q, d)
    res, right = _transpose_leg(o, arg, iv, interval, src_tab, 1, judged)
    if res is None:
        return o
    # and back again by the same interval: the original spelling returns.  Judged per note as a
    # second transposition of the notes the first leg got right (the reference arithmetic is
    # its own inverse: checked here, a failure of that would be a harness error).
    back = [n, q, R.opposite(d)]
    mid_tab = []
    for pi, tab in enumerate(src_tab):
        t2 = {}
        for nid, (sp, tie_prev, kind) in tab.items():
            e1 = R.transpose_spelling(sp[0], sp[1], sp[2], n, q, d)
            e2 = R.transpose_spelling(e1[0], e1[1], e1[2], n, q, back[2])
            if e2 != _norm(sp):
                raise AssertionError("reference arithmetic is not its own inverse: %r" % ((sp, interval),))
            t2[nid] = (e1, tie_prev, kind)
        mid_tab.append(t2)
    iv2 = call(S.Interval, n, q, back[2])
    o.cls("second-leg-run")
    _transpose_leg(o, res, iv2, back, mid_tab, 2, right)
    return o


KNOWN_SAMPLED = dict(KNOWN_NOTE)
KNOWN_SAMPLED["tie-continuation-skipped"] = known_tie_continuation
KNOWN_SAMPLED["part-argument-in-place"] = known_part_inplace


SUBCHECKS = [
    SubCheck(
        "grid_score",
        oracle_grid,
        enumerate=enum_grid,
        rule="exhaustive: 7 steps x alter {-2,-1,0,None,1,2} x octaves 0..8 x 39 interval classes x {up,down} through transpose(Score) on a one-note score; judged where the correct result has |alter| <= 2 (others counted as excluded); non-trivial = judged and (source altered, or downward, or octave changes)",
        known=KNOWN_NOTE,
    ),
    SubCheck(
        "grid_transpose_note",
        oracle_tn,
        enumerate=enum_tn,
        shards=2,
        rule="exhaustive: 7 steps x alter -2..2 x 39 interval classes x {up,down} through transpose_note; up with result |alter| <= 2 must equal the diatonic arithmetic, everything else must be rejected (AssertionError, as documented) or still be right; non-trivial = altered source inside the documented domain",
    ),
    SubCheck(
        "scores_and_parts",
        oracle_sampled,
        strategy=strat_sampled,
        budget={"quick": 160, "thorough": 2500},
        rule="generated scores (1-2 parts, optional part group) and bare parts with tie chains, chords, grace notes, 1-2 voices/staves, alterations -2..2, any of the 78 directed interval classes; transposed and transposed back; every pitched note judged by id (|alter'| <= 2), everything else by fingerprint, argument by identity fingerprint; non-trivial = interval other than P1 and a tie chain, grace note or chord present",
        known=KNOWN_SAMPLED,
        floors={"tie-chain": 0.15, "grace-notes": 0.05, "chords": 0.15, "arg-part": 0.15, "arg-score": 0.3, "direction-down": 0.25, "tied-continuation-judged": 0.1},
    ),
]
