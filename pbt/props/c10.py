"""C10 - signature, clef and measure maps return what is in force at the queried time."""

from fractions import Fraction

import numpy as np
from hypothesis import strategies as st

import partitura.score as S
from pbt.core import Outcome, SubCheck, SutRaised, call
from pbt.gen import scorespec as G
from pbt.gen.build import build_part

PROPERTY = "C10"
ENGINES = ["hypothesis"]
ASSUMPTIONS = [
    "measures are contiguous from position 0; queries are the integer positions inside measures",
    "pickup extent is judged only when the divisions do not change inside the first measure and a time signature stands at position 0 (otherwise 'a full bar before the first barline' is not defined on the timeline)",
    "metrical positions of single-measure parts are not judged (the library documents 0 everywhere with a warning)",
    "clef line is an int as documented",
]

PROFILE = G.profile(max_bars=5, max_voices=2, max_staves=3, midbar_changes=True, irregular=True, grace=False, ties=False, tuplets=False)
CLEF_CODE = {"G": 0, "F": 1, "C": 2, "percussion": 3, "TAB": 4, "jianpu": 5, "none": 6}


def strat(tier):
    prof = dict(PROFILE)
    if tier == "thorough":
        prof["max_bars"] = 8
    return st.fixed_dictionaries(
        {
            "part": G.part_spec(prof),
            "drop_ts": st.sampled_from(["none", "none", "none", "first", "all", "all-but-last"]),
            "drop_ks_first": st.booleans(),
            "drop_clefs": st.sampled_from(["none", "none", "none", "first-per-staff", "all"]),
            "musical": st.booleans(),
            "number_offset": st.integers(0, 3),
            # first measure numbered 0 (the usual number of a pickup, zero-based numbering), 1 or higher
            "number_shift": st.sampled_from([-1, -1, 0, 0, 0, 3]),
        }
    )


def in_force(rows, t):
    """rows sorted by time: latest row with time <= t, the first row for earlier t, None if empty."""
    cur = None
    for r in rows:
        if r[0] <= t:
            cur = r
    if cur is None and rows:
        cur = rows[0]
    return cur


def oracle(spec):
    o = Outcome()
    ps = dict(spec["part"])
    # ---- apply the variations to the abstract part --------------------------------
    tsigs = sorted(ps["timesigs"])
    if spec["drop_ts"] == "first" and len(tsigs) > 1:
        tsigs = tsigs[1:]
    elif spec["drop_ts"] == "all":
        tsigs = []
    elif spec["drop_ts"] == "all-but-last":
        tsigs = tsigs[-1:]
    ksigs = sorted(ps["keysigs"], key=lambda x: x[0])
    if spec["drop_ks_first"] and len(ksigs) > 1:
        ksigs = ksigs[1:]
    clefs = sorted(ps["clefs"], key=lambda x: (x[0], x[1]))
    if spec["drop_clefs"] == "all":
        clefs = []
    elif spec["drop_clefs"] == "first-per-staff":
        seen, keep = set(), []
        for c in clefs:
            if c[1] in seen:
                keep.append(c)
            seen.add(c[1])
        clefs = keep
    measures = [[m[0], m[1], m[2] + spec.get("number_shift", spec["number_offset"]) + spec["number_offset"] * i, m[3]] for i, m in enumerate(ps["measures"])]
    ps["timesigs"], ps["keysigs"], ps["clefs"], ps["measures"] = tsigs, ksigs, clefs, measures
    part, _ = build_part(ps)
    musical = spec["musical"]
    if musical:
        call(part.use_musical_beat)
    ref = G.PartRef(dict(ps, timesigs=tsigs or [[0, 4, 4]]))
    end = ps["end"]
    ts_q = np.arange(0, end)
    # scalar queries: all change points and their neighbours, bar lines, ends and an even sample
    interesting = set([0, end - 1])
    for r in list(tsigs) + list(ksigs) + list(clefs) + [[m[0]] for m in measures] + [[m[1]] for m in measures]:
        interesting.update([r[0] - 1, r[0], r[0] + 1])
    interesting.update(range(0, end, max(1, end // 12)))
    scalar_ts = set(t for t in interesting if 0 <= t < end)
    first_ts_late = bool(tsigs) and tsigs[0][0] > 0
    first_ks_late = bool(ksigs) and ksigs[0][0] > 0
    note_onsets = set(n["t"] for n in ps["notes"])
    change_pts = [r[0] for r in tsigs[1:]] + [r[0] for r in ksigs[1:]] + [r[0] for r in clefs if r[0] > 0]
    o.nontrivial = first_ts_late or first_ks_late or any(p not in note_onsets for p in change_pts)
    o.cls("single-late-time-signature", len(tsigs) == 1 and tsigs[0][0] > 0)
    o.cls("no-time-signature", not tsigs)
    o.cls("no-key-signature", not ksigs)
    o.cls("no-clef-at-all", not clefs)
    o.cls("pickup", ps["pickup"] is not None)
    o.cls("measure-numbered-0", any(m[2] == 0 for m in measures))
    o.cls("musical-beat-mode", musical)

    # ---- time signatures ---------------------------------------------------------------
    tsm = call(lambda: part.time_signature_map)
    arr = np.asarray(call(tsm, ts_q))
    for i, t in enumerate(ts_q):
        r = in_force(tsigs, t)
        b, bt = (r[1], r[2]) if r else (4, 4)
        mb = G.MUSICAL_BEATS.get(b, b)
        got = arr[i]
        if got.shape[0] < 2 or not (got[0] == b and got[1] == bt):
            o.add("time-signature-map-wrong", t=int(t), got=[float(x) for x in got], expected=[b, bt], n_ts=len(tsigs), first_ts=tsigs[0][0] if tsigs else None)
            break
        if got.shape[0] > 2 and got[2] != mb:
            o.add("time-signature-map-musical-beats-wrong", t=int(t), got=float(got[2]), expected=mb)
            break
        sc = np.asarray(call(tsm, int(t))) if int(t) in scalar_ts else got
        if not np.array_equal(sc, got, equal_nan=True):
            o.add("time-signature-map-scalar-array-disagree", t=int(t))
            break
    # ---- key signatures ------------------------------------------------------------------
    ksm = call(lambda: part.key_signature_map)
    arr = np.asarray(call(ksm, ts_q))
    for i, t in enumerate(ts_q):
        r = in_force(ksigs, t)
        f, mode = (r[1], r[2]) if r else (0, "major")
        exp = [f, -1 if mode == "minor" else 1]
        got = arr[i]
        if [float(x) for x in got] != [float(x) for x in exp]:
            o.add("key-signature-map-wrong", t=int(t), got=[float(x) for x in got], expected=exp)
            break
        sc = np.asarray(call(ksm, int(t))) if int(t) in scalar_ts else got
        if not np.array_equal(sc, got, equal_nan=True):
            o.add("key-signature-map-scalar-array-disagree", t=int(t))
            break
    # ---- clefs -------------------------------------------------------------------------------
    nstaves = max([1] + [n["staff"] for n in ps["notes"] if n.get("staff")] + [c[1] for c in clefs])
    o.cls("staff-without-clef", any(not [c for c in clefs if c[1] == s] for s in range(1, nstaves + 1)) and bool(clefs))
    cm = call(lambda: part.clef_map)
    arr = np.asarray(call(cm, ts_q))  # (staves, n, 4)
    if arr.ndim != 3 or arr.shape[0] != nstaves:
        o.add("clef-map-bad-shape", shape=list(arr.shape), staves=nstaves)
    else:
        for s in range(1, nstaves + 1):
            rows = [c for c in clefs if c[1] == s]
            bad = False
            for i, t in enumerate(ts_q):
                r = in_force(rows, t)
                exp = [s, CLEF_CODE[r[2]], r[3], r[4] or 0] if r else [s, 6, 0, 0]
                got = [int(x) for x in arr[s - 1][i]]
                if got != exp:
                    o.add("clef-map-wrong", t=int(t), staff=s, got=got, expected=exp)
                    bad = True
                    break
                if int(t) not in scalar_ts:
                    continue
                sc = np.asarray(call(cm, int(t)))
                if [int(x) for x in sc[s - 1]] != got:
                    o.add("clef-map-scalar-array-disagree", t=int(t), staff=s)
                    bad = True
                    break
            if bad:
                break
    # ---- measures --------------------------------------------------------------------------------
    if not tsigs or tsigs[0][0] > 0:
        o.excluded.append("measure-maps-without-time-signature-at-0")
        return o
    m0 = measures[0]
    b0, bt0 = tsigs[0][1], tsigs[0][2]
    d0 = ref.divs_at(0)
    div_change_in_first = any(0 < t < max(m0[1], 1) for t, _ in ps["divs"])
    full = Fraction(b0 * 4, bt0) * d0
    exp_meas = [list(m) for m in measures]
    pickup = False
    if (m0[1] - m0[0]) < full and not div_change_in_first:
        pickup = True
        exp_meas[0][0] = m0[1] - int(full) if full.denominator == 1 else None
    elif div_change_in_first:
        o.excluded.append("pickup-extent-with-division-change-in-first-measure")
        return o
    o.cls("pickup-in-musical-beat-mode", pickup and musical)
    o.cls("first-measure-short", pickup)
    mm = call(lambda: part.measure_map)
    mnm = call(lambda: part.measure_number_map)
    arr = np.asarray(call(mm, ts_q))
    nums = np.asarray(call(mnm, ts_q))
    for i, t in enumerate(ts_q):
        m = [x for x in exp_meas if x[0] is not None and (x[0] <= t < x[1])]
        if not m:
            continue
        m = m[-1]
        if [int(x) for x in arr[i]] != [m[0], m[1]]:
            o.add("measure-map-wrong", t=int(t), got=[int(x) for x in arr[i]], expected=[m[0], m[1]], pickup=pickup, musical=musical)
            break
        if int(nums[i]) != m[2]:
            o.add("measure-number-map-wrong", t=int(t), got=int(nums[i]), expected=m[2])
            break
        if int(t) not in scalar_ts:
            continue
        sc = np.asarray(call(mm, int(t)))
        if [int(x) for x in sc] != [int(x) for x in arr[i]]:
            o.add("measure-map-scalar-array-disagree", t=int(t))
            break
        if int(call(mnm, int(t))) != int(nums[i]):
            o.add("measure-number-map-scalar-array-disagree", t=int(t))
            break
    if len(measures) < 2:
        o.excluded.append("metrical-position-of-single-measure-part")
        return o
    mpm = call(lambda: part.metrical_position_map)
    arr = np.asarray(call(mpm, ts_q))
    for i, t in enumerate(ts_q):
        m = [x for x in exp_meas if x[0] is not None and (x[0] <= t < x[1])]
        if not m:
            continue
        m = m[-1]
        exp = [int(t) - m[0], m[1] - m[0]]
        if [int(x) for x in arr[i]] != exp:
            o.add("metrical-position-map-wrong", t=int(t), got=[int(x) for x in arr[i]], expected=exp, pickup=pickup, musical=musical)
            break
        if int(t) not in scalar_ts:
            continue
        sc = call(mpm, int(t))
        if [int(sc[0]), int(sc[1])] != exp:
            o.add("metrical-position-map-scalar-array-disagree", t=int(t), got=[int(sc[0]), int(sc[1])])
            break
    return o


SUBCHECKS = [
    SubCheck(
        "maps",
        oracle,
        strategy=strat,
        budget={"quick": 400, "thorough": 5000},
        rule="generated parts (0-n time/key signatures, clefs on 1-3 staves incl. staves without clef and no clef at all, irregular measures, pickups, first element late or missing, notated/musical beat mode); six maps queried at every integer position as scalar and array; non-trivial = an element changes where no note starts or a query lies before the first element of its kind",
        floors={"single-late-time-signature": 0.02, "no-clef-at-all": 0.03, "staff-without-clef": 0.03, "pickup": 0.05, "measure-numbered-0": 0.1},
    ),
]
