"""C10 - signature, clef and measure maps return what is in force at the queried time."""

from fractions import Fraction

import numpy as np
from hypothesis import strategies as st

import partitura.score as S
from pbt.core import Outcome, SubCheck, SutRaised, call
from pbt.gen import scorespec as G
from pbt.gen.build import build_part

PROPERTY = "C10"
ENGINES = ["hypothesis"]
ASSUMPTIONS = [
    "measures are contiguous from position 0; queries are the integer positions inside measures",
    "pickup extent is judged only when the divisions do not change inside the first measure and a time signature stands at position 0 (otherwise 'a full bar before the first barline' is not defined on the timeline)",
    "metrical positions of single-measure parts are not judged (the library documents 0 everywhere with a warning)",
    "clef line is an int as documented, or None as load_musicxml creates it for a clef without <line> (then the line column of the clef map is not judged, the other columns are)",
    "when no time signature stands at position 0 or the divisions change inside the first measure only the extent of the first measure is left unjudged; later measures are judged",
    "note-array columns are compared with the maps at the note onsets (agreement, not an independent reference: that is C05)",
]

PROFILE = G.profile(max_bars=5, max_voices=2, max_staves=3, midbar_changes=True, irregular=True, grace=False, ties=False, tuplets=False)
CLEF_CODE = {"G": 0, "F": 1, "C": 2, "percussion": 3, "TAB": 4, "jianpu": 5, "none": 6}


def strat(tier):
    prof = dict(PROFILE)
    if tier == "thorough":
        prof["max_bars"] = 8
    return st.fixed_dictionaries(
        {
            "part": G.part_spec(prof),
            "drop_ts": st.sampled_from(["none", "none", "none", "first", "all", "all-but-last"]),
            "drop_ks_first": st.booleans(),
            "drop_clefs": st.sampled_from(["none", "none", "none", "first-per-staff", "all"]),
            "musical": st.booleans(),
            "number_offset": st.integers(0, 3),
            # first measure numbered 0 (the usual number of a pickup, zero-based numbering), 1 or higher
            "number_shift": st.sampled_from([-1, -1, 0, 0, 0, 3]),
            # other documented spellings of the mode (key_mode_to_int: 'major', 'minor', None, 'none', 1, -1): [index, mode]
            "ks_mode_alt": st.lists(st.tuples(st.integers(0, 3), st.sampled_from(["none", 1, -1])), max_size=2),
            # clef variations [index, kind]: octave_change None (MusicXML clef without <clef-octave-change>), the signs
            # 'none' and 'jianpu', line None (MusicXML percussion / TAB / none clef without <line>)
            "clef_var": st.lists(st.tuples(st.integers(0, 5), st.sampled_from(["oc-none", "oc-none", "sign-none", "sign-jianpu", "line-none"])), max_size=3),
            # user-supplied musical beats [index of one of the part's signatures, beats], used when "musical" is on
            "mbeats_rel": st.one_of(st.just([]), st.lists(st.tuples(st.integers(0, 5), st.integers(1, 6)), min_size=1, max_size=2)),
            # argument type tried besides int arrays and python ints
            "arg_type": st.sampled_from(["list", "list", "float-array", "numpy-scalar", "python-float"]),
            "with_note_array": st.booleans(),
        }
    )


def _as_arg(ts, kind):
    ints = [int(t) for t in ts]
    if kind == "list":
        return ints
    return np.asarray(ints, dtype=float)


def in_force(rows, t):
    """rows sorted by time: latest row with time <= t, the first row for earlier t, None if empty."""
    cur = None
    for r in rows:
        if r[0] <= t:
            cur = r
    if cur is None and rows:
        cur = rows[0]
    return cur


def _check_clefs(o, part, clefs, nstaves, ts_q, scalar_ts, at):
    cm = call(lambda: part.clef_map)
    arr = np.asarray(call(cm, ts_q))  # (staves, n, 4)
    if arr.ndim != 3 or arr.shape[0] != nstaves:
        o.add("clef-map-bad-shape", shape=list(arr.shape), staves=nstaves)
        return
    if at in ("list", "float-array"):
        other = np.asarray(call(cm, _as_arg(ts_q, at)))
        if other.shape != arr.shape or not np.array_equal(other, arr):
            o.add("clef-map-argument-type-changes-value", arg_type=at)
    for s in range(1, nstaves + 1):
        rows = [c for c in clefs if c[1] == s]
        for i, t in enumerate(ts_q):
            r = in_force(rows, t)
            exp = [s, CLEF_CODE[r[2]], r[3], r[4] or 0] if r else [s, 6, 0, 0]
            got = [int(x) for x in arr[s - 1][i]]
            if exp[2] is None:
                # a clef without a line: the line column has no defined value
                exp[2] = got[2]
            if got != exp:
                o.add("clef-map-wrong", t=int(t), staff=s, got=got, expected=exp)
                return
            if int(t) not in scalar_ts:
                continue
            sc = np.asarray(call(cm, int(t)))
            if [int(x) for x in sc[s - 1]] != got:
                o.add("clef-map-scalar-array-disagree", t=int(t), staff=s)
                return
            if at in ("numpy-scalar", "python-float"):
                sc = np.asarray(call(cm, np.int64(t) if at == "numpy-scalar" else float(t)))
                if [int(x) for x in sc[s - 1]] != got:
                    o.add("clef-map-argument-type-changes-value", t=int(t), staff=s, arg_type=at)
                    return


def oracle(spec):
    o = Outcome()
    ps = dict(spec["part"])
    # ---- apply the variations to the abstract part --------------------------------
    tsigs = sorted(ps["timesigs"])
    if spec["drop_ts"] == "first" and len(tsigs) > 1:
        tsigs = tsigs[1:]
    elif spec["drop_ts"] == "all":
        tsigs = []
    elif spec["drop_ts"] == "all-but-last":
        tsigs = tsigs[-1:]
    ksigs = sorted(ps["keysigs"], key=lambda x: x[0])
    if spec["drop_ks_first"] and len(ksigs) > 1:
        ksigs = ksigs[1:]
    ksigs = [list(k) for k in ksigs]
    for (i, alt) in spec.get("ks_mode_alt") or []:
        if ksigs:
            ksigs[i % len(ksigs)][2] = alt
    clefs = [list(c) for c in sorted(ps["clefs"], key=lambda x: (x[0], x[1]))]
    for (i, kind) in spec.get("clef_var") or []:
        if not clefs:
            break
        c = clefs[i % len(clefs)]
        if kind == "oc-none":
            c[4] = None
        elif kind == "sign-none":
            c[2] = "none"
        elif kind == "sign-jianpu":
            c[2] = "jianpu"
        elif kind == "line-none" and c[2] in ("percussion", "TAB", "none"):
            c[3] = None
    if spec["drop_clefs"] == "all":
        clefs = []
    elif spec["drop_clefs"] == "first-per-staff":
        seen, keep = set(), []
        for c in clefs:
            if c[1] in seen:
                keep.append(c)
            seen.add(c[1])
        clefs = keep
    measures = [[m[0], m[1], m[2] + spec.get("number_shift", spec["number_offset"]) + spec["number_offset"] * i, m[3]] for i, m in enumerate(ps["measures"])]
    ps["timesigs"], ps["keysigs"], ps["clefs"], ps["measures"] = tsigs, ksigs, clefs, measures
    part, _ = build_part(ps)
    musical = spec["musical"]
    user_mb = {}
    if musical:
        for (i, v) in spec.get("mbeats_rel") or []:
            if tsigs:
                r = tsigs[i % len(tsigs)]
                user_mb["%d/%d" % (r[1], r[2])] = v
        if user_mb:
            call(part.use_musical_beat, dict(user_mb))
        else:
            call(part.use_musical_beat)
    ref = G.PartRef(dict(ps, timesigs=tsigs or [[0, 4, 4]]))
    end = ps["end"]
    ts_q = np.arange(0, end)
    ts_in_force = np.arange(0, end + 1)  # the in-force maps also at the last time point
    at = spec.get("arg_type")
    o.cls("argument-type-" + str(at), bool(at))
    # scalar queries: all change points and their neighbours, bar lines, ends and an even sample
    interesting = set([0, end - 1])
    for r in list(tsigs) + list(ksigs) + list(clefs) + [[m[0]] for m in measures] + [[m[1]] for m in measures]:
        interesting.update([r[0] - 1, r[0], r[0] + 1])
    interesting.update(range(0, end, max(1, end // 12)))
    scalar_ts = set(t for t in interesting if 0 <= t < end)
    first_ts_late = bool(tsigs) and tsigs[0][0] > 0
    first_ks_late = bool(ksigs) and ksigs[0][0] > 0
    note_onsets = set(n["t"] for n in ps["notes"])
    change_pts = [r[0] for r in tsigs[1:]] + [r[0] for r in ksigs[1:]] + [r[0] for r in clefs if r[0] > 0]
    o.nontrivial = first_ts_late or first_ks_late or any(p not in note_onsets for p in change_pts)
    o.cls("single-late-time-signature", len(tsigs) == 1 and tsigs[0][0] > 0)
    o.cls("no-time-signature", not tsigs)
    o.cls("no-key-signature", not ksigs)
    o.cls("no-clef-at-all", not clefs)
    o.cls("pickup", ps["pickup"] is not None)
    o.cls("measure-numbered-0", any(m[2] == 0 for m in measures))
    o.cls("musical-beat-mode", musical)
    o.cls("user-supplied-musical-beats", bool(user_mb))
    o.cls("key-mode-spelled-none-or-int", any(k[2] in ("none", 1, -1) for k in ksigs))
    o.cls("clef-octave-change-none", any(c[4] is None for c in clefs))
    o.cls("clef-sign-none-or-jianpu", any(c[2] in ("none", "jianpu") for c in clefs))
    o.cls("clef-without-line", any(c[3] is None for c in clefs))

    # ---- time signatures ---------------------------------------------------------------
    tsm = call(lambda: part.time_signature_map)
    arr = np.asarray(call(tsm, ts_in_force))
    if at in ("list", "float-array"):
        other = np.asarray(call(tsm, _as_arg(ts_in_force, at)))
        if other.shape != arr.shape or not np.array_equal(other, arr, equal_nan=True):
            o.add("time-signature-map-argument-type-changes-value", arg_type=at)
    for i, t in enumerate(ts_in_force):
        r = in_force(tsigs, t)
        b, bt = (r[1], r[2]) if r else (4, 4)
        mb = user_mb.get("%d/%d" % (b, bt), G.MUSICAL_BEATS.get(b, b))
        got = arr[i]
        if got.shape[0] < 2 or not (got[0] == b and got[1] == bt):
            o.add("time-signature-map-wrong", t=int(t), got=[float(x) for x in got], expected=[b, bt], n_ts=len(tsigs), first_ts=tsigs[0][0] if tsigs else None)
            break
        if got.shape[0] > 2 and got[2] != mb:
            o.add("time-signature-map-musical-beats-wrong", t=int(t), got=float(got[2]), expected=mb)
            break
        sc = np.asarray(call(tsm, int(t))) if int(t) in scalar_ts else got
        if not np.array_equal(sc, got, equal_nan=True):
            o.add("time-signature-map-scalar-array-disagree", t=int(t))
            break
        if int(t) in scalar_ts and at in ("numpy-scalar", "python-float"):
            sc = np.asarray(call(tsm, np.int64(t) if at == "numpy-scalar" else float(t)))
            if not np.array_equal(sc, got, equal_nan=True):
                o.add("time-signature-map-argument-type-changes-value", t=int(t), arg_type=at)
                break
    # ---- key signatures ------------------------------------------------------------------
    ksm = call(lambda: part.key_signature_map)
    arr = np.asarray(call(ksm, ts_in_force))
    if at in ("list", "float-array"):
        other = np.asarray(call(ksm, _as_arg(ts_in_force, at)))
        if other.shape != arr.shape or not np.array_equal(other, arr, equal_nan=True):
            o.add("key-signature-map-argument-type-changes-value", arg_type=at, single_element_table=len(ksigs) == 1 and ksigs[0][0] == 0,
                  got_shape=list(other.shape), expected_shape=list(arr.shape))
    for i, t in enumerate(ts_in_force):
        r = in_force(ksigs, t)
        f, mode = (r[1], r[2]) if r else (0, "major")
        exp = [f, -1 if mode in ("minor", -1) else 1]
        got = arr[i]
        if [float(x) for x in got] != [float(x) for x in exp]:
            o.add("key-signature-map-wrong", t=int(t), got=[float(x) for x in got], expected=exp)
            break
        sc = np.asarray(call(ksm, int(t))) if int(t) in scalar_ts else got
        if not np.array_equal(sc, got, equal_nan=True):
            o.add("key-signature-map-scalar-array-disagree", t=int(t))
            break
        if int(t) in scalar_ts and at in ("numpy-scalar", "python-float"):
            sc = np.asarray(call(ksm, np.int64(t) if at == "numpy-scalar" else float(t)))
            if not np.array_equal(sc, got, equal_nan=True):
                o.add("key-signature-map-argument-type-changes-value", t=int(t), arg_type=at)
                break
    # ---- clefs -------------------------------------------------------------------------------
    nstaves = max([1] + [n["staff"] for n in ps["notes"] if n.get("staff")] + [c[1] for c in clefs])
    o.cls("staff-without-clef", any(not [c for c in clefs if c[1] == s] for s in range(1, nstaves + 1)) and bool(clefs))
    try:
        _check_clefs(o, part, clefs, nstaves, ts_in_force, scalar_ts, at)
    except SutRaised as e:
        # reported, and the measure maps below are still judged
        o.add("clef-map-" + e.kind, text=e.text, clef_without_line=any(c[3] is None for c in clefs))
    # ---- agreement with the note-array columns derived from the maps ---------------------------
    if spec.get("with_note_array") and any(n["kind"] == "note" for n in ps["notes"]):
        o.cls("note-array-columns-compared")
        _check_note_array(o, part, len(measures))
    # ---- measures --------------------------------------------------------------------------------
    m0 = measures[0]
    exp_meas = [list(m) for m in measures]
    pickup = False
    div_change_in_first = any(0 < t < max(m0[1], 1) for t, _ in ps["divs"])
    if not tsigs or tsigs[0][0] > 0:
        # the extent of the first measure is not judged (no signature at 0); the later measures are
        o.excluded.append("measure-maps-without-time-signature-at-0")
        exp_meas[0][0] = None
    elif div_change_in_first:
        o.excluded.append("pickup-extent-with-division-change-in-first-measure")
        exp_meas[0][0] = None
    else:
        b0, bt0 = tsigs[0][1], tsigs[0][2]
        full = Fraction(b0 * 4, bt0) * ref.divs_at(0)
        if (m0[1] - m0[0]) < full:
            pickup = True
            exp_meas[0][0] = m0[1] - int(full) if full.denominator == 1 else None
    if exp_meas[0][0] is None and len(measures) < 2:
        return o
    o.cls("later-measures-judged-although-first-extent-unknown", exp_meas[0][0] is None)
    o.cls("pickup-in-musical-beat-mode", pickup and musical)
    o.cls("first-measure-short", pickup)
    mm = call(lambda: part.measure_map)
    mnm = call(lambda: part.measure_number_map)
    arr = np.asarray(call(mm, ts_q))
    nums = np.asarray(call(mnm, ts_q))
    if at in ("list", "float-array"):
        other = np.asarray(call(mm, _as_arg(ts_q, at)))
        if other.shape != arr.shape or not np.array_equal(other, arr):
            o.add("measure-map-argument-type-changes-value", arg_type=at, single_element_table=len(measures) == 1, got_shape=list(other.shape), expected_shape=list(arr.shape))
        other = np.asarray(call(mnm, _as_arg(ts_q, at)))
        if other.shape != nums.shape or not np.array_equal(other, nums):
            o.add("measure-number-map-argument-type-changes-value", arg_type=at, single_element_table=len(measures) == 1, got_shape=list(other.shape), expected_shape=list(nums.shape))
    for i, t in enumerate(ts_q):
        m = [x for x in exp_meas if x[0] is not None and (x[0] <= t < x[1])]
        if not m:
            continue
        m = m[-1]
        if [int(x) for x in arr[i]] != [m[0], m[1]]:
            o.add("measure-map-wrong", t=int(t), got=[int(x) for x in arr[i]], expected=[m[0], m[1]], pickup=pickup, musical=musical)
            break
        if int(nums[i]) != m[2]:
            o.add("measure-number-map-wrong", t=int(t), got=int(nums[i]), expected=m[2])
            break
        if int(t) not in scalar_ts:
            continue
        sc = np.asarray(call(mm, int(t)))
        if [int(x) for x in sc] != [int(x) for x in arr[i]]:
            o.add("measure-map-scalar-array-disagree", t=int(t))
            break
        if int(call(mnm, int(t))) != int(nums[i]):
            o.add("measure-number-map-scalar-array-disagree", t=int(t))
            break
        if at in ("numpy-scalar", "python-float"):
            x = np.int64(t) if at == "numpy-scalar" else float(t)
            if [int(v) for v in np.asarray(call(mm, x))] != [int(v) for v in arr[i]] or int(call(mnm, x)) != int(nums[i]):
                o.add("measure-map-argument-type-changes-value", t=int(t), arg_type=at)
                break
    if len(measures) < 2:
        o.excluded.append("metrical-position-of-single-measure-part")
        return o
    mpm = call(lambda: part.metrical_position_map)
    arr = np.asarray(call(mpm, ts_q))
    if at in ("list", "float-array"):
        other = np.asarray(call(mpm, _as_arg(ts_q, at)))
        if other.shape != arr.shape or not np.array_equal(other, arr):
            o.add("metrical-position-map-argument-type-changes-value", arg_type=at)
    for i, t in enumerate(ts_q):
        m = [x for x in exp_meas if x[0] is not None and (x[0] <= t < x[1])]
        if not m:
            continue
        m = m[-1]
        exp = [int(t) - m[0], m[1] - m[0]]
        if [int(x) for x in arr[i]] != exp:
            o.add("metrical-position-map-wrong", t=int(t), got=[int(x) for x in arr[i]], expected=exp, pickup=pickup, musical=musical)
            break
        if int(t) not in scalar_ts:
            continue
        sc = call(mpm, int(t))
        if [int(sc[0]), int(sc[1])] != exp:
            o.add("metrical-position-map-scalar-array-disagree", t=int(t), got=[int(sc[0]), int(sc[1])])
            break
        if at in ("numpy-scalar", "python-float"):
            sc = call(mpm, np.int64(t) if at == "numpy-scalar" else float(t))
            if [int(sc[0]), int(sc[1])] != exp:
                o.add("metrical-position-map-argument-type-changes-value", t=int(t), arg_type=at)
                break
    return o


def _check_note_array(o, part, n_measures):
    """'the maps agree with the optional note-array columns derived from them' (at every note onset)."""
    kw = dict(include_key_signature=True, include_time_signature=True)
    if n_measures >= 2:
        kw["include_metrical_position"] = True
    try:
        na = call(part.note_array, **kw)
    except SutRaised as e:
        o.add("note-array-with-map-columns-" + e.kind, text=e.text)
        return
    tsm, ksm = part.time_signature_map, part.key_signature_map
    mpm = part.metrical_position_map if n_measures >= 2 else None
    for row in na:
        t = int(row["onset_div"])
        ts = [float(x) for x in np.asarray(call(tsm, t))]
        ks = [float(x) for x in np.asarray(call(ksm, t))]
        if [float(row["ts_beats"]), float(row["ts_beat_type"]), float(row["ts_mus_beats"])] != ts[:3]:
            o.add("note-array-time-signature-columns-differ-from-map", t=t, row=[int(row["ts_beats"]), int(row["ts_beat_type"]), int(row["ts_mus_beats"])], map=ts)
            return
        if [float(row["ks_fifths"]), float(row["ks_mode"])] != ks[:2]:
            o.add("note-array-key-signature-columns-differ-from-map", t=t, row=[int(row["ks_fifths"]), int(row["ks_mode"])], map=ks)
            return
        if mpm is not None:
            mp = call(mpm, t)
            exp = [1 if int(mp[0]) == 0 else 0, int(mp[0]), int(mp[1])]
            if [int(row["is_downbeat"]), int(row["rel_onset_div"]), int(row["tot_measure_div"])] != exp:
                o.add("note-array-metrical-columns-differ-from-map", t=t, row=[int(row["is_downbeat"]), int(row["rel_onset_div"]), int(row["tot_measure_div"])], map=exp)
                return


SUBCHECKS = [
    SubCheck(
        "maps",
        oracle,
        strategy=strat,
        budget={"quick": 400, "thorough": 5000},
        rule="generated parts (0-n time/key signatures with every documented spelling of the mode, clefs on 1-3 staves incl. staves without clef, no clef at all, clefs without octave change / line, signs none and jianpu, irregular measures, pickups, first element late or missing, notated/musical beat mode with default and user-supplied beats); six maps queried at every integer position (in-force maps also at the last time point) as scalar, array and list/float/numpy-scalar arguments, and compared with the note-array columns; non-trivial = an element changes where no note starts or a query lies before the first element of its kind",
        known={
            # utils.generic.interp1d, single-sample branch: everything that is not an ndarray is answered like a scalar
            "list-argument-answered-like-a-scalar-by-single-element-map": lambda spec, disc: disc["kind"] in (
                "key-signature-map-argument-type-changes-value", "measure-map-argument-type-changes-value", "measure-number-map-argument-type-changes-value")
            and disc["detail"].get("arg_type") == "list" and disc["detail"].get("single_element_table") is True
            and len(disc["detail"].get("got_shape", [])) == len(disc["detail"].get("expected_shape", [0])) - 1,
            # a clef without a line (what load_musicxml creates for <clef><sign>percussion</sign></clef>) makes the table an object array
            "clef-map-raises-for-clef-without-line": lambda spec, disc: disc["kind"].startswith("clef-map-sut-raised:TypeError")
            and disc["detail"].get("clef_without_line") is True,
        },
        floors={"single-late-time-signature": 0.02, "no-clef-at-all": 0.03, "staff-without-clef": 0.03, "pickup": 0.05, "measure-numbered-0": 0.1,
                "clef-octave-change-none": 0.05, "clef-sign-none-or-jianpu": 0.03, "key-mode-spelled-none-or-int": 0.05, "user-supplied-musical-beats": 0.05,
                "argument-type-list": 0.1, "note-array-columns-compared": 0.2, "later-measures-judged-although-first-extent-unknown": 0.1},
    ),
]
